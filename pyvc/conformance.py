"""Engine conformance suite: the ast->SMT encoding and the assumed contracts of builtins
(DESIGN 2.3 / 3) validated against CPython.

Small Python functions (SNIPPETS below -- they are test programs of the verifier, not code of
/repo) are executed twice on concrete arguments: by the symbolic executor (the same code path
every contract goes through: statements, short-circuit values, exceptions, slicing, str/list/
dict/OrderedDict/islice models, int/str conversions) and natively.  The outcome kinds, raised
classes and results must agree.  A disagreement is an engine defect (checker error, exit 3).
This validates the trusted base on the sampled cases; it proves nothing about /repo.

    python3-vt -m pyvc.conformance            (all snippets; exit 0 / 3)
"""
from __future__ import annotations

import ast
import itertools
import sys
import time

import z3

from . import load
from .state import *  # noqa: F403
from .u import *  # noqa: F403

SNIPPETS = r'''
from collections import OrderedDict
from itertools import islice


def s_strip(s): return (s.strip(), s.lstrip(), s.rstrip())
def s_case(s): return (s.lower(), s.upper(), s.capitalize())
def s_slice(s, a, b): return (s[a:b], s[a:], s[:b], s[a:a], len(s[a:b]))
def s_index(s, i): return s[i]
def s_find(s, t): return (t in s, s.startswith(t), s.endswith(t))
def s_replace(s, a, b): return s.replace(a, b)
def s_split(s, sep): return s.split(sep)
def s_join(sep, a, b): return sep.join([a, b])
def s_concat(a, b): return a + b + "!" + a
def s_fstr(a, n): return f"{a}-{n}|{a!r}"
def s_len(s): return len(s)
def s_cmp(a, b): return (a == b, a != b, a < b, a >= b)
def s_isx(s): return (s.isdigit(), s.isspace())
def s_int(s): return int(s)
def s_str_of_int(n): return str(n)
def s_bool(x): return (bool(x), not x)

def i_arith(a, b): return (a + b, a - b, a * b, -a, abs(a), min(a, b), max(a, b))
def i_div(a, b): return (a // b, a % b)
def i_cmp(a, b): return (a < b, a <= b, a == b, a != b, a > b, a >= b, a < b < 10)
def i_bool(a): return (a == True, a == 1, isinstance(a, int), isinstance(a, bool), a is None)

def b_or(a, b): return a or b
def b_and(a, b): return a and b
def b_ifexp(a, b, c): return b if a else c
def b_chain(a, b, c): return (a or b) and c

def l_ops(a, b, c):
    xs = [a, b]
    xs.append(c)
    ys = xs[:]
    ys.insert(0, c)
    last = ys.pop()
    xs.extend([a])
    return (xs, ys, last, len(xs), xs[0], xs[-1], a in xs, xs == ys)
def l_index(xs, i): return xs[i]
def l_pop_empty(xs): return xs.pop()
def l_slice(xs, a, b): return (xs[a:b], xs[::-1] if False else xs[a:])
def l_concat(xs, ys): return xs + ys
def l_rev(xs): return list(reversed(xs))
def l_comp(xs): return [x for x in xs if x is not None]
def l_comp2(xs): return [(i, x) for i, x in enumerate(xs)]
def l_enum_start(xs):
    it = iter(xs)
    first = next(it, None)
    return (first, [(i, x) for i, x in enumerate(it, start=2)], [p for p in enumerate(xs, 5)])
def l_any(xs): return (any(x for x in xs), all(x for x in xs), sum(1 for x in xs))
def l_find(xs, v): return xs.index(v)
def l_count(xs, v): return xs.count(v)
def l_unpack(xs):
    a, b = xs
    return (b, a)
def l_zip(xs, ys): return [p for p in zip(xs, ys)]

def d_ops(k1, k2, v):
    d = {k1: 1}
    d[k2] = v
    had = k1 in d
    g = d.get("zz", "dflt")
    n = len(d)
    return (had, g, n, d[k1], d.get(k2))
def d_missing(k): return {"a": 1}[k]
def d_pop(k):
    d = {"a": 1, "b": 2}
    v = d.pop(k, None)
    return (v, len(d), "a" in d)
def d_del(k):
    d = {"a": 1, "b": 2}
    del d[k]
    return len(d)
def d_setdefault(k):
    d = {"a": 1}
    r = d.setdefault(k, 7)
    return (r, len(d))
def d_iter():
    d = {"x": 1, "y": 2}
    return ([k for k in d], [v for v in d.values()], [kv for kv in d.items()])

def od_ops(k):
    od = OrderedDict()
    od["a"] = 1
    od["b"] = 2
    od["c"] = 3
    od.move_to_end(k)
    first = od.popitem(last=False)
    return (first, len(od), list(reversed(od)), k in od)
def od_update(k):
    od = OrderedDict()
    od["a"] = 1
    od["b"] = 2
    od[k] = 9
    return (list(od.keys()), list(od.values()), len(od))
def od_del(k):
    od = OrderedDict()
    od["a"] = 1
    od["b"] = 2
    del od[k]
    return list(od.items())
def od_popitem_empty():
    od = OrderedDict()
    return od.popitem(last=False)

def it_islice(xs, a, b): return list(islice(xs, a, b))
def it_next(xs):
    it = iter(xs)
    a = next(it)
    b = next(it, "end")
    return (a, b)
def it_range(a, b): return (list(range(a, b)), len(range(a, b)), [i for i in range(a)])

def e_try(x):
    try:
        r = int(x)
    except ValueError:
        r = -1
    except TypeError:
        r = -2
    finally:
        f = 1
    return (r, f)
def e_raise(x):
    if x is None:
        raise KeyError("k")
    try:
        if x == 0:
            raise IndexError("i")
        return "ok"
    except LookupError as err:
        raise ValueError("wrapped") from err
def e_else(xs):
    try:
        v = xs[0]
    except IndexError:
        return "empty"
    else:
        return v
def e_nested(d, k):
    try:
        try:
            return d[k]
        finally:
            pass
    except KeyError:
        return "missing"

def c_while(n):
    i = 0
    acc = 0
    while i < n:
        i += 1
        if i == 2:
            continue
        if i == 5:
            break
        acc += i
    return (i, acc)
def c_for_else(xs, v):
    for x in xs:
        if x == v:
            r = "found"
            break
    else:
        r = "absent"
    return r
def c_closure(a):
    def add(b):
        return a + b
    f = lambda z: add(z) * 2
    return f(3)
def c_walrus(xs):
    if (n := len(xs)) > 1:
        return n
    return -n
def c_isinstance(x): return (isinstance(x, str), isinstance(x, (int, str)), isinstance(x, list), isinstance(x, dict), x is None)
def c_eq_mixed(a, b): return (a == b, a != b, a in (None, False), a in [b])
def c_tuple(a, b):
    t = (a, b)
    x, y = t
    return (t[0], t[-1], len(t), y, t == (a, b), t + (1,))
def c_star(xs): return [*xs, 0, *xs]

def t_alias(a):
    xs = [a]
    ys = xs
    ys.append(2)
    zs = list(xs)
    zs.append(3)
    return (xs, ys, zs, xs is ys, xs is zs, xs == ys)
def t_nested_alias():
    inner = [1]
    outer = [inner, inner]
    inner.append(2)
    return (outer, len(outer[0]), outer[0] is outer[1])
def t_dict_bool_keys():
    d = {}
    d[1] = "int"
    d[True] = "bool"
    return (len(d), d[1], True in d, 1 in [True], "1" in d)
def t_default(a, b=5, *rest, k=7, **kw): return (a, b, rest, k, sorted(kw)) if False else (a, b, len(rest), k, len(kw))
def t_call_default(): return (t_default(1), t_default(1, 2), t_default(1, 2, 3, 4), t_default(1, k=9), t_default(1, z=0))
def t_finally_return():
    try:
        return "try"
    finally:
        pass
def t_reraise(x):
    try:
        try:
            return [1][x]
        except IndexError:
            raise
    except LookupError:
        return "caught"
def t_typeerrors(k, x):
    if k == 0: return len(x)
    if k == 1: return x + 1
    if k == 2: return "a" + x
    if k == 3: return int(x)
    if k == 4: return x < 1
    if k == 5: return ",".join([x])
    if k == 6: return x[0]
    if k == 7: return -x
    return x.nosuch
def t_boolint(a, b): return (a + b, a * 2, a == b, a is b, int(a), str(a), [a].count(b))
def t_str_more(s, t): return (s.find(t), s.count(t) if t else -1, s.rpartition(t) if t else None, s * 2, s.isalpha(), s.splitlines(), s.partition(t) if t else None)
def t_str_strip_chars(s, t): return (s.strip(t) if t else None, s.lstrip(t) if t else None, s.rstrip(t) if t else None, s.strip(), s.lstrip(" \t"))
def t_str_pct(a, b): return ("%s-%s" % (a, b), "%d" % b if isinstance(b, int) else None, "%(x)s" % {"x": a})
def t_repr(s): return (repr(s), str(s), [s].__len__() if False else 1)
def t_minmax(xs): return (min(xs), max(xs), sorted(xs))
def t_notin(x, xs): return (x not in xs, not x in xs, x in xs)
def t_augassign(n):
    xs = [1]
    ys = xs
    xs += [n]
    s = "a"
    s += "b"
    i = n
    i -= 1
    i *= 3
    return (xs, ys, s, i)
def t_augassign_effect(n):
    log = []
    def f(k):
        log.append(k)
        return k
    i = 0
    i += f(n)
    i -= f(1)
    d = {"a": 0}
    d["a"] += f(2)
    return (i, log, d)
def t_any_exc(xs): return any(x > 1 for x in xs)
def t_ternary_chain(x): return "neg" if x < 0 else "zero" if x == 0 else "pos"
def t_str_index(s, a): return (s[a], s[-1], s[0:1])
def t_dict_order():
    d = {"a": 1, "b": 2, "c": 3}
    del d["a"]
    d["a"] = 4
    d["b"] = 5
    return (list(d.keys()) if False else [k for k in d], [v for v in d.values()])
def t_od_order(k):
    od = OrderedDict()
    for key in ("a", "b", "c"):
        od[key] = key.upper()
    od.move_to_end(k)
    od["b"] = "again"
    out = []
    for kk in reversed(od):
        out.append(kk)
    first = od.popitem(last=False)
    return (out, first, [x for x in od.values()], len(od))
def t_islice_neg(a, b): return list(islice([1, 2, 3], a, b))
def t_int_conv(x): return int(x)
def t_str_conv(x): return str(x)
def t_len(x): return len(x)
def t_global_const(): return (STRS_CONST[0], LIMIT + 1, "k" in TABLE, TABLE["k"])
STRS_CONST = ("first", "second")
LIMIT = 41
TABLE = {"k": "v"}
'''

STRS = ["", "a", "ab", " a b ", "Hello", "12", "-3", "x,y,,z", "\t\n", "é", "aXbXc"]
SHORT = ["", "a", "X", ",", "ab"]
INTS = [0, 1, -1, 2, 5, -7, 10, 10**20]
SMALL = [-3, -1, 0, 1, 2, 5]
MIXED = [None, True, False, 0, 1, 2, "", "a", "1"]
LISTS = [[], [1], [1, 2, 3], ["a", None, "a"], [None, None], [3, 1, 2, 1]]

CASES = {
    "s_strip": [(s,) for s in STRS], "s_case": [(s,) for s in STRS], "s_slice": [(s, a, b) for s in ["", "a", "abcdef"] for a in SMALL + [9] for b in SMALL + [9]],
    "s_index": [(s, i) for s in ["", "ab"] for i in SMALL], "s_find": [(s, t) for s in STRS for t in SHORT], "s_replace": [(s, a, b) for s in STRS for a in ["a", "X", ","] for b in ["", "Z"]],
    "s_split": [(s, sep) for s in STRS for sep in ["a", ",", "X", " "]], "s_join": [(sep, a, b) for sep in SHORT for a in ["", "p"] for b in ["q"]], "s_concat": [(a, b) for a in SHORT for b in SHORT],
    "s_fstr": [(a, n) for a in ["", "a'b", "x"] for n in [0, -5, 10**20]], "s_len": [(s,) for s in STRS], "s_cmp": [(a, b) for a in SHORT for b in SHORT], "s_isx": [(s,) for s in STRS],
    "s_int": [(s,) for s in STRS + [" 12 ", "1_0", "+5", "0x1", "1.5"]], "s_str_of_int": [(n,) for n in INTS], "s_bool": [(x,) for x in MIXED],
    "i_arith": [(a, b) for a in INTS for b in INTS], "i_div": [(a, b) for a in INTS for b in [0, 1, -1, 2, -7, 3]], "i_cmp": [(a, b) for a in SMALL for b in SMALL], "i_bool": [(x,) for x in MIXED],
    "b_or": [(a, b) for a in MIXED for b in MIXED], "b_and": [(a, b) for a in MIXED for b in MIXED], "b_ifexp": [(a, 1, 2) for a in MIXED], "b_chain": [(a, b, c) for a in [None, 0, "x"] for b in [False, 3] for c in ["", "y"]],
    "l_ops": [(a, b, c) for a in [1, "a", None] for b in [2, None] for c in [1, "z"]], "l_index": [(xs, i) for xs in LISTS for i in SMALL], "l_pop_empty": [([],), ([1],)],
    "l_slice": [(xs, a, b) for xs in LISTS[:4] for a in SMALL for b in SMALL], "l_concat": [(a, b) for a in LISTS[:3] for b in LISTS[:3]], "l_rev": [(xs,) for xs in LISTS], "l_comp": [(xs,) for xs in LISTS],
    "l_comp2": [(xs,) for xs in LISTS[:4]], "l_enum_start": [(xs,) for xs in LISTS[:4]], "l_any": [(xs,) for xs in LISTS + [[0, ""], [1, "a"]]], "l_find": [(xs, v) for xs in LISTS for v in [1, "a", None, True, 9]], "l_count": [(xs, v) for xs in LISTS for v in [1, "a", None, True]],
    "l_unpack": [(xs,) for xs in [[1, 2], [1], [1, 2, 3], []]], "l_zip": [(a, b) for a in LISTS[:4] for b in LISTS[:4]],
    "d_ops": [(k1, k2, v) for k1 in ["a", "b"] for k2 in ["a", "c"] for v in [None, 5]], "d_missing": [("a",), ("b",)], "d_pop": [("a",), ("z",)], "d_del": [("a",), ("z",)], "d_setdefault": [("a",), ("q",)], "d_iter": [()],
    "od_ops": [("a",), ("b",), ("c",), ("z",)], "od_update": [("a",), ("b",), ("n",)], "od_del": [("a",), ("b",), ("z",)], "od_popitem_empty": [()],
    "it_islice": [(xs, a, b) for xs in LISTS[:4] for a in [0, 1, 2, 5] for b in [0, 1, 3, 9, None]] + [([1, 2], -1, 2)], "it_next": [(xs,) for xs in [[], [1], [1, 2]]], "it_range": [(a, b) for a in [0, 1, 3] for b in [-1, 0, 2, 5]],
    "e_try": [(x,) for x in ["12", "x", None, 3, ""]], "e_raise": [(None,), (0,), (1,)], "e_else": [([],), ([7],)], "e_nested": [({"a": 1}, "a"), ({"a": 1}, "b")],
    "c_while": [(n,) for n in [0, 1, 2, 3, 6, 9]], "c_for_else": [(xs, v) for xs in LISTS[:4] for v in [1, "a", 9]], "c_closure": [(a,) for a in [0, 4, -2]], "c_walrus": [(xs,) for xs in LISTS[:4]],
    "c_isinstance": [(x,) for x in MIXED + [[1], {"a": 1}]], "c_eq_mixed": [(a, b) for a in MIXED for b in MIXED], "c_tuple": [(a, b) for a in [1, "x", None] for b in [2, "x"]], "c_star": [(xs,) for xs in LISTS[:3]],
    "t_alias": [(1,), ("a",)], "t_nested_alias": [()], "t_dict_bool_keys": [()], "t_call_default": [()], "t_finally_return": [()], "t_reraise": [(0,), (3,)],
    "t_typeerrors": [(k, x) for k in range(9) for x in [None, 1, "a", [1], True]], "t_boolint": [(a, b) for a in [True, False, 0, 1, 2] for b in [True, 1, 0]],
    "t_str_strip_chars": [(s, t) for s in STRS for t in SHORT], "t_str_more": [(s, t) for s in STRS for t in SHORT], "t_str_pct": [(a, b) for a in ["x", "%s", ""] for b in [1, "y", -2]], "t_repr": [(s,) for s in ["", "a", "it's", 'say "hi"', "back\\slash", "tab\t", "é", "both ' and \""]],
    "t_minmax": [(xs,) for xs in [[1], [3, 1, 2], ["b", "a"], [], [1, "a"]]], "t_notin": [(x, xs) for x in [1, None, "a", True] for xs in LISTS], "t_augassign": [(n,) for n in [0, 5]], "t_augassign_effect": [(n,) for n in [0, 5]],
    "t_any_exc": [(xs,) for xs in [[], [0, 2], [0, "a"], [5, "a"]]], "t_ternary_chain": [(x,) for x in [-1, 0, 1]], "t_str_index": [(s, a) for s in ["", "a", "abc"] for a in SMALL],
    "t_dict_order": [()], "t_od_order": [("a",), ("b",), ("c",), ("q",)], "t_islice_neg": [(a, b) for a in [-1, 0, 1, None] for b in [-1, 0, 2, None]],
    "t_int_conv": [(x,) for x in [None, True, 3, "7", " 8 ", "x", "", [1], "1e3", "٣"]], "t_str_conv": [(x,) for x in [None, True, False, 3, -4, "s", 10**30]], "t_len": [(x,) for x in [None, 3, "abc", [1, 2], {"a": 1}, True]],
    "t_global_const": [()],
}


class SnippetModule(load.Module):
    def __init__(self, name, source):  # noqa: D107 (no file: the source is given)
        self.name = name
        self.path = "<conformance>"
        self.source = source
        self.tree = ast.parse(source)
        self.imports, self.consts, self.funcs, self.classes = {}, {}, {}, {}
        self._scan()


def enc(v):
    """native value -> comparable JSON-like shape (same as replay/xcheck.py)"""
    if v is None or isinstance(v, (bool, int, str)):
        return v
    if isinstance(v, list):
        return [enc(x) for x in v]
    if isinstance(v, tuple):
        return {"$t": [enc(x) for x in v]}
    return {"$o": type(v).__name__}


def to_val(st, py):
    if isinstance(py, list):
        return st.alloc(HList(items=[to_val(st, x) for x in py]))
    if isinstance(py, dict):
        return st.alloc(HDict(items={k: to_val(st, v) for k, v in py.items()}))
    return const(py)


def result_py(eng, st, val):
    """engine value (on concrete inputs) -> same shape as enc(); raises ValueError if not ground"""
    from .contract import term_py
    from .crosscheck import ground_eval

    if isinstance(val, VTuple):
        return {"$t": [result_py(eng, st, x) for x in val.items]}
    if isinstance(val, VRef):
        h = st.deref(val)
        if isinstance(h, HList):
            if h.items is not None:
                return [result_py(eng, st, x) for x in h.items]
            py = term_py(ground_eval(z3.simplify(eng.list_seq(st, val))))
            if isinstance(py, list) and not any(isinstance(x, dict) for x in py):
                return py
        if isinstance(h, (HIter, HCIter)):
            return {"$o": "iterator"}
        raise ValueError(f"heap object {type(h).__name__}")
    if isinstance(val, VSeq):
        py = term_py(ground_eval(z3.simplify(val.t)))
        if isinstance(py, list) and not any(isinstance(x, dict) for x in py):
            return {"$t": py} if val.kind == "tuple" else py
        raise ValueError("symbolic sequence")
    t = ground_eval(z3.simplify(box(val)))
    py = term_py(t)
    if isinstance(py, dict):
        raise ValueError(f"non-ground result {py}")
    return py


def run_all(only=None):
    from .contract import Contract, ContractDef
    from .crosscheck import _decide
    from .engine import Engine

    mod = SnippetModule("pyvc_conformance_snippets", SNIPPETS)
    load._MOD_CACHE[mod.name] = mod
    ns = {}
    exec(compile(SNIPPETS, "<conformance>", "exec"), ns)  # noqa: S102 (the verifier's own test programs)
    stats = {"functions": 0, "cases": 0, "agree": 0, "not_ground": 0, "unsupported": [], "mismatches": []}
    for fname, cases in CASES.items():
        if only and only not in fname:
            continue
        stats["functions"] += 1
        node = mod.funcs[fname]
        for args in cases:
            stats["cases"] += 1
            try:
                import copy

                nat = ("ok", enc(ns[fname](*copy.deepcopy(list(args)))))
            except Exception as e:  # noqa: BLE001
                nat = ("exc", type(e).__name__, [k.__name__ for k in type(e).__mro__])
            try:
                c = Contract(ContractDef(f"{mod.name}:{fname}", "conformance", lambda c_: None))
                eng = Engine(c)
                st = c.st
                func = VFunc(node, mod, None, fname, None)
                outs = eng.run(func, st, [to_val(st, a) for a in args], {})
                feas = [(s, o) for s, o in outs if _decide(list(s.pc), []) is not False]
                if len(feas) != 1:
                    # an ABSTRACT model (uninterpreted function, e.g. printf or the order chosen by
                    # sorted) leaves several outcomes open: sound iff CPython's outcome is among them
                    def agrees(s_, o_):
                        if isinstance(o_, Raised):
                            return nat[0] == "exc" and (o_.exc.cls == nat[1] or o_.exc.cls in nat[2])
                        try:
                            return nat[0] == "ok" and result_py(eng, s_, o_.val if isinstance(o_, Ret) else o_) == nat[1]
                        except ValueError:
                            return nat[0] == "ok"
                    if feas and any(agrees(s_, o_) for s_, o_ in feas):
                        stats["abstract"] = stats.get("abstract", 0) + 1
                    else:
                        stats["mismatches"].append({"function": fname, "args": repr(args), "engine": f"{len(feas)} feasible outcomes on concrete input, none is CPython's", "cpython": nat[:2]})
                    continue
                s, o = feas[0]
                if isinstance(o, Raised):
                    got = ("exc", o.exc.cls)
                    ok = nat[0] == "exc" and (o.exc.cls == nat[1] or o.exc.cls in nat[2])
                else:
                    v = o.val if isinstance(o, Ret) else o
                    try:
                        got = ("ok", result_py(eng, s, v))
                    except ValueError as e:
                        stats["not_ground"] += 1
                        if nat[0] != "ok":
                            stats["mismatches"].append({"function": fname, "args": repr(args), "engine": f"returns ({e})", "cpython": nat})
                        continue
                    ok = nat[0] == "ok" and got[1] == nat[1]
                if ok:
                    stats["agree"] += 1
                else:
                    stats["mismatches"].append({"function": fname, "args": repr(args), "engine": got, "cpython": nat[:2]})
            except Unsupported as e:
                stats["unsupported"].append(f"{fname}{args!r}: {e}")
            except Exception as e:  # noqa: BLE001  (an engine crash is a defect of the engine, reported as a mismatch)
                stats["mismatches"].append({"function": fname, "args": repr(args), "engine": f"CRASH {type(e).__name__}: {e}", "cpython": nat[:2]})
    return stats


def main():
    t0 = time.time()
    only = sys.argv[1] if len(sys.argv) > 1 else None
    st = run_all(only)
    print(f"conformance: {st['functions']} functions, {st['cases']} cases, {st['agree']} agree, {st['not_ground']} not ground, {st.get('abstract', 0)} abstract (CPython's outcome among several), {len(st['unsupported'])} unsupported, {len(st['mismatches'])} MISMATCHES ({time.time() - t0:.1f}s)")
    for u in sorted(set(x.split(':', 1)[0].split('(')[0] + ': ' + x.split(': ', 1)[1] for x in st["unsupported"]))[:40]:
        print("  unsupported:", u)
    for m in st["mismatches"][:40]:
        print("  MISMATCH:", m)
    return 3 if st["mismatches"] else 0


if __name__ == "__main__":
    sys.exit(main())
