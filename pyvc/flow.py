"""Structural (frame / call-site / dataflow) obligations over the real ASTs of /repo.

These are contract obligations whose discharge is syntactic: write sets, call-site
shapes, dominance of a guard.  They are reported with backend 'pyvc-flow'.
"""
from __future__ import annotations

import ast
from typing import Iterator

from . import load


def ob(label, ok, detail="", **kw):
    d = {"label": label, "status": "discharged" if ok else "refuted", "detail": detail}
    d.update(kw)
    return d


def parents(root):
    pm = {}
    for n in ast.walk(root):
        for c in ast.iter_child_nodes(n):
            pm[c] = n
    return pm


def dotted(node) -> str:
    try:
        return ast.unparse(node)
    except Exception:
        return "?"


def iter_classes() -> Iterator[tuple]:
    for m in load.all_modules():
        mod = load.get_module(m)
        for cname, cnode in mod.classes.items():
            yield m, cname, cnode


def iter_methods(name_pred=None, class_pred=None):
    for m, cname, cnode in iter_classes():
        if class_pred and not class_pred(m, cname, cnode):
            continue
        for stmt in cnode.body:
            if isinstance(stmt, (ast.FunctionDef, ast.AsyncFunctionDef)):
                if name_pred is None or name_pred(stmt.name):
                    yield m, cname, stmt


def subclasses_of(base_names: set[str]):
    """(module, class) pairs whose MRO contains one of base_names"""
    out = []
    for m, cname, _ in iter_classes():
        names = [c[1] for c in load.mro(m, cname)]
        if any(b in names[1:] or b == cname for b in base_names):
            out.append((m, cname))
    return out


def calls(node):
    return [n for n in ast.walk(node) if isinstance(n, ast.Call)]


def call_name(call: ast.Call) -> str:
    f = call.func
    if isinstance(f, ast.Attribute):
        return f.attr
    if isinstance(f, ast.Name):
        return f.id
    return "?"


def enclosing(pm, node, types):
    out = []
    cur = pm.get(node)
    while cur is not None:
        if isinstance(cur, types):
            out.append(cur)
        cur = pm.get(cur)
    return out


def kwarg(call: ast.Call, name: str):
    for k in call.keywords:
        if k.arg == name:
            return k.value
    return None


def where(m, cname, fn, node=None):
    return f"{m}:{cname}.{fn.name}@{getattr(node or fn, 'lineno', '?')}"
