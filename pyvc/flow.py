"""Structural (frame / call-site / dataflow) obligations over the real ASTs of /repo.

These are contract obligations whose discharge is syntactic: write sets, call-site
shapes, dominance of a guard.  They are reported with backend 'pyvc-flow'.
"""
from __future__ import annotations

import ast
from typing import Iterator

from . import load


def ob(label, ok, detail="", **kw):
    d = {"label": label, "status": "discharged" if ok else "refuted", "detail": detail}
    d.update(kw)
    return d


def parents(root):
    pm = {}
    for n in ast.walk(root):
        for c in ast.iter_child_nodes(n):
            pm[c] = n
    return pm


def dotted(node) -> str:
    try:
        return ast.unparse(node)
    except Exception:
        return "?"


def iter_classes() -> Iterator[tuple]:
    for m in load.all_modules():
        mod = load.get_module(m)
        for cname, cnode in mod.classes.items():
            yield m, cname, cnode


def iter_methods(name_pred=None, class_pred=None):
    for m, cname, cnode in iter_classes():
        if class_pred and not class_pred(m, cname, cnode):
            continue
        for stmt in cnode.body:
            if isinstance(stmt, (ast.FunctionDef, ast.AsyncFunctionDef)):
                if name_pred is None or name_pred(stmt.name):
                    yield m, cname, stmt


def subclasses_of(base_names: set[str]):
    """(module, class) pairs whose MRO contains one of base_names"""
    out = []
    for m, cname, _ in iter_classes():
        names = [c[1] for c in load.mro(m, cname)]
        if any(b in names[1:] or b == cname for b in base_names):
            out.append((m, cname))
    return out


def calls(node):
    return [n for n in ast.walk(node) if isinstance(n, ast.Call)]


def call_name(call: ast.Call) -> str:
    f = call.func
    if isinstance(f, ast.Attribute):
        return f.attr
    if isinstance(f, ast.Name):
        return f.id
    return "?"


def enclosing(pm, node, types):
    out = []
    cur = pm.get(node)
    while cur is not None:
        if isinstance(cur, types):
            out.append(cur)
        cur = pm.get(cur)
    return out


def kwarg(call: ast.Call, name: str):
    for k in call.keywords:
        if k.arg == name:
            return k.value
    return None


def where(m, cname, fn, node=None):
    return f"{m}:{cname}.{fn.name}@{getattr(node or fn, 'lineno', '?')}"


def const_eval(mod, expr, depth=0):
    """Evaluate a constant expression of module `mod` (names resolved through module
    constants and imports); raises ValueError when not constant."""
    if depth > 12:
        raise ValueError("too deep")
    if isinstance(expr, ast.Constant):
        return expr.value
    if isinstance(expr, ast.Name):
        if expr.id in mod.consts:
            return const_eval(mod, mod.consts[expr.id], depth + 1)
        if expr.id in mod.imports:
            m, n = mod.imports[expr.id]
            if m.startswith("liquid") and n is not None:
                return const_eval(load.get_module(m), ast.Name(id=n, ctx=ast.Load()), depth + 1)
        raise ValueError(f"unknown name {expr.id}")
    if isinstance(expr, (ast.Tuple, ast.List, ast.Set)):
        vals = [const_eval(mod, e, depth + 1) for e in expr.elts]
        return tuple(vals) if isinstance(expr, ast.Tuple) else (vals if isinstance(expr, ast.List) else set(vals))
    if isinstance(expr, ast.Dict):
        return {const_eval(mod, k, depth + 1): const_eval(mod, v, depth + 1) for k, v in zip(expr.keys, expr.values)}
    if isinstance(expr, ast.Call):
        f = dotted(expr.func)
        if f == "sys.intern" and len(expr.args) == 1:
            return const_eval(mod, expr.args[0], depth + 1)
        if f == "chr" and len(expr.args) == 1 and not expr.keywords:
            v = const_eval(mod, expr.args[0], depth + 1)
            if isinstance(v, int) and not isinstance(v, bool) and 0 <= v <= 0x10FFFF:
                return chr(v)
        if f in ("frozenset", "set", "tuple", "list") and len(expr.args) <= 1:
            inner = const_eval(mod, expr.args[0], depth + 1) if expr.args else ()
            return {"frozenset": frozenset, "set": set, "tuple": tuple, "list": list}[f](inner)
    if isinstance(expr, ast.Attribute) and isinstance(expr.value, ast.Name) and expr.value.id == "self":
        raise ValueError("self attribute")
    raise ValueError(f"not constant: {dotted(expr)[:60]}")


def tag_classes():
    """[(module, class, ClassDef)] of Tag subclasses"""
    out = []
    for m, cname, cnode in iter_classes():
        names = [c[1] for c in load.mro(m, cname)]
        if "Tag" in names[1:]:
            out.append((m, cname, cnode))
    return out


def class_const(m, cname, attr):
    """constant class attribute through the MRO (ValueError if absent / not constant)"""
    for mm, cc in load.mro(m, cname):
        if not mm.startswith("liquid"):
            continue
        mod = load.get_module(mm)
        cn = mod.classes.get(cc)
        if cn is None:
            continue
        for stmt in cn.body:
            tgt = None
            if isinstance(stmt, ast.Assign) and len(stmt.targets) == 1 and isinstance(stmt.targets[0], ast.Name):
                tgt, val = stmt.targets[0].id, stmt.value
            elif isinstance(stmt, ast.AnnAssign) and isinstance(stmt.target, ast.Name) and stmt.value is not None:
                tgt, val = stmt.target.id, stmt.value
            if tgt == attr:
                return const_eval(mod, val)
    raise ValueError(f"{cname}.{attr} not found")
