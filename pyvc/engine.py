"""The executor assembled from its mixins."""
from .builtins import BuiltinMixin
from .exec import ExecBase
from .expr import ExprMixin
from .lib import LibMixin


class Engine(LibMixin, BuiltinMixin, ExprMixin, ExecBase):
    pass
