"""SMT sorts and symbolic value classes used by the executor."""
from __future__ import annotations

import itertools
from dataclasses import dataclass, field
from typing import Any, Optional

import z3

# ------------------------------------------------------------------ sorts

Flt = z3.DeclareSort("Flt")  # abstract floats (no IEEE semantics, see DESIGN 2.3)

_U = z3.Datatype("U")
_U.declare("none")
_U.declare("bool", ("b", z3.BoolSort()))
_U.declare("int", ("i", z3.IntSort()))
_U.declare("flt", ("f", Flt))
_U.declare("str", ("s", z3.StringSort()))
_U.declare("ref", ("r", z3.IntSort()))
U = _U.create()
SeqU = z3.SeqSort(U)

I = z3.IntSort()
B = z3.BoolSort()
S = z3.StringSort()

_fresh = itertools.count()


def fresh(prefix: str, sort):
    return z3.Const(f"{prefix}!{next(_fresh)}", sort)


def zmin(a, b):
    return z3.If(a <= b, a, b)


def zmax(a, b):
    return z3.If(a >= b, a, b)


# abstract float helpers
flt_of_int = z3.Function("flt_of_int", I, Flt)
flt_is_nan = z3.Function("flt_is_nan", Flt, B)
flt_is_inf = z3.Function("flt_is_inf", Flt, B)
flt_nonzero = z3.Function("flt_nonzero", Flt, B)
flt_trunc = z3.Function("flt_trunc", Flt, I)  # int(f) for finite f
flt_of_str = z3.Function("flt_of_str", S, Flt)
str_is_float = z3.Function("str_is_float", S, B)  # float(s) succeeds
str_is_int = z3.Function("str_is_int", S, B)  # int(s) succeeds
int_of_str = z3.Function("int_of_str", S, I)
str_of_u = z3.Function("str_of_u", U, S)  # str(x) for non-primitive x
repr_of_u = z3.Function("repr_of_u", U, S)
utf8len = z3.Function("utf8len", S, I)


# ------------------------------------------------------------------ values


class Val:
    pass


@dataclass(frozen=True)
class VInt(Val):
    t: Any


@dataclass(frozen=True)
class VBool(Val):
    t: Any


@dataclass(frozen=True)
class VStr(Val):
    t: Any


@dataclass(frozen=True)
class VFlt(Val):
    t: Any


@dataclass(frozen=True)
class VNone(Val):
    pass


@dataclass(frozen=True)
class VU(Val):
    """dynamically typed value"""

    t: Any


@dataclass(frozen=True)
class VSeq(Val):
    """immutable sequence of U (tuple-like snapshot or symbolic list contents)"""

    t: Any
    kind: str = "list"


@dataclass(frozen=True)
class VRange(Val):
    """range(start, stop) with symbolic int bounds (step 1)"""

    start: Any
    stop: Any


@dataclass(frozen=True)
class VTuple(Val):
    items: tuple


@dataclass(frozen=True)
class VRef(Val):
    addr: int


@dataclass(frozen=True)
class VConst(Val):
    """a Python constant the engine does not interpret (kinds, sentinels, classes)"""

    py: Any


@dataclass(frozen=True)
class VFunc(Val):
    node: Any  # ast.FunctionDef / Lambda
    module: Any  # load.Module
    closure: Any = None  # dict of captured locals (by reference to State at def time)
    qual: str = ""
    cls: Any = None  # (module, class) where defined, for super()
    decorated: bool = False  # decorators already applied (composition built by the engine)


@dataclass(frozen=True)
class VBound(Val):
    self: Val
    func: VFunc


@dataclass(frozen=True)
class VBuiltin(Val):
    name: str
    self: Optional[Val] = None


@dataclass(frozen=True)
class VClass(Val):
    module: str
    name: str


@dataclass(frozen=True)
class VExcClass(Val):
    name: str


_exc_ids = itertools.count(1)


@dataclass(frozen=True)
class VExc(Val):
    cls: str
    args: tuple = ()
    cause: Any = None
    uid: int = field(default_factory=lambda: next(_exc_ids))
    kw: tuple = ()  # keyword arguments given at construction (e.g. token=...)


@dataclass(frozen=True)
class VOpaque(Val):
    """result of an uninterpreted call; `t` is a U term"""

    t: Any
    desc: str = ""


NONE = VNone()


# ------------------------------------------------------------------ heap objects


@dataclass
class HObj:
    cls: tuple  # (module, name)
    fields: dict = field(default_factory=dict)
    field_sorts: dict = field(default_factory=dict)  # optional: name -> 'int'|'bool'|'str'|'U'
    name: str = ""

    def copy(self):
        return HObj(self.cls, dict(self.fields), self.field_sorts, self.name)


@dataclass
class HList:
    items: Optional[list] = None  # concrete spine of Vals
    seq: Any = None  # or symbolic Seq(U) prefix ...
    tail: list = field(default_factory=list)  # ... followed by concretely appended Vals

    def copy(self):
        return HList(None if self.items is None else list(self.items), self.seq, list(self.tail))


@dataclass
class HDict:
    """dict with concrete keys (python constants) -> Val, plus optional symbolic part"""

    items: dict = field(default_factory=dict)  # concrete key -> Val
    present: Any = None  # Array(U,Bool) symbolic part
    val: Any = None  # Array(U,U)
    order: Any = None  # optional

    def copy(self):
        return HDict(dict(self.items), self.present, self.val, self.order)


@dataclass
class HODict:
    """collections.OrderedDict model: DESIGN section 3"""

    present: Any
    val: Any
    rank: Any
    n: Any
    nxt: Any

    def copy(self):
        return HODict(self.present, self.val, self.rank, self.n, self.nxt)


@dataclass
class HIter:
    seq: Any
    pos: Any
    live_of: Optional[int] = None  # address of a container this is a lazy live view of

    def copy(self):
        return HIter(self.seq, self.pos, self.live_of)


@dataclass
class HCIter:
    """iterator over a concrete spine"""

    items: list
    pos: int = 0

    def copy(self):
        return HCIter(self.items, self.pos)


@dataclass
class HDeque:
    items: list

    def copy(self):
        return HDeque(list(self.items))


@dataclass
class HSet:
    """a mutable set built at run time: the values added so far (membership is decided by ==
    against each of them; duplicates are harmless)"""
    items: list

    def copy(self):
        return HSet(list(self.items))


@dataclass
class HCell:
    """generic mutable box for library objects (StringIO text etc.)"""

    kind: str
    data: dict

    def copy(self):
        return HCell(self.kind, dict(self.data))
