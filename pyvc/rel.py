"""Relational sync/async contracts (C01): await-erasure congruence + justified rewrite rules.

Tier 1: the two bodies are equal after await-erasure, `_async` renaming, removal of
docstrings/annotations.  Tier 2: equal after the rewrite rules below; every rule is an
equivalence lemma under a precondition that is either proved structurally from the source
(see contracts/C01.py `preconditions`) or listed as an assumption in the evidence.
Anything still different is a refuted obligation; the normalised diff is the witness.
"""
from __future__ import annotations

import ast
import copy
import difflib

from . import load

RENAMES = {"__getitem_async__": "__getitem__"}


def ren(s: str) -> str:
    if s in RENAMES:
        return RENAMES[s]
    return s[:-6] if s.endswith("_async") and len(s) > 6 else s


class Erase(ast.NodeTransformer):
    """await-erasure + renaming + removal of things with no run-time meaning"""

    def visit_AsyncFunctionDef(self, n):
        n2 = ast.FunctionDef(name=n.name, args=n.args, body=n.body, decorator_list=n.decorator_list, returns=None, type_comment=None)
        return self.visit_FunctionDef(n2)

    def visit_FunctionDef(self, n):
        self.generic_visit(n)
        n.name = ren(n.name)
        n.returns = None
        n.decorator_list = [d for d in n.decorator_list if ast.unparse(d) not in ("abstractmethod", "staticmethod") or ast.unparse(d) == "staticmethod"]
        if n.body and isinstance(n.body[0], ast.Expr) and isinstance(n.body[0].value, ast.Constant) and isinstance(n.body[0].value.value, str):
            n.body = n.body[1:] or [ast.Pass()]
        for a in n.args.args + n.args.kwonlyargs + n.args.posonlyargs:
            a.annotation = None
        for a in (n.args.vararg, n.args.kwarg):
            if a is not None:
                a.annotation = None
        return n

    def visit_Await(self, n):
        return self.visit(n.value)

    def visit_AsyncFor(self, n):
        return self.generic_visit(ast.For(target=n.target, iter=n.iter, body=n.body, orelse=n.orelse, type_comment=None))

    def visit_AsyncWith(self, n):
        return self.generic_visit(ast.With(items=n.items, body=n.body, type_comment=None))

    def visit_Name(self, n):
        n.id = ren(n.id)
        return n

    def visit_Attribute(self, n):
        self.generic_visit(n)
        n.attr = ren(n.attr)
        return n

    def visit_keyword(self, n):
        self.generic_visit(n)
        return n

    def visit_AnnAssign(self, n):
        self.generic_visit(n)
        if n.value is None:
            return None
        return ast.Assign(targets=[n.target], value=n.value, type_comment=None)


def erase(fn):
    t = Erase().visit(copy.deepcopy(fn))
    return ast.fix_missing_locations(t)


# ---------------------------------------------------------------------------- rules


class Rules(ast.NodeTransformer):
    """Rewrite rules; `used` records which fired (reported per obligation)."""

    def __init__(self, is_generator_pair=False, signatures=None):
        self.used: set[str] = set()
        self.is_generator_pair = is_generator_pair
        self.signatures = signatures or {}

    # R2: a generator expression consumed at once == the list comprehension
    def visit_Call(self, n):
        self.generic_visit(n)
        fname = ast.unparse(n.func)
        if fname in ("sum", "any", "all", "list", "tuple", "sorted", "set") or fname.endswith(".join"):
            for i, a in enumerate(n.args):
                if isinstance(a, ast.ListComp):
                    n.args[i] = ast.GeneratorExp(elt=a.elt, generators=a.generators)
                    self.used.add("R2:generator==list-comprehension-when-consumed-at-once")
        # R4: loop.run_in_executor(None, f, *a) awaited == f(*a)
        if isinstance(n.func, ast.Attribute) and n.func.attr == "run_in_executor" and n.args and isinstance(n.args[0], ast.Constant) and n.args[0].value is None:
            self.used.add("R4:run_in_executor(None,f,*a)==f(*a)")
            f = n.args[1]
            if isinstance(f, ast.Lambda) and not f.args.args and len(n.args) == 2:
                return f.body
            return self.visit_Call(ast.Call(func=f, args=n.args[2:], keywords=[]))
        # R5: positional arguments named through the (unique) repo signature
        if isinstance(n.func, ast.Attribute) and n.func.attr in self.signatures:
            params = self.signatures[n.func.attr]
            if len(n.args) <= len(params) and not any(isinstance(a, ast.Starred) for a in n.args):
                kws = [ast.keyword(arg=p, value=a) for p, a in zip(params, n.args)]
                if n.args:
                    self.used.add("R5:positional==keyword-argument(same parameter)")
                n.keywords = sorted(kws + n.keywords, key=lambda k: (k.arg is None, k.arg or ""))
                n.args = []
        # R7: is_undefined(x) == isinstance(x, Undefined)   (body of is_undefined checked)
        if fname == "is_undefined" and len(n.args) == 1:
            self.used.add("R7:is_undefined(x)==isinstance(x,Undefined)")
            return ast.Call(func=ast.Name(id="isinstance", ctx=ast.Load()), args=[n.args[0], ast.Name(id="Undefined", ctx=ast.Load())], keywords=[])
        return n

    def visit_FunctionDef(self, n):
        self.generic_visit(n)
        body = n.body
        # R4: `loop = asyncio.get_running_loop()` has no effect once run_in_executor is erased
        nb = []
        for st in body:
            if isinstance(st, ast.Assign) and isinstance(st.value, ast.Call) and ast.unparse(st.value.func).endswith("get_running_loop"):
                self.used.add("R4:run_in_executor(None,f,*a)==f(*a)")
                continue
            nb.append(st)
        n.body = nb
        # R6: single-use temporaries are inlined
        n.body = self.inline_temps(n.body)
        # R3: generator `yield from E` vs list-returning twin (consumers only iterate)
        if self.is_generator_pair:
            n.body = self.gen_to_return(n.body, top=True)
        return n

    def gen_to_return(self, body, top=False):
        out = []
        for st in body:
            if isinstance(st, ast.Expr) and isinstance(st.value, ast.YieldFrom):
                out.append(ast.Return(value=st.value.value))
                self.used.add("R3:generator(yield from E)==return E for iterating consumers")
                continue
            for fld in ("body", "orelse", "finalbody"):
                if hasattr(st, fld) and isinstance(getattr(st, fld), list):
                    setattr(st, fld, self.gen_to_return(getattr(st, fld)))
            if isinstance(st, ast.Try):
                for h in st.handlers:
                    h.body = self.gen_to_return(h.body)
            out.append(st)
        if top and out and not isinstance(out[-1], ast.Return):
            # falling off the end of a generator yields nothing == `return []`
            out.append(ast.Return(value=ast.List(elts=[], ctx=ast.Load())))
        return out

    def inline_temps(self, body):
        out = []
        i = 0
        while i < len(body):
            st = body[i]
            if (
                isinstance(st, ast.Assign) and len(st.targets) == 1 and isinstance(st.targets[0], ast.Name) and i + 1 < len(body)
            ):
                name = st.targets[0].id
                rest = body[i + 1 :]
                uses = [x for s2 in rest for x in ast.walk(s2) if isinstance(x, ast.Name) and x.id == name]
                nxt = body[i + 1]
                head = nxt.items[0].context_expr if isinstance(nxt, (ast.With,)) and nxt.items else (nxt.value if isinstance(nxt, (ast.Return, ast.Expr, ast.Assign)) else None)
                if len(uses) == 1 and head is not None and any(x is uses[0] for x in ast.walk(head)) and not isinstance(st.value, (ast.Await,)):
                    # the temp is evaluated immediately before its single use: same order
                    first_names = [x for x in ast.walk(head) if isinstance(x, (ast.Call, ast.Name))]
                    class Sub(ast.NodeTransformer):
                        def visit_Name(self, nn):
                            return st.value if nn is uses[0] else nn
                    # only when the use is the first evaluated argument-free position: it is an
                    # argument of the head call, and the other sub-expressions are names
                    if isinstance(head, ast.Call) and all(isinstance(a, (ast.Name, ast.Constant)) or a is uses[0] for a in head.args) and isinstance(head.func, (ast.Attribute, ast.Name)):
                        body[i + 1] = Sub().visit(nxt)
                        self.used.add("R6:single-use temporary inlined (evaluation order unchanged)")
                        i += 1
                        continue
            out.append(st)
            i += 1
        for st in out:
            for fld in ("body", "orelse", "finalbody"):
                if hasattr(st, fld) and isinstance(getattr(st, fld), list) and not isinstance(st, (ast.FunctionDef,)):
                    setattr(st, fld, self.inline_temps(getattr(st, fld)))
        return out

    # R12: `if C: return E` immediately followed by `return E`
    def collapse_same_return(self, body):
        out = []
        i = 0
        while i < len(body):
            st = body[i]
            if isinstance(st, ast.If) and not st.orelse and len(st.body) == 1 and isinstance(st.body[0], ast.Return) and i + 1 < len(body) and isinstance(body[i + 1], ast.Return):
                if ast.dump(st.body[0]) == ast.dump(body[i + 1]) and pure_test(st.test):
                    self.used.add("R12:`if C: return E; return E`==`return E` (C pure)")
                    i += 1
                    continue
            out.append(st)
            i += 1
        return out


def pure_test(t):
    return all(isinstance(x, (ast.Name, ast.Attribute, ast.Call, ast.Constant, ast.Load, ast.Compare, ast.Is, ast.IsNot, ast.Not, ast.UnaryOp, ast.Tuple)) for x in ast.walk(t)) and all(
        ast.unparse(c.func) in ("isinstance", "hasattr", "callable") for c in ast.walk(t) if isinstance(c, ast.Call)
    )


class Prune(ast.NodeTransformer):
    """Preconditioned pruning: tests that are constant under a stated precondition."""

    def __init__(self, facts: dict[str, bool], used: set):
        self.facts = facts  # unparsed test -> truth value
        self.used = used

    def prune_body(self, body, required=True):
        out = []
        for st in body:
            if isinstance(st, ast.If):
                key = ast.unparse(st.test)
                if key in self.facts:
                    self.used.add(f"P:`{key}` is {self.facts[key]} under the stated precondition")
                    out.extend(self.prune_body(st.body if self.facts[key] else st.orelse))
                    continue
            if isinstance(st, ast.Assert):
                key = "assert " + ast.unparse(st.test)
                if key in self.facts and self.facts[key]:
                    self.used.add(f"P:`{key}` holds under the stated precondition")
                    continue
            for fld in ("body", "orelse", "finalbody"):
                if hasattr(st, fld) and isinstance(getattr(st, fld), list):
                    setattr(st, fld, self.prune_body(getattr(st, fld), required=(fld == "body")))
            if isinstance(st, ast.Try):
                for h in st.handlers:
                    h.body = self.prune_body(h.body)
            out.append(st)
        if len(out) > 1:
            out = [s_ for s_ in out if not isinstance(s_, ast.Pass)] or [ast.Pass()]
        if not out and required:
            return [ast.Pass()]
        return out


def reorder_exclusive(body, used):
    """if/elif chains over `X is None` / `isinstance(X, T)` tests on the same X are order
    independent (the tests are mutually exclusive): put them in canonical order."""
    for st in body:
        for fld in ("body", "orelse", "finalbody"):
            if hasattr(st, fld) and isinstance(getattr(st, fld), list):
                reorder_exclusive(getattr(st, fld), used)
    for idx, st in enumerate(body):
        if not isinstance(st, ast.If):
            continue
        arms = []
        cur = st
        while True:
            arms.append((cur.test, cur.body))
            if len(cur.orelse) == 1 and isinstance(cur.orelse[0], ast.If):
                cur = cur.orelse[0]
            else:
                tail = cur.orelse
                break
        if len(arms) < 2:
            continue

        def subject(t):
            if isinstance(t, ast.Compare) and len(t.ops) == 1 and isinstance(t.ops[0], ast.Is) and isinstance(t.comparators[0], ast.Constant) and t.comparators[0].value is None:
                return ast.unparse(t.left), "none"
            if isinstance(t, ast.Call) and ast.unparse(t.func) == "isinstance" and len(t.args) == 2:
                return ast.unparse(t.args[0]), "isinstance:" + ast.unparse(t.args[1])
            return None, None

        subs = [subject(t) for t, _b in arms]
        if any(s[0] is None for s in subs) or len({s[0] for s in subs}) != 1 or len({s[1] for s in subs}) != len(subs):
            continue
        order = sorted(range(len(arms)), key=lambda i: subs[i][1])
        if order != list(range(len(arms))):
            used.add("R10:order of mutually exclusive if/elif arms (X is None / isinstance(X,T)) is irrelevant")
        new = None
        for i in reversed(order):
            new = ast.If(test=arms[i][0], body=arms[i][1], orelse=[new] if new is not None else tail)
        body[idx] = new
    return body


def literal_evaluate(fn, used):
    """inside `if isinstance(E, StringLiteral):` the call E.evaluate(context) is E.value
    (lemma L-strlit, checked against StringLiteral.evaluate's source)"""

    class Sub(ast.NodeTransformer):
        def __init__(self, subj):
            self.subj = subj

        def visit_Call(self, n):
            self.generic_visit(n)
            if isinstance(n.func, ast.Attribute) and n.func.attr == "evaluate" and ast.unparse(n.func.value) == self.subj:
                used.add("L-strlit:StringLiteral.evaluate(ctx)==.value (Markup(v) equals v for == and int())")
                return ast.Attribute(value=n.func.value, attr="value", ctx=ast.Load())
            return n

    for node in ast.walk(fn):
        if isinstance(node, ast.If) and isinstance(node.test, ast.Call) and ast.unparse(node.test.func) == "isinstance" and len(node.test.args) == 2 and ast.unparse(node.test.args[1]) == "StringLiteral":
            subj = ast.unparse(node.test.args[0])
            node.body = [Sub(subj).visit(s) for s in node.body]
    return fn


def inline_local_helpers(fn, used):
    """nested single-return helpers (e.g. `_get_item`) are inlined at their call sites after
    pruning; only helpers whose body became a single `return E` are handled"""
    helpers = {}
    for st in list(fn.body):
        if isinstance(st, ast.FunctionDef) and len(st.body) == 1 and isinstance(st.body[0], ast.Return) and not st.args.kwonlyargs and not st.args.vararg:
            helpers[st.name] = st

    class Sub(ast.NodeTransformer):
        def visit_Call(self, n):
            self.generic_visit(n)
            if isinstance(n.func, ast.Name) and n.func.id in helpers and not n.keywords:
                h = helpers[n.func.id]
                params = [a.arg for a in h.args.args]
                if len(params) == len(n.args):
                    m = dict(zip(params, n.args))

                    class P(ast.NodeTransformer):
                        def visit_Name(self, nn):
                            return copy.deepcopy(m[nn.id]) if nn.id in m else nn

                    used.add(f"R9:local helper {h.name}() inlined")
                    return P().visit(copy.deepcopy(h.body[0].value))
            return n

    if helpers:
        fn.body = [st for st in fn.body if not (isinstance(st, ast.FunctionDef) and st.name in helpers)]
        fn = Sub().visit(fn)
    return fn


def delegation(sync_fn, async_fn):
    """the async default simply calls the sync method with the same arguments"""
    b = async_fn.body
    if len(b) == 1 and isinstance(b[0], ast.Return) and isinstance(b[0].value, ast.Call):
        c = b[0].value
        if isinstance(c.func, ast.Attribute) and ast.unparse(c.func.value) == "self" and c.func.attr == sync_fn.name:
            params = [a.arg for a in sync_fn.args.args[1:]] + [a.arg for a in sync_fn.args.kwonlyargs]
            passed = [ast.unparse(a) for a in c.args] + [ast.unparse(k.value) for k in c.keywords if k.arg]
            return sorted(passed) == sorted(params) or (sync_fn.args.kwarg is not None and set(params) <= set(passed) | {sync_fn.args.kwarg.arg})
    return False


def signatures():
    """method name -> ordered parameter names, for names whose repo definitions all agree"""
    sigs: dict[str, set] = {}
    for m in load.all_modules():
        mod = load.get_module(m)
        for cn in mod.classes.values():
            for st in cn.body:
                if isinstance(st, (ast.FunctionDef, ast.AsyncFunctionDef)):
                    params = tuple(a.arg for a in st.args.args[1:])
                    sigs.setdefault(ren(st.name), set()).add(params)
    return {k: list(next(iter(v))) for k, v in sigs.items() if len(v) == 1 and next(iter(v))}


def find_pairs():
    """[(module, qualprefix, sync FunctionDef, async FunctionDef)]"""
    pairs = []
    for m in load.all_modules():
        mod = load.get_module(m)

        def scan(body, qual):
            fns = {n.name: n for n in body if isinstance(n, (ast.FunctionDef, ast.AsyncFunctionDef))}
            for name, n in fns.items():
                if name.endswith("_async") and name[:-6] in fns:
                    pairs.append((m, qual, fns[name[:-6]], n))
            for n in body:
                if isinstance(n, ast.ClassDef):
                    scan(n.body, qual + n.name + ".")

        scan(mod.tree.body, "")
    return pairs


def strip_tail_continue(fn, used):
    """R14: a `continue` in tail position of a loop body is redundant (`except E: continue` as the
    last thing a loop body does == `except E: pass`)"""
    def tail(body):
        if not body:
            return body
        last = body[-1]
        if isinstance(last, ast.Continue):
            used.add("R14:tail-continue")
            return body[:-1] or [ast.Pass()]
        if isinstance(last, ast.If):
            last.body = tail(last.body)
            last.orelse = tail(last.orelse) if last.orelse else last.orelse
        elif isinstance(last, ast.Try) and not last.finalbody:
            if not last.orelse:
                last.body = tail(last.body)
            else:
                last.orelse = tail(last.orelse)
            for h in last.handlers:
                h.body = tail(h.body)
        elif isinstance(last, (ast.With, ast.AsyncWith)):
            last.body = tail(last.body)
        return body

    for n in ast.walk(fn):
        if isinstance(n, (ast.For, ast.AsyncFor, ast.While)):
            n.body = tail(n.body)
    return fn


def _map_bodies(fn, f):
    """apply f(list_of_statements) -> list to every statement list of fn, innermost first"""
    for n in ast.walk(fn):
        for fld in ("body", "orelse", "finalbody"):
            v = getattr(n, fld, None)
            if isinstance(v, list) and v and isinstance(v[0], ast.stmt):
                setattr(n, fld, f(v))
        if isinstance(n, ast.Try):
            for h in n.handlers:
                h.body = f(h.body)
    return fn


def ifs_to_ifexp(fn, used):
    """R17: `if c: x = a else: x = b` == `x = a if c else b`; same for `return` and for a call
    `o.append(...)` in both arms (each arm a single statement, evaluation order unchanged)"""
    def rw(body):
        out = []
        for st in body:
            if isinstance(st, ast.If) and len(st.body) == 1 and len(st.orelse) == 1:
                a, b = st.body[0], st.orelse[0]
                if isinstance(a, ast.Assign) and isinstance(b, ast.Assign) and len(a.targets) == 1 and len(b.targets) == 1 and isinstance(a.targets[0], ast.Name) and ast.dump(a.targets[0]) == ast.dump(b.targets[0]):
                    out.append(ast.Assign(targets=a.targets, value=ast.IfExp(test=st.test, body=a.value, orelse=b.value), lineno=st.lineno))
                    used.add("R17:if-statement==conditional-expression")
                    continue
                if isinstance(a, ast.Return) and isinstance(b, ast.Return) and a.value is not None and b.value is not None:
                    out.append(ast.Return(value=ast.IfExp(test=st.test, body=a.value, orelse=b.value)))
                    used.add("R17:if-statement==conditional-expression")
                    continue
                if (isinstance(a, ast.Expr) and isinstance(b, ast.Expr) and isinstance(a.value, ast.Call) and isinstance(b.value, ast.Call) and isinstance(a.value.func, ast.Attribute)
                        and a.value.func.attr == "append" and ast.dump(a.value.func) == ast.dump(b.value.func) and len(a.value.args) == 1 and len(b.value.args) == 1 and isinstance(a.value.func.value, ast.Name)):
                    out.append(ast.Expr(value=ast.Call(func=a.value.func, args=[ast.IfExp(test=st.test, body=a.value.args[0], orelse=b.value.args[0])], keywords=[])))
                    used.add("R17:if-statement==conditional-expression")
                    continue
            out.append(st)
        return out
    return _map_bodies(fn, rw)


def loops_to_comprehensions(fn, used):
    """R16: `xs = []` immediately followed by `for t in it: xs.append(e)` (optionally under one
    `if c:`) is `xs = [e for t in it (if c)]` -- same items, same evaluation order"""
    def rw(body):
        out = []
        i = 0
        while i < len(body):
            st = body[i]
            nxt = body[i + 1] if i + 1 < len(body) else None
            if (isinstance(st, ast.Assign) and len(st.targets) == 1 and isinstance(st.targets[0], ast.Name) and isinstance(st.value, ast.List) and not st.value.elts
                    and isinstance(nxt, ast.For) and not nxt.orelse and len(nxt.body) == 1):
                name = st.targets[0].id
                inner = nxt.body[0]
                conds = []
                if isinstance(inner, ast.If) and not inner.orelse and len(inner.body) == 1:
                    conds = [inner.test]
                    inner = inner.body[0]
                if (isinstance(inner, ast.Expr) and isinstance(inner.value, ast.Call) and isinstance(inner.value.func, ast.Attribute) and inner.value.func.attr == "append"
                        and isinstance(inner.value.func.value, ast.Name) and inner.value.func.value.id == name and len(inner.value.args) == 1
                        and not any(isinstance(x, ast.Name) and x.id == name for x in ast.walk(inner.value.args[0])) and not any(isinstance(x, ast.Name) and x.id == name for c_ in conds for x in ast.walk(c_))):
                    comp = ast.ListComp(elt=inner.value.args[0], generators=[ast.comprehension(target=nxt.target, iter=nxt.iter, ifs=conds, is_async=0)])
                    out.append(ast.Assign(targets=st.targets, value=comp, lineno=st.lineno))
                    used.add("R16:append-loop==list-comprehension")
                    i += 2
                    continue
            out.append(st)
            i += 1
        return out
    return _map_bodies(fn, rw)


_NEG_CMP = {ast.Eq: ast.NotEq, ast.NotEq: ast.Eq, ast.Is: ast.IsNot, ast.IsNot: ast.Is, ast.In: ast.NotIn, ast.NotIn: ast.In,
            ast.Lt: ast.GtE, ast.GtE: ast.Lt, ast.Gt: ast.LtE, ast.LtE: ast.Gt}


def negate(t, used):
    """the negation of a test in negation normal form (R19: De Morgan, double negation, complement
    of a single comparison; `<`/`>=` and `>`/`<=` are complements for totally ordered operands --
    no NaN -- which is assumed and named among the rules used)"""
    if isinstance(t, ast.UnaryOp) and isinstance(t.op, ast.Not):
        return nnf(t.operand, used)
    if isinstance(t, ast.BoolOp):
        op = ast.Or() if isinstance(t.op, ast.And) else ast.And()
        return ast.BoolOp(op=op, values=[negate(v, used) for v in t.values])
    if isinstance(t, ast.Compare) and len(t.ops) == 1 and type(t.ops[0]) in _NEG_CMP:
        if isinstance(t.ops[0], (ast.Lt, ast.GtE, ast.Gt, ast.LtE)):
            used.add("R19:complement-of-an-ordering-comparison(total-order-assumed)")
        return ast.Compare(left=t.left, ops=[_NEG_CMP[type(t.ops[0])]()], comparators=t.comparators)
    return ast.UnaryOp(op=ast.Not(), operand=nnf(t, used))


def nnf(t, used):
    if isinstance(t, ast.UnaryOp) and isinstance(t.op, ast.Not):
        inner = t.operand
        if isinstance(inner, (ast.UnaryOp, ast.BoolOp)) or (isinstance(inner, ast.Compare) and len(inner.ops) == 1 and type(inner.ops[0]) in _NEG_CMP):
            used.add("R19:negation-normal-form")
            return negate(inner, used)
        return t
    if isinstance(t, ast.BoolOp):
        return ast.BoolOp(op=t.op, values=[nnf(v, used) for v in t.values])
    return t


def _exits(body):
    """every path through the statement list leaves the enclosing block (return/raise/continue/break)"""
    if not body:
        return False
    last = body[-1]
    if isinstance(last, (ast.Return, ast.Raise, ast.Continue, ast.Break)):
        return True
    if isinstance(last, ast.If):
        return bool(last.orelse) and _exits(last.body) and _exits(last.orelse)
    if isinstance(last, ast.Try) and not last.finalbody:
        main = _exits(last.orelse) if last.orelse else _exits(last.body)
        return main and all(_exits(h.body) for h in last.handlers)
    return False


def structure_ifs(fn, used):
    """R20 (guard clauses and nesting): tests in negation normal form; `if A: if B: S` == `if A and
    B: S`; `if t: <exits>` followed by S == `if t: <exits> else: S`; a branch that is only `pass`
    is dropped (negating the test); the complement orientation of a two-armed `if` is canonical
    (ordering tests are printed with `<` / `<=`, equality with `==`, membership with `in`)."""
    def rw(body):
        out = []
        i = 0
        body = list(body)
        while i < len(body):
            st = body[i]
            if isinstance(st, ast.If):
                st.test = nnf(st.test, used)
                # R21 tail sinking: `if t: A else: B` followed by a short tail S == `if t: A; S else: B; S`
                rest = body[i + 1:]
                if st.orelse and rest and len(rest) <= 3 and not any(isinstance(x, (ast.FunctionDef, ast.AsyncFunctionDef, ast.ClassDef)) for x in rest):
                    if not _exits(st.body):
                        st.body = st.body + copy.deepcopy(rest)
                    if not _exits(st.orelse):
                        st.orelse = st.orelse + copy.deepcopy(rest)
                    used.add("R21:common-tail-sunk-into-both-arms")
                    st.body, st.orelse = rw(st.body), rw(st.orelse)
                    out.append(st)
                    i = len(body)
                    continue
                # else-ification
                if not st.orelse and _exits(st.body) and i + 1 < len(body):
                    st.orelse = rw(body[i + 1:])
                    used.add("R20:guard-clause==if/else")
                    out.append(st)
                    i = len(body)
                    continue
            out.append(st)
            i += 1
        res = []
        for st in out:
            if isinstance(st, ast.If):
                # pass-only arms
                def only_pass(b):
                    return bool(b) and all(isinstance(x, ast.Pass) for x in b)
                if only_pass(st.body) and st.orelse and not only_pass(st.orelse):
                    st.test, st.body, st.orelse = negate(st.test, used), st.orelse, []
                    used.add("R20:pass-arm-dropped")
                elif only_pass(st.orelse):
                    st.orelse = []
                # nested single if without else
                while len(st.body) == 1 and isinstance(st.body[0], ast.If) and not st.orelse and not st.body[0].orelse:
                    inner = st.body[0]
                    st.test = ast.BoolOp(op=ast.And(), values=[st.test, nnf(inner.test, used)])
                    st.body = inner.body
                    used.add("R20:nested-if==and")
                # canonical orientation of a two-armed if
                if st.orelse and not (len(st.orelse) == 1 and isinstance(st.orelse[0], ast.If)):
                    t = st.test
                    flip = (isinstance(t, ast.UnaryOp) and isinstance(t.op, ast.Not)) or \
                           (isinstance(t, ast.Compare) and len(t.ops) == 1 and isinstance(t.ops[0], (ast.NotEq, ast.NotIn, ast.GtE, ast.Gt, ast.Is)) and
                            not (isinstance(t.ops[0], ast.Is) and not (isinstance(t.comparators[0], ast.Constant) and t.comparators[0].value is None)))
                    if flip:
                        st.test, st.body, st.orelse = negate(t, used), st.orelse, st.body
                        used.add("R15:branch-order")
            res.append(st)
        return res

    for _ in range(3):
        fn = _map_bodies(fn, rw)
    return fn


def loops_to_sum(fn, used):
    """R18: `x = 0` immediately followed by `for t in it: x = x + e` (or `x += e`) is
    `x = sum([e for t in it])` -- the items are evaluated in the same order"""
    def rw(body):
        out = []
        i = 0
        while i < len(body):
            st = body[i]
            nxt = body[i + 1] if i + 1 < len(body) else None
            if (isinstance(st, ast.Assign) and len(st.targets) == 1 and isinstance(st.targets[0], ast.Name) and isinstance(st.value, ast.Constant) and st.value.value == 0 and type(st.value.value) is int
                    and isinstance(nxt, ast.For) and not nxt.orelse and len(nxt.body) == 1):
                name = st.targets[0].id
                inner = nxt.body[0]
                e = None
                if isinstance(inner, ast.AugAssign) and isinstance(inner.op, ast.Add) and isinstance(inner.target, ast.Name) and inner.target.id == name:
                    e = inner.value
                elif (isinstance(inner, ast.Assign) and len(inner.targets) == 1 and isinstance(inner.targets[0], ast.Name) and inner.targets[0].id == name and isinstance(inner.value, ast.BinOp)
                      and isinstance(inner.value.op, ast.Add) and isinstance(inner.value.left, ast.Name) and inner.value.left.id == name):
                    e = inner.value.right
                if e is not None and not any(isinstance(x, ast.Name) and x.id == name for x in ast.walk(e)):
                    comp = ast.ListComp(elt=e, generators=[ast.comprehension(target=nxt.target, iter=nxt.iter, ifs=[], is_async=0)])
                    out.append(ast.Assign(targets=st.targets, value=ast.Call(func=ast.Name(id="sum", ctx=ast.Load()), args=[comp], keywords=[]), lineno=st.lineno))
                    used.add("R18:accumulation-loop==sum(list)")
                    i += 2
                    continue
            out.append(st)
            i += 1
        return out
    return _map_bodies(fn, rw)


def inline_returned_temp(fn, used):
    """R6b: `x = E` immediately followed by `return x` is `return E`"""
    def rw(body):
        out = []
        i = 0
        while i < len(body):
            st = body[i]
            nxt = body[i + 1] if i + 1 < len(body) else None
            if (isinstance(st, ast.Assign) and len(st.targets) == 1 and isinstance(st.targets[0], ast.Name) and isinstance(nxt, ast.Return)
                    and isinstance(nxt.value, ast.Name) and nxt.value.id == st.targets[0].id):
                out.append(ast.Return(value=st.value))
                used.add("R6:single-use temporary inlined (evaluation order unchanged)")
                i += 2
                continue
            out.append(st)
            i += 1
        return out
    return _map_bodies(fn, rw)


class _SumGen(ast.NodeTransformer):
    """sum(<generator>) == sum([<list comprehension>]) (consumed at once)"""
    def visit_Call(self, n):
        self.generic_visit(n)
        if isinstance(n.func, ast.Name) and n.func.id in ("sum", "any", "all", "list", "tuple") and len(n.args) == 1 and isinstance(n.args[0], ast.GeneratorExp) and n.func.id == "sum":
            n.args = [ast.ListComp(elt=n.args[0].elt, generators=n.args[0].generators)]
        return n


def canonical_branches(fn, used):
    """R15: `if not c: A else: B` == `if c: B else: A`; `if x is None: A else: B` ==
    `if x is not None: B else: A` (both arms present, no elif chain on the swapped arm)"""
    class Canon(ast.NodeTransformer):
        def visit_If(self, n):
            self.generic_visit(n)
            if not n.orelse or (len(n.orelse) == 1 and isinstance(n.orelse[0], ast.If)):
                return n
            t = n.test
            if isinstance(t, ast.UnaryOp) and isinstance(t.op, ast.Not):
                n.test, n.body, n.orelse = t.operand, n.orelse, n.body
                used.add("R15:branch-order")
            elif isinstance(t, ast.Compare) and len(t.ops) == 1 and isinstance(t.ops[0], ast.Is) and isinstance(t.comparators[0], ast.Constant) and t.comparators[0].value is None:
                n.test = ast.Compare(left=t.left, ops=[ast.IsNot()], comparators=t.comparators)
                n.body, n.orelse = n.orelse, n.body
                used.add("R15:branch-order")
            return n
    return Canon().visit(fn)


def alpha_rename(fn, used):
    """R13: local variables are renamed canonically in order of first binding (parameters, names
    declared global/nonlocal and names of nested functions keep their names)"""
    params = {a.arg for a in fn.args.posonlyargs + fn.args.args + fn.args.kwonlyargs}
    if fn.args.vararg:
        params.add(fn.args.vararg.arg)
    if fn.args.kwarg:
        params.add(fn.args.kwarg.arg)
    keep = set(params)
    for n in ast.walk(fn):
        if isinstance(n, (ast.Global, ast.Nonlocal)):
            keep.update(n.names)
        if isinstance(n, (ast.FunctionDef, ast.AsyncFunctionDef, ast.ClassDef)) and n is not fn:
            keep.add(n.name)
            # parameters of nested functions keep their names too (keyword arguments at call sites)
            keep.update(a.arg for a in n.args.posonlyargs + n.args.args + n.args.kwonlyargs) if not isinstance(n, ast.ClassDef) else None
    order = []
    bound = []
    for n in ast.walk(fn):
        if isinstance(n, ast.Name) and isinstance(n.ctx, (ast.Store, ast.Del)) and n.id not in keep:
            bound.append((n.lineno, n.col_offset, n.id))
        elif isinstance(n, ast.ExceptHandler) and n.name and n.name not in keep:
            bound.append((n.lineno, n.col_offset, n.name))
    for _l, _c, name in sorted(bound):
        if name not in order:
            order.append(name)
    if not order:
        return fn
    mapping = {name: f"_v{i}" for i, name in enumerate(order)}

    class Ren(ast.NodeTransformer):
        def visit_Name(self, n):
            if n.id in mapping:
                n.id = mapping[n.id]
            return n

        def visit_ExceptHandler(self, n):
            self.generic_visit(n)
            if n.name in mapping:
                n.name = mapping[n.name]
            return n
    used.add("R13:alpha-renaming-of-locals")
    return Ren().visit(fn)


def compare(sync_fn, async_fn, facts_sync=None, facts_async=None, sigs=None):
    """-> (equal: bool, tier: str, rules used, diff lines)"""
    a, b = erase(sync_fn), erase(async_fn)
    if ast.dump(a) == ast.dump(b):
        return True, "tier1:await-erasure congruence", [], []
    if delegation(a, b):
        return True, "tier2:async default delegates to the sync method", ["R1:delegation"], []
    used: set = set()
    is_gen = any(isinstance(x, (ast.Yield, ast.YieldFrom)) for x in ast.walk(sync_fn)) and not any(isinstance(x, (ast.Yield, ast.YieldFrom)) for x in ast.walk(async_fn))
    out = []
    for fn, facts in ((a, facts_sync or {}), (b, facts_async or {})):
        fn.decorator_list = [d for d in fn.decorator_list if ast.unparse(d) != "abstractmethod"]
        p = Prune(facts, used)
        fn.body = p.prune_body(fn.body)
        for sub in ast.walk(fn):
            if isinstance(sub, ast.FunctionDef) and sub is not fn:
                sub.body = p.prune_body(sub.body)
        fn = inline_local_helpers(fn, used)
        r = Rules(is_generator_pair=is_gen, signatures=sigs or {})
        fn = r.visit(fn)
        fn.body = r.collapse_same_return(fn.body)
        used |= r.used
        fn.body = reorder_exclusive(fn.body, used)
        fn = literal_evaluate(fn, used)
        out.append(ast.fix_missing_locations(fn))
    a, b = out
    sa, sb = ast.unparse(a), ast.unparse(b)
    if ast.dump(a) == ast.dump(b) or sa == sb:
        return True, "tier2:congruence modulo rewrite rules", sorted(used), []
    # last resort: the same comparison after canonical renaming of locals and removal of
    # redundant tail `continue`s (both behaviour-preserving)
    used2: set = set()
    def last_resort(fn):
        fn = copy.deepcopy(fn)
        fn = ifs_to_ifexp(fn, used2)   # before any tail is sunk into the arms of such an `if`
        for _ in range(2):
            fn = strip_tail_continue(structure_ifs(fn, used2), used2)
        fn = structure_ifs(fn, used2)
        fn = loops_to_sum(_SumGen().visit(fn), used2)
        fn = loops_to_comprehensions(ifs_to_ifexp(fn, used2), used2)
        fn = inline_returned_temp(fn, used2)
        r2 = Rules(is_generator_pair=False, signatures=sigs or {})
        for sub in ast.walk(fn):
            if isinstance(sub, ast.FunctionDef):
                sub.body = r2.inline_temps(sub.body)
        used2.update(r2.used)
        fn = alpha_rename(canonical_branches(strip_tail_continue(fn, used2), used2), used2)
        return ast.fix_missing_locations(fn)
    a2, b2 = last_resort(a), last_resort(b)
    if ast.unparse(a2) == ast.unparse(b2):
        return True, "tier2:congruence modulo rewrite rules", sorted(used | used2), []
    sa, sb = ast.unparse(a2), ast.unparse(b2)
    diff = [l for l in difflib.unified_diff(sa.splitlines(), sb.splitlines(), "sync", "async(erased)", lineterm="", n=1)]
    return False, "differs", sorted(used), diff
