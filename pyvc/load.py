"""Locate functions and classes in /repo's *current working tree* by parsing source.

Nothing here imports repository code.  Everything is re-read on every run.
"""
from __future__ import annotations

import ast
import hashlib
import os
from functools import lru_cache
from typing import Optional

REPO = os.environ.get("VERIF_REPO", "/repo")


class TargetMissing(Exception):
    """A function/class named by a contract is not in the tree (exit 3)."""


def module_path(module: str) -> str:
    base = os.path.join(REPO, *module.split("."))
    if os.path.isdir(base):
        return os.path.join(base, "__init__.py")
    return base + ".py"


_MOD_CACHE: dict[str, "Module"] = {}


class Module:
    def __init__(self, name: str):
        self.name = name
        self.path = module_path(name)
        if not os.path.exists(self.path):
            raise TargetMissing(f"module {name} ({self.path}) not found")
        with open(self.path, encoding="utf-8") as fd:
            self.source = fd.read()
        self.tree = ast.parse(self.source, filename=self.path)
        self.imports: dict[str, tuple[str, Optional[str]]] = {}
        self.consts: dict[str, ast.expr] = {}
        self.funcs: dict[str, ast.AST] = {}
        self.classes: dict[str, ast.ClassDef] = {}
        self._scan()

    def _resolve_rel(self, level: int, mod: Optional[str]) -> str:
        if level == 0:
            return mod or ""
        parts = self.name.split(".")
        is_pkg = self.path.endswith("__init__.py")
        base = parts if is_pkg else parts[:-1]
        if level > 1:
            base = base[: len(base) - (level - 1)]
        return ".".join(base + ([mod] if mod else []))

    def _scan_body(self, body):
        for node in body:
            if isinstance(node, ast.Import):
                for a in node.names:
                    if a.asname:
                        self.imports[a.asname] = (a.name, None)
                    else:
                        # `import a.b` binds the name `a` to package a
                        self.imports[a.name.split(".")[0]] = (a.name.split(".")[0], None)
            elif isinstance(node, ast.ImportFrom):
                m = self._resolve_rel(node.level, node.module)
                for a in node.names:
                    self.imports[a.asname or a.name] = (m, a.name)
            elif isinstance(node, (ast.FunctionDef, ast.AsyncFunctionDef)):
                # later definitions win, like at run time (e.g. @overload stubs)
                self.funcs[node.name] = node
            elif isinstance(node, ast.ClassDef):
                self.classes[node.name] = node
            elif isinstance(node, ast.Assign):
                for t in node.targets:
                    if isinstance(t, ast.Name):
                        self.consts[t.id] = node.value
            elif isinstance(node, ast.AnnAssign) and node.value is not None:
                if isinstance(node.target, ast.Name):
                    self.consts[node.target.id] = node.value
            elif isinstance(node, ast.If):
                # `if TYPE_CHECKING:` imports have no run-time meaning, but names are
                # useful for resolution of annotations; scan both arms.
                self._scan_body(node.body)
                self._scan_body(node.orelse)
            elif isinstance(node, ast.Try):
                self._scan_body(node.body)

    def _scan(self):
        self._scan_body(self.tree.body)


def get_module(name: str) -> Module:
    m = _MOD_CACHE.get(name)
    if m is None:
        m = Module(name)
        _MOD_CACHE[name] = m
    return m


def clear_cache():
    _MOD_CACHE.clear()


def _last_def(body, name):
    found = None
    for node in body:
        if isinstance(node, (ast.FunctionDef, ast.AsyncFunctionDef, ast.ClassDef)):
            if node.name == name:
                found = node
    return found


def find(target: str):
    """`module:qual.name` -> (Module, ast node, enclosing ClassDef or None)."""
    module, _, qual = target.partition(":")
    mod = get_module(module)
    node: ast.AST = mod.tree
    cls = None
    parts = qual.split(".")
    for i, part in enumerate(parts):
        body = getattr(node, "body", [])
        nxt = _last_def(body, part)
        if nxt is None:
            # search nested inside if/try at this level
            for sub in ast.walk(node):
                if (
                    isinstance(sub, (ast.FunctionDef, ast.AsyncFunctionDef, ast.ClassDef))
                    and sub.name == part
                    and sub is not node
                ):
                    nxt = sub
            if nxt is None:
                raise TargetMissing(f"{target}: '{part}' not found")
        if isinstance(nxt, ast.ClassDef) and i < len(parts) - 1:
            cls = nxt
        node = nxt
    return mod, node, cls


def source_hash(node: ast.AST) -> str:
    return hashlib.sha256(ast.dump(node).encode()).hexdigest()[:16]


def func_info(target: str) -> dict:
    mod, node, _ = find(target)
    return {
        "target": target,
        "file": os.path.relpath(mod.path, REPO),
        "line": getattr(node, "lineno", 0),
        "ast_sha": source_hash(node),
    }


# ---------------------------------------------------------------- class graph


def resolve_name(mod: Module, name: str) -> Optional[tuple[str, str]]:
    """Resolve a bare name used in `mod` to (module, name) of a repo definition."""
    seen = set()
    cur_mod, cur_name = mod, name
    for _ in range(10):
        if (cur_mod.name, cur_name) in seen:
            return None
        seen.add((cur_mod.name, cur_name))
        if cur_name in cur_mod.classes or cur_name in cur_mod.funcs or cur_name in cur_mod.consts:
            return cur_mod.name, cur_name
        imp = cur_mod.imports.get(cur_name)
        if imp is None:
            return None
        m, n = imp
        if not m.startswith("liquid"):
            return (m, n or "")
        if n is None:
            return (m, "")
        try:
            # `from .x import y` where y is a submodule
            cur_mod = get_module(m)
        except TargetMissing:
            return None
        if n not in cur_mod.classes and n not in cur_mod.funcs and n not in cur_mod.consts and n not in cur_mod.imports:
            try:
                get_module(m + "." + n)
                return (m + "." + n, "")
            except TargetMissing:
                return None
        cur_name = n
    return None


def class_bases(module: str, cls: str) -> list[tuple[str, str]]:
    mod = get_module(module)
    node = mod.classes[cls]
    out = []
    for b in node.bases:
        if isinstance(b, ast.Subscript):
            b = b.value
        if isinstance(b, ast.Name):
            r = resolve_name(mod, b.id)
            if r:
                out.append(r)
            else:
                out.append(("builtins", b.id))
        elif isinstance(b, ast.Attribute):
            out.append(("?", ast.unparse(b)))
    return out


def mro(module: str, cls: str) -> list[tuple[str, str]]:
    """Linearisation good enough for single inheritance + mixins (left-to-right DFS,
    duplicates keep their last position, as C3 does for the repo's hierarchies)."""
    order: list[tuple[str, str]] = []

    def visit(m, c):
        order.append((m, c))
        if m.startswith("liquid"):
            try:
                mod = get_module(m)
            except TargetMissing:
                return
            if c in mod.classes:
                for bm, bc in class_bases(m, c):
                    visit(bm, bc)

    visit(module, cls)
    # keep last occurrence
    out = []
    for i, x in enumerate(order):
        if x not in order[i + 1 :]:
            out.append(x)
    return out


def find_method(module: str, cls: str, name: str):
    """Resolve a method through the MRO; returns (module, class, node) or None."""
    for m, c in mro(module, cls):
        if not m.startswith("liquid"):
            continue
        mod = get_module(m)
        cnode = mod.classes.get(c)
        if cnode is None:
            continue
        found = _last_def(cnode.body, name)
        if found is not None and not isinstance(found, ast.ClassDef):
            return m, c, found
    return None


def all_modules() -> list[str]:
    out = []
    root = os.path.join(REPO, "liquid")
    for dirpath, _dirs, files in os.walk(root):
        for f in files:
            if f.endswith(".py"):
                rel = os.path.relpath(os.path.join(dirpath, f), REPO)[:-3]
                name = rel.replace(os.sep, ".")
                if name.endswith(".__init__"):
                    name = name[: -len(".__init__")]
                out.append(name)
    return sorted(out)


def exception_hierarchy() -> dict[str, list[str]]:
    """class name -> list of ancestors (names), for repo + builtin exceptions."""
    h: dict[str, list[str]] = {}
    import builtins

    for n in dir(builtins):
        o = getattr(builtins, n)
        if isinstance(o, type) and issubclass(o, BaseException):
            h[n] = [c.__name__ for c in o.__mro__[1:] if c is not object]
    # a few library exceptions
    h["InvalidOperation"] = ["DecimalException", "ArithmeticError", "Exception", "BaseException"]
    h["DivisionByZero"] = ["DecimalException", "ZeroDivisionError", "ArithmeticError", "Exception", "BaseException"]
    h["ParserError"] = ["ValueError", "Exception", "BaseException"]
    h["JSONDecodeError"] = ["ValueError", "Exception", "BaseException"]
    h["binascii.Error"] = ["ValueError", "Exception", "BaseException"]
    for modname in ("liquid.exceptions",):
        mod = get_module(modname)
        changed = True
        while changed:
            changed = False
            for cname, cnode in mod.classes.items():
                if cname in h:
                    continue
                bases = [b.id for b in cnode.bases if isinstance(b, ast.Name)]
                if all(b in h for b in bases) and bases:
                    anc: list[str] = []
                    for b in bases:
                        for a in [b] + h[b]:
                            if a not in anc:
                                anc.append(a)
                    h[cname] = anc
                    changed = True
    return h
