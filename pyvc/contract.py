"""Sidecar contract language (DESIGN 2.4) and per-contract verification."""
from __future__ import annotations

import ast
import os
import time
import traceback
from typing import Any, Callable, Optional

import z3

from . import load
from .engine import Engine
from .exec import LoopSpec, Obligation
from .state import *  # noqa: F403
from .u import *  # noqa: F403

REGISTRY: dict[str, list["ContractDef"]] = {}


class ContractDef:
    def __init__(self, target, prop, fn, name=None):
        self.target = target
        self.prop = prop
        self.fn = fn
        self.name = name or target.split(":")[1]

    @property
    def ident(self):
        return f"{self.prop}/{self.target}" + (f"[{self.name}]" if self.name != self.target.split(":")[1] else "")


def contract(target: str, prop: str, name: Optional[str] = None):
    def deco(fn):
        REGISTRY.setdefault(prop, []).append(ContractDef(target, prop, fn, name))
        return fn

    return deco


class Result:
    """what a postcondition sees"""

    def __init__(self, st: State, value=None, exc: Optional[VExc] = None, engine=None):
        self.st = st
        self.value = value
        self.exc = exc
        self.engine = engine

    @property
    def t(self):
        return self.value.t

    def field(self, ref: VRef, name: str) -> Val:
        return self.st.deref(ref).fields[name]

    def heap(self, ref: VRef):
        return self.st.deref(ref)

    def truth(self, v=None):
        return self.engine.truth(self.st, self.value if v is None else v)


class Contract:
    def __init__(self, cdef: ContractDef):
        self.cdef = cdef
        self.target = cdef.target
        self.prop = cdef.prop
        self.st = State()
        self.inputs: dict[str, Any] = {}  # name -> z3 term (for model extraction)
        self.args: list = []
        self.kwargs: dict = {}
        self.self_val = None
        self.pre: list = []
        self.posts: list[tuple[str, Callable]] = []
        self.exc_posts: list[tuple[str, Callable]] = []
        self.allowed_raises: Optional[set] = None
        self.covers: list[tuple[str, Callable]] = []
        self.axioms: list[tuple[Any, str]] = []
        self.assumptions: list[str] = []
        self.loops: dict[tuple[str, int], LoopSpec] = {}
        self.summaries: dict[str, Callable] = {}
        self.overrides: dict[tuple[str, str], Val] = {}
        self.replay_schema: Optional[str] = None
        self.replay_extra: dict = {}
        self.opaque_str_classes: set = set()
        self.ok_decorators: set = set()
        self.entry: Optional[Callable] = None  # custom driver instead of a single call
        self.expect_loops: Optional[int] = None
        self.notes: list[str] = []
        self.crosscheck_spec: Optional[dict] = None
        self.pools: dict[str, list] = {}  # cross-check sample pools per input name
        self.int_str_limit = cdef.prop == 'C02'  # model CPython's int -> str digit limit (ValueError) in str()/repr()/f-strings

    def model_int_str_limit(self):
        """str(n) / repr(n) / f'{n}' of an int of more than sys.get_int_max_str_digits() digits raises
        ValueError.  The limit is a symbolic constant INT_STR_LIMIT >= 2**64 (CPython: 10**4300), so a
        proof holds for the real limit; lengths and positions are bounded by sys.maxsize < INT_STR_LIMIT."""
        self.int_str_limit = True
        self.assumptions.append("int -> str conversion raises ValueError for |n| >= INT_STR_LIMIT (symbolic, >= 2**64; CPython: 10**4300)")

    # ---- symbolic inputs
    def int(self, name):
        t = z3.Int(name)
        self.inputs[name] = t
        return VInt(t)

    def bool(self, name):
        t = z3.Bool(name)
        self.inputs[name] = t
        return VBool(t)

    def str(self, name):
        t = z3.String(name)
        self.inputs[name] = t
        return VStr(t)

    def any(self, name):
        t = z3.Const(name, U)
        self.inputs[name] = t
        return VU(t)

    def flt(self, name):
        t = z3.Const(name, Flt)
        return VFlt(t)

    def seq(self, name):
        t = z3.Const(name, SeqU)
        self.inputs[name] = t
        return t

    def list(self, name):
        """a fresh mutable list with symbolic contents"""
        return self.st.alloc(HList(seq=self.seq(name)))

    def iterator(self, name, seq=None):
        seq = seq if seq is not None else self.seq(name)
        return self.st.alloc(HIter(seq, z3.IntVal(0)))

    def obj(self, cls: str, _name="", _sorts=None, **fields) -> VRef:
        module, _, cname = cls.partition(":")
        h = HObj((module, cname), dict(fields), dict(_sorts or {}), _name or cname)
        return self.st.alloc(h)

    def dict(self, name=None, **items):
        if name is None:
            return self.st.alloc(HDict(items=dict(items)))
        pres = z3.Const(name + "_present", z3.ArraySort(U, B))
        vals = z3.Const(name + "_val", z3.ArraySort(U, U))
        return self.st.alloc(HDict(items={}, present=pres, val=vals))

    def odict(self, name):
        h = HODict(
            z3.Const(name + "_present", z3.ArraySort(U, B)),
            z3.Const(name + "_val", z3.ArraySort(U, U)),
            z3.Const(name + "_rank", z3.ArraySort(U, I)),
            z3.Int(name + "_n"),
            z3.Int(name + "_next"),
        )
        return self.st.alloc(h)

    # ---- call shape
    def call(self, *args, self_val=None, **kwargs):
        self.args = list(args)
        self.kwargs = kwargs
        self.self_val = self_val

    # ---- clauses
    def requires(self, cond, label="pre"):
        self.pre.append((label, cond))
        self.st.assume(cond)

    def ensures(self, label, fn):
        self.posts.append((label, fn))

    def ensures_exc(self, label, fn):
        """postcondition on raising outcomes: fn(Result) where Result.exc is set"""
        self.exc_posts.append((label, fn))

    def raises(self, *classes):
        """the complete set of exception classes (subclasses included) that may escape"""
        self.allowed_raises = set(classes)

    def cover(self, label, fn):
        self.covers.append((label, fn))

    def invariant(self, loop: int, inv, variant=None, havoc_heap=(), func: Optional[str] = None, elem=None):
        self.loops[(func or self.target, loop)] = LoopSpec(inv, variant, havoc_heap, elem=elem)

    def bounded_loop(self, loop: int, k: int, func: Optional[str] = None):
        self.loops[(func or self.target, loop)] = LoopSpec(bounded=k)

    def assume_external(self, formula, why: str):
        self.axioms.append((formula, why))
        self.assumptions.append(why)

    def assume_note(self, why: str):
        self.assumptions.append(why)

    def summary(self, target: str, fn):
        """replace calls to `target` by `fn(engine, st, args, kwargs)` (callee contract)"""
        self.summaries[target] = fn

    def override_global(self, module, name, val: Val):
        self.overrides[(module, name)] = val

    def crosscheck(self, **spec):
        """compare the engine's path summaries with CPython on sampled concrete inputs
        (pyvc/crosscheck.py); spec: func=, pools={input: [values]}, n=, self_code="""
        self.crosscheck_spec = spec

    def replay(self, schema: str, **extra):
        self.replay_schema = schema
        self.replay_extra = extra

    # ---- engine callbacks
    def loop_spec_for(self, node):
        lid = getattr(node, "_loop_id", None)
        if lid is None:
            return None
        return self.loops.get(lid)

    def summary_for(self, full):
        return self.summaries.get(full)

    def global_override(self, module, name):
        return self.overrides.get((module, name))

    def decorator_ok(self, full, deco):
        return deco in self.ok_decorators or deco.split("(")[0] in self.ok_decorators

    def open_fields(self, h, name):
        return False

    def opaque_str(self, h):
        return h.cls[1] in self.opaque_str_classes


# ----------------------------------------------------------------------------


def model_py(model, term):
    """z3 model value -> JSON-able python value"""
    try:
        v = model.eval(term, model_completion=True)
    except z3.Z3Exception:
        return None
    return term_py(v)


def term_py(v):
    if z3.is_int_value(v):
        return v.as_long()
    if z3.is_true(v):
        return True
    if z3.is_false(v):
        return False
    if z3.is_string_value(v):
        from .solve import _unescape

        return _unescape(v.as_string())
    if v.sort() == U and z3.is_app(v):
        d = v.decl().name()
        if d == "none":
            return None
        if d in ("bool", "int", "str"):
            return term_py(v.arg(0))
        if d == "flt":
            return {"$float": str(v.arg(0))}
        if d == "ref":
            return {"$ref": term_py(v.arg(0))}
    if v.sort() == SeqU:
        out = []
        def walk(t):
            n = t.decl().name()
            if n == "seq.unit":
                out.append(term_py(t.arg(0)))
            elif n == "seq.++":
                for c in t.children():
                    walk(c)
            elif n == "seq.empty":
                pass
            else:
                out.append({"$term": str(t)})
        walk(v)
        return out
    return {"$term": str(v)[:200]}


def discharge(pc, goal, axioms=(), timeout_ms=10000, inputs=None):
    """-> (status, model dict|None, seconds, backend, smt2)"""
    from .solve import check_sat

    goal = z3.simplify(goal) if not isinstance(goal, bool) else z3.BoolVal(goal)
    st, model, backend, dt, smt2 = check_sat(
        list(axioms) + list(pc) + [z3.Not(goal)], z3_ms=min(2500, timeout_ms), cvc5_ms=timeout_ms, value_terms=inputs, want_model=True
    )
    if st == "unknown":
        # last resort before reporting `undecided`: both budgets are wall-clock and a busy machine
        # can starve a query that needs a fraction of them; give z3 one long run
        st, model, backend, dt2, smt2 = check_sat(list(axioms) + list(pc) + [z3.Not(goal)], z3_ms=6 * timeout_ms // 2, cvc5_ms=100, value_terms=inputs, want_model=True)
        dt += dt2
        backend = backend + "(retry)"
    if st == "unsat":
        return "discharged", None, dt, backend, None
    if st == "sat":
        if isinstance(model, z3.ModelRef):
            model = {n: model_py(model, t) for n, t in (inputs or {}).items()}
        return "refuted", (model or {}), dt, backend, smt2
    return "undecided", None, dt, backend, smt2


def verify_contract(cdef: ContractDef, tier="quick") -> dict:
    """Run one contract; returns a JSON-able report."""
    t0 = time.time()
    rep = {
        "contract": cdef.ident,
        "target": cdef.target,
        "obligations": [],
        "error": None,
        "assumptions": [],
        "opaque": [],
        "builtins": [],
        "inlined": [],
        "bounded_loops": [],
    }
    try:
        rep["function"] = load.func_info(cdef.target)
        c = Contract(cdef)
        cdef.fn(c)
        eng = Engine(c)
        mod, node, cls = load.find(cdef.target)
        if isinstance(node, ast.ClassDef):
            raise Unsupported("target is a class; name the method")
        module, _, qual = cdef.target.partition(":")
        func = VFunc(node, mod, None, qual, (module, cls.name) if cls is not None else None)
        if cls is None and "." not in qual and getattr(node, "decorator_list", None):
            func = eng.decorated_func(mod, node, qual)
        from .lib import _number_loops

        _number_loops(node, cdef.target)
        if c.expect_loops is not None and node._loop_count != c.expect_loops:
            raise load.TargetMissing(
                f"{cdef.target}: loop count changed ({node._loop_count} != {c.expect_loops}); loop contracts need review"
            )
        if c.entry is not None:
            outcomes = c.entry(eng, c, func)
        else:
            outcomes = eng.run(func, c.st, c.args, c.kwargs, self_val=c.self_val)
        axioms = [a for a, _ in c.axioms]
        if not os.environ.get("VERIF_NO_XCHECK") and not (c.crosscheck_spec or {}).get("off"):
            # CPython cross-check of the path summaries (DESIGN 2.7).  Explicit (c.crosscheck(...)):
            # a set-up failure or an empty comparison is a checker error.  Automatic (every contract
            # whose call takes scalar inputs and that replaces no callee by a summary): set-up
            # failures are recorded and skipped.  A disagreement is a checker error in both modes.
            explicit = c.crosscheck_spec is not None
            if explicit or (not c.summaries and c.entry is None and not c.axioms):
                from .crosscheck import run_crosscheck

                try:
                    xc = run_crosscheck(c, eng, outcomes, tier, int(os.environ.get("VERIF_SEED", "0")))
                except Exception as e:  # noqa: BLE001
                    xc = {"error": f"cross-check crashed: {type(e).__name__}: {e}"}
                xc["mode"] = "explicit" if explicit else "auto"
                rep["crosscheck"] = xc
                if xc.get("n_mismatches"):
                    rep["error"] = f"engine disagrees with CPython (cross-check): {xc['mismatches'][:2]}"
                elif explicit and xc.get("error"):
                    rep["error"] = xc["error"]
                elif explicit and not xc.get("compared"):
                    rep["error"] = f"cross-check compared nothing: {xc}"
        obls: list[tuple[str, str, list, Any, Any]] = []  # (kind, label, pc, goal, result)
        n_normal = 0
        for k, (s, o) in enumerate(outcomes):
            if isinstance(o, Raised):
                res = Result(s, None, o.exc, eng)
                if c.allowed_raises is not None:
                    ok = any(eng.is_subclass(o.exc.cls, a) for a in c.allowed_raises)
                    if not ok:
                        obls.append(("raises", f"raises-only:{o.exc.cls}", s.pc, z3.BoolVal(False), res))
                    else:
                        obls.append(("raises", "raised-classes-within-declared-set", s.pc, z3.BoolVal(True), res))
                for label, fn in c.exc_posts:
                    obls.append(("post", label, s.pc, fn(res), res))
            else:
                n_normal += 1
                val = o.val if isinstance(o, Ret) else o
                res = Result(s, val, None, eng)
                for label, fn in c.posts:
                    g = fn(res)
                    if isinstance(g, bool):
                        g = z3.BoolVal(g)
                    obls.append(("post", label, s.pc, g, res))
        if c.allowed_raises is not None and not any(k == "raises" for k, *_ in obls):
            # every path was examined and none raises at all
            obls.append(("raises", "raised-classes-within-declared-set", [], z3.BoolVal(True), None))
        for ob in eng.obligations:
            obls.append((ob.kind, ob.label, ob.pc, ob.goal, None))
        # covers (vacuity guards)
        cov_ok = True
        cov = []
        if not outcomes:
            cov_ok = False
            cov.append({"label": "some-outcome", "sat": False})
        for label, fn in c.covers:
            hit = False
            for s, o in outcomes:
                res = Result(s, o.val if isinstance(o, Ret) else None, o.exc if isinstance(o, Raised) else None, eng)
                try:
                    g = fn(res)
                except Exception:
                    continue
                if g is None:
                    continue
                if isinstance(g, bool):
                    g = z3.BoolVal(g)
                from .solve import check_sat

                st_, _m, _b, _dt, _q = check_sat([*axioms, *s.pc, g], z3_ms=2000, cvc5_ms=5000)
                if st_ == "unknown" and axioms:
                    # quantified axioms often make a *sat* answer unreachable; the path
                    # condition and the preconditions themselves must still be satisfiable
                    st_, _m, _b, _dt, _q = check_sat([*s.pc, g], z3_ms=2000, cvc5_ms=5000)
                if st_ == "sat":
                    hit = True
                    break
            cov.append({"label": label, "sat": hit})
            cov_ok = cov_ok and hit
        rep["covers"] = cov
        rep["paths"] = len(outcomes)
        rep["normal_paths"] = n_normal
        # discharge, grouping by (kind,label)
        groups: dict[tuple[str, str], dict] = {}
        from .solve import check_sat as _cs, recheck_unsat

        for kind, label, pc, goal, res in obls:
            status, model, dt, backend, smt2 = discharge(pc, goal, axioms, 10000 if tier == "quick" else 30000, c.inputs)
            g = groups.setdefault((kind, label), {"kind": kind, "label": label, "status": "discharged", "paths": 0, "time_s": 0.0, "backends": set(), "model": None, "smt2": None, "canary": None})
            g["paths"] += 1
            g["time_s"] += dt
            g["max_query_s"] = round(max(g.get("max_query_s", 0.0), dt), 4)
            g["backends"].add(backend)
            # canary (DESIGN 2.7): a discharged obligation must not hold vacuously -- on at least
            # one of its paths `pc and goal` is satisfiable (the negated claim is refuted there)
            if status == "discharged" and g["canary"] is not True and not z3.is_false(z3.simplify(goal) if not isinstance(goal, bool) else z3.BoolVal(goal)) and not (kind == "raises" and res is None):
                gl = goal if not isinstance(goal, bool) else z3.BoolVal(goal)
                st_, _m, _b, dtc, _q = _cs([*axioms, *pc, gl], z3_ms=1000, cvc5_ms=3000)
                if st_ == "unknown" and axioms:
                    st_, _m, _b, dtc2, _q = _cs([*pc, gl], z3_ms=1000, cvc5_ms=3000)
                    dtc += dtc2
                g["time_s"] += dtc
                if st_ == "sat":
                    g["canary"] = True
                elif st_ == "unsat" and g["canary"] is None:
                    g["canary"] = False
                elif st_ == "unknown":
                    g["canary"] = "unknown"
            # thorough tier: every unsat answer of z3 is re-checked by cvc5 (disagreement = checker error)
            if status == "discharged" and tier == "thorough" and backend == "z3":
                r2, dt2 = recheck_unsat([*axioms, *pc, z3.Not(goal if not isinstance(goal, bool) else z3.BoolVal(goal))], 20000)
                g["time_s"] += dt2
                g.setdefault("recheck", {"unsat": 0, "unknown": 0, "sat": 0})[r2] += 1
                if r2 == "sat":
                    rep["error"] = (rep.get("error") or "") + f" solver disagreement on {label}: z3 unsat, cvc5 sat;"
                else:
                    g["backends"].add("cvc5-recheck" if r2 == "unsat" else "cvc5-recheck-unknown")
            if status == "refuted" and g["status"] != "refuted":
                g["status"] = "refuted"
                g["model"] = dict(model)
                g["smt2"] = smt2
                if res is not None and res.exc is not None:
                    g["model"]["$raised"] = res.exc.cls
            elif status == "undecided" and g["status"] == "discharged":
                g["status"] = "undecided"
                g["smt2"] = smt2
        for g in groups.values():
            if g["status"] == "discharged" and g["canary"] is False:
                rep["error"] = (rep.get("error") or "") + f" canary failed: obligation '{g['label']}' holds vacuously (no feasible path satisfies it);"
            g["backends"] = sorted(g["backends"])
            g["time_s"] = round(g["time_s"], 4)
            g["id"] = f"{cdef.ident}/{g['label']}"
            g["replay_schema"] = c.replay_schema
            g["replay_extra"] = c.replay_extra
            rep["obligations"].append(g)
        if not cov_ok:
            rep["error"] = (rep.get("error") or "") + f" vacuity guard failed: {cov}"
        if not rep["obligations"]:
            rep["error"] = rep["error"] or "zero obligations generated"
        rep["assumptions"] = list(c.assumptions) + sorted(getattr(eng, "model_notes", ()))
        rep["opaque"] = sorted(eng.opaque_used)
        rep["builtins"] = sorted(getattr(eng, "builtins_used", ()))
        rep["inlined"] = sorted(eng.inlined)
        rep["bounded_loops"] = eng.bounded_loops
        rep["inlined_info"] = []
        for full in sorted(eng.inlined):
            try:
                rep["inlined_info"].append(load.func_info(full))
            except Exception:
                pass
    except load.TargetMissing as e:
        rep["error"] = f"target missing: {e}"
    except Unsupported as e:
        rep["error"] = f"unsupported: {e}"
    except Exception as e:  # engine bug: exit 3, never a violation
        rep["error"] = f"engine exception: {type(e).__name__}: {e}\n{traceback.format_exc()[-1500:]}"
    rep["wall_s"] = round(time.time() - t0, 3)
    return rep


def props_after(names):
    """entry driver: call the target, then read the named attributes/properties of `self`
    in the post-state; the result value is the tuple (result, prop1, prop2, ...)."""

    def entry(eng, c, func):
        outs = eng.run(func, c.st, c.args, c.kwargs, self_val=c.self_val)
        res = []
        for s, o in outs:
            if isinstance(o, Raised):
                res.append((s, o))
                continue
            states = [(s, [o.val])]
            for n in names:
                nxt = []
                for s2, acc in states:
                    for s3, v in eng.get_attr(s2, c.self_val, n):
                        nxt.append((s3, v if isinstance(v, Raised) else acc + [v]))
                states = nxt
            for s2, acc in states:
                res.append((s2, acc if isinstance(acc, Raised) else Ret(VTuple(tuple(acc)))))
        return res

    return entry
