"""SMT back ends: z3 (in process) first, cvc5 (CLI, --strings-exp) takes z3's unknowns.

DESIGN 2.6.  All queries carry a timeout; `unknown` is never mapped to sat or unsat.
"""
from __future__ import annotations

import os
import re
import subprocess
import tempfile
import time

import z3

CVC5 = "/usr/bin/cvc5"
STATS = {"z3": 0, "cvc5": 0, "z3_time": 0.0, "cvc5_time": 0.0, "unknown": 0}


# ------------------------------------------------------------------ s-expressions


def _tokenize(text):
    i, n = 0, len(text)
    while i < n:
        ch = text[i]
        if ch.isspace():
            i += 1
        elif ch in "()":
            yield ch
            i += 1
        elif ch == '"':
            j = i + 1
            buf = []
            while j < n:
                if text[j] == '"':
                    if j + 1 < n and text[j + 1] == '"':
                        buf.append('"')
                        j += 2
                        continue
                    break
                buf.append(text[j])
                j += 1
            yield ("str", "".join(buf))
            i = j + 1
        elif ch == "|":
            j = text.index("|", i + 1)
            yield text[i : j + 1]
            i = j + 1
        else:
            j = i
            while j < n and not text[j].isspace() and text[j] not in "()":
                j += 1
            yield text[i:j]
            i = j


def parse_sexprs(text):
    stack = [[]]
    for tok in _tokenize(text):
        if tok == "(":
            stack.append([])
        elif tok == ")":
            top = stack.pop()
            stack[-1].append(top)
        else:
            stack[-1].append(tok)
    return stack[0]


def _unescape(s):
    def rep(m):
        return chr(int(m.group(1) or m.group(2), 16))

    return re.sub(r"\\u\{([0-9a-fA-F]+)\}|\\u([0-9a-fA-F]{4})", rep, s)


def sexpr_py(e):
    """SMT-LIB value -> JSON-able python value (same shapes as contract.term_py)"""
    if isinstance(e, tuple) and e[0] == "str":
        return _unescape(e[1])
    if isinstance(e, str):
        if e == "true":
            return True
        if e == "false":
            return False
        if e == "none":
            return None
        if re.fullmatch(r"-?\d+", e):
            return int(e)
        return {"$term": e}
    if isinstance(e, list) and e:
        h = e[0]
        if h == "-" and len(e) == 2:
            v = sexpr_py(e[1])
            return -v if isinstance(v, int) else {"$term": str(e)}
        if h in ("bool", "int", "str") and len(e) == 2:
            return sexpr_py(e[1])
        if h == "flt":
            return {"$float": str(e[1])}
        if h == "ref":
            return {"$ref": sexpr_py(e[1])}
        if h == "as" and len(e) == 3 and e[1] == "seq.empty":
            return []
        if h == "seq.unit":
            return [sexpr_py(e[1])]
        if h == "seq.++":
            out = []
            for x in e[1:]:
                v = sexpr_py(x)
                out.extend(v if isinstance(v, list) else [v])
            return out
    return {"$term": str(e)[:200]}


# ------------------------------------------------------------------ cvc5


def cvc5_run(smt2: str, timeout_ms: int, value_terms=None):
    """-> (status, values|None, seconds); values: {name: python value}"""
    t0 = time.time()
    text = smt2
    if "(set-logic" not in text:
        text = "(set-logic ALL)\n" + text
    opts = [CVC5, "--strings-exp", "--lang", "smt2", f"--tlimit={timeout_ms}"]
    if value_terms:
        opts.append("--produce-models")
        names = list(value_terms)
        text += "\n(get-value (" + " ".join(value_terms[n] for n in names) + "))\n"
    fd, path = tempfile.mkstemp(suffix=".smt2", dir=os.environ.get("VERIF_TMP") or None)
    try:
        with os.fdopen(fd, "w") as f:
            f.write(text)
        p = subprocess.run(opts + [path], capture_output=True, text=True, timeout=timeout_ms / 1000 + 10)
        out = p.stdout.strip()
        first = out.splitlines()[0].strip() if out else "unknown"
        status = first if first in ("sat", "unsat") else "unknown"
        values = None
        if status == "sat" and value_terms:
            rest = out[len(first) :].strip()
            try:
                parsed = parse_sexprs(rest)
                pairs = parsed[0] if parsed else []
                values = {}
                for n, pair in zip(names, pairs):
                    values[n] = sexpr_py(pair[1])
            except Exception:
                values = {"$raw": rest[:2000]}
    except Exception:
        status, values = "unknown", None
    finally:
        try:
            os.unlink(path)
        except OSError:
            pass
    dt = time.time() - t0
    STATS["cvc5"] += 1
    STATS["cvc5_time"] += dt
    return status, values, dt


def cvc5_check(smt2: str, timeout_ms: int):
    s, _v, dt = cvc5_run(smt2, timeout_ms)
    return s, dt


# ------------------------------------------------------------------ combined


def _free_consts(t):
    out = set()
    seen = set()
    stack = [t]
    while stack:
        x = stack.pop()
        if x.get_id() in seen:
            continue
        seen.add(x.get_id())
        if z3.is_const(x) and x.decl().kind() == z3.Z3_OP_UNINTERPRETED:
            out.add(x.decl().name() if re.fullmatch(r"[A-Za-z_][A-Za-z0-9_.$!]*", x.decl().name()) else "|" + x.decl().name() + "|")
        elif z3.is_app(x):
            stack.extend(x.children())
    return out



def recheck_unsat(assertions, cvc5_ms=20000):
    """second opinion on a z3 `unsat`: the same assertions given to cvc5 -> (unsat|sat|unknown, seconds)"""
    s = z3.Solver()
    s.add(*assertions)
    st, _v, dt = cvc5_run(s.to_smt2(), cvc5_ms)
    return st, dt


def check_sat(assertions, z3_ms=1500, cvc5_ms=8000, value_terms=None, want_model=False):
    """-> (status in sat|unsat|unknown, model (z3 ModelRef | dict | None), backend, seconds, smt2)"""
    t0 = time.time()
    s = z3.Solver()
    s.set("timeout", z3_ms)
    s.add(*assertions)
    r = s.check()
    dt = time.time() - t0
    STATS["z3"] += 1
    STATS["z3_time"] += dt
    if r == z3.unsat:
        return "unsat", None, "z3", dt, None
    if r == z3.sat:
        return "sat", (s.model() if want_model else None), "z3", dt, (s.to_smt2() if want_model else None)
    smt2 = s.to_smt2()
    vt = None
    if want_model and value_terms:
        declared = set(re.findall(r"\(declare-fun (\S+|\|[^|]*\|) ", smt2))
        vt = {}
        for n, t in value_terms.items():
            consts = _free_consts(t)
            if all(c in declared for c in consts):
                vt[n] = t.sexpr()
    st, values, dt2 = cvc5_run(smt2, cvc5_ms, vt)
    if st == "unknown":
        STATS["unknown"] += 1
        return "unknown", None, "z3+cvc5", dt + dt2, smt2
    return st, values, "cvc5", dt + dt2, smt2
