"""cvc5 second opinion (CLI on SMT-LIB text)."""
import os
import subprocess
import tempfile
import time


def cvc5_check(smt2: str, timeout_ms: int):
    t0 = time.time()
    # z3 prints (check-sat) at the end already
    text = "(set-logic ALL)\n" + smt2
    with tempfile.NamedTemporaryFile("w", suffix=".smt2", delete=False, dir=os.environ.get("VERIF_SCRATCH_FILES", None)) as fd:
        fd.write(text)
        path = fd.name
    try:
        p = subprocess.run(
            ["/usr/bin/cvc5", "--strings-exp", "--lang", "smt2", f"--tlimit={timeout_ms}", path],
            capture_output=True, text=True, timeout=timeout_ms / 1000 + 5,
        )
        out = p.stdout.strip().splitlines()
        r = out[0] if out else "unknown"
        if r not in ("sat", "unsat"):
            r = "unknown"
    except Exception:
        r = "unknown"
    finally:
        os.unlink(path)
    return r, time.time() - t0
