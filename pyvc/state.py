"""Execution state, outcomes and basic value helpers."""
from __future__ import annotations

import itertools
from dataclasses import dataclass
from typing import Any, Optional

import z3

from .u import *  # noqa: F403


class Unsupported(Exception):
    """The function uses something outside the accepted subset -> exit 3, never a violation."""


@dataclass
class Raised:
    exc: VExc


@dataclass
class Ret:
    val: Val


class Brk:
    pass


class Cont:
    pass


BRK = Brk()
CONT = Cont()

class _Counter:
    """address allocator that relational (two-run) drivers can rewind so that both runs
    allocate the same addresses for corresponding objects"""

    def __init__(self, start):
        self.n = start

    def __next__(self):
        self.n += 1
        return self.n

    def mark(self):
        return self.n

    def reset(self, m):
        self.n = m


_addr = _Counter(1_000_000)


class State:
    __slots__ = ("locals", "heap", "pc", "log", "world", "ghost", "handling")

    def __init__(self):
        self.locals: dict[str, Val] = {}
        self.heap: dict[int, Any] = {}
        self.pc: list = []
        self.log: list = []  # effect log: tuples
        self.world = 0
        self.ghost: dict = {}
        self.handling = None  # exception being handled (for bare raise)

    def fork(self) -> "State":
        s = State.__new__(State)
        s.locals = dict(self.locals)
        s.heap = {a: o.copy() for a, o in self.heap.items()}
        s.pc = list(self.pc)
        s.log = list(self.log)
        s.world = self.world
        s.ghost = dict(self.ghost)
        s.handling = self.handling
        return s

    def assume(self, cond) -> "State":
        if isinstance(cond, bool):
            cond = z3.BoolVal(cond)
        self.pc.append(cond)
        return self

    def alloc(self, hobj) -> VRef:
        a = next(_addr)
        self.heap[a] = hobj
        return VRef(a)

    def deref(self, ref: VRef):
        return self.heap[ref.addr]


# ------------------------------------------------------------------ feasibility

_feas_cache: dict = {}
STATS = {"feas_queries": 0, "feas_time": 0.0}


def feasible(pc, timeout_ms=1500) -> bool:
    """False only if pc is definitely unsatisfiable."""
    import time

    if not pc:
        return True
    conj = z3.simplify(z3.And(*pc)) if len(pc) > 1 else z3.simplify(pc[0])
    if z3.is_false(conj):
        return False
    if z3.is_true(conj):
        return True
    key = conj.sexpr()
    if key in _feas_cache:
        return _feas_cache[key]
    t0 = time.time()
    from .solve import check_sat

    r, _m, _b, _dt, _q = check_sat([conj], z3_ms=400, cvc5_ms=4000)
    STATS["feas_queries"] += 1
    STATS["feas_time"] += time.time() - t0
    res = r != "unsat"
    _feas_cache[key] = res
    return res


def definitely_infeasible(pc) -> bool:
    """True only if pc is unsatisfiable (generous budget; used to discard a path that met an
    unsupported construct after the quick feasibility query timed out)."""
    if not pc:
        return False
    conj = z3.simplify(z3.And(*pc)) if len(pc) > 1 else z3.simplify(pc[0])
    if z3.is_false(conj):
        return True
    if z3.is_true(conj):
        return False
    key = conj.sexpr()
    if _feas_cache.get(key) is False:
        return True
    from .solve import check_sat

    r, _m, _b, _dt, _q = check_sat([conj], z3_ms=10000, cvc5_ms=20000)
    STATS["feas_queries"] += 1
    if r == "unsat":
        _feas_cache[key] = False
        return True
    return False


# ------------------------------------------------------------------ boxing


def box(v: Val):
    """Val -> U term"""
    if isinstance(v, VU):
        return v.t
    if isinstance(v, VOpaque):
        return v.t
    if isinstance(v, VInt):
        return U.int(v.t)
    if isinstance(v, VBool):
        return U.bool(v.t)
    if isinstance(v, VStr):
        return U.str(v.t)
    if isinstance(v, VFlt):
        return U.flt(v.t)
    if isinstance(v, VNone):
        return U.none
    if isinstance(v, VRef):
        return U.ref(z3.IntVal(v.addr))
    if isinstance(v, VConst):
        if v.py is None:
            return U.none
        if isinstance(v.py, bool):
            return U.bool(z3.BoolVal(v.py))
        if isinstance(v.py, int):
            return U.int(z3.IntVal(v.py))
        if isinstance(v.py, str):
            return U.str(z3.StringVal(v.py))
    raise Unsupported(f"cannot box {v!r}")


def unbox(t) -> Val:
    """U term -> most specific Val when the constructor is syntactically known"""
    t = z3.simplify(t)
    if z3.is_app(t) and t.sort() == U:
        d = t.decl().name()
        if d == "none":
            return NONE
        if d == "bool":
            return VBool(t.arg(0))
        if d == "int":
            return VInt(t.arg(0))
        if d == "str":
            return VStr(t.arg(0))
        if d == "flt":
            return VFlt(t.arg(0))
        if d == "ref" and z3.is_int_value(t.arg(0)):
            return VRef(t.arg(0).as_long())
    return VU(t)


def const(py) -> Val:
    if py is None:
        return NONE
    if isinstance(py, bool):
        return VBool(z3.BoolVal(py))
    if isinstance(py, int):
        return VInt(z3.IntVal(py))
    if isinstance(py, str):
        return VStr(z3.StringVal(py))
    if isinstance(py, tuple):
        return VTuple(tuple(const(x) for x in py))
    return VConst(py)


def concrete(v: Val):
    """Return (True, python value) if v is a concrete primitive."""
    if isinstance(v, VNone):
        return True, None
    if isinstance(v, VConst):
        return True, v.py
    if isinstance(v, (VInt, VBool, VStr)):
        t = z3.simplify(v.t)
        if isinstance(v, VInt) and z3.is_int_value(t):
            return True, t.as_long()
        if isinstance(v, VBool) and (z3.is_true(t) or z3.is_false(t)):
            return True, z3.is_true(t)
        if isinstance(v, VStr) and z3.is_string_value(t):
            return True, t.as_string()
    if isinstance(v, VTuple):
        out = []
        for x in v.items:
            ok, p = concrete(x)
            if not ok:
                return False, None
            out.append(p)
        return True, tuple(out)
    return False, None


# tags for VU type splitting
TAGS = ("none", "bool", "int", "flt", "str", "ref")


def tag_test(t, tag):
    return getattr(U, "is_" + tag)(t)


def tag_val(t, tag) -> Val:
    if tag == "none":
        return NONE
    if tag == "bool":
        return VBool(U.b(t))
    if tag == "int":
        return VInt(U.i(t))
    if tag == "flt":
        return VFlt(U.f(t))
    if tag == "str":
        return VStr(U.s(t))
    return VU(t)  # refs stay boxed


def py_slice_bounds(n, lo, hi):
    """Python's slice index normalisation for step 1: returns (start, length)"""

    def norm(x, default):
        if x is None:
            return default
        return z3.If(x < 0, zmax(x + n, z3.IntVal(0)), zmin(x, n))

    a = norm(lo, z3.IntVal(0))
    b = norm(hi, n)
    return a, zmax(b - a, z3.IntVal(0))
