"""Assumed contracts for builtins / stdlib (DESIGN section 3).  Mixin for the executor.

Everything in this file is *trusted*: it is the stated semantics of CPython builtins.
The list of builtins actually used by a proof is recorded in the evidence file.
"""
from __future__ import annotations

import ast

import z3

from . import load
from .expr import _Frozen
from .lib import ABC_TABLE
from .state import *  # noqa: F403
from .u import *  # noqa: F403

prodlen = z3.Function("prod_length", SeqU, I)  # product of `.length` over a sequence of loops
attr_length = z3.Function("attr$length", U, I, U)


class BuiltinMixin:
    def builtin_call(self, st, fv: VBuiltin, args, kwargs, node=None):
        self.builtins_used = getattr(self, "builtins_used", set())
        self.builtins_used.add(fv.name)
        name = fv.name
        if self.config is not None and fv.self is None:
            summ = self.config.summary_for("builtin:" + name)
            if summ is not None:
                return summ(self, st, args, kwargs)
        if fv.self is not None:
            kind, _, meth = name.partition(".")
            m = getattr(self, f"m_{kind}_{meth}", None)
            if m is None:
                raise Unsupported(f"method {name} is not modelled (line {getattr(node, 'lineno', '?')})")
            self._kwargs_guard(m, name, kwargs, node)
            return m(st, fv.self, args, kwargs)
        m = getattr(self, "b_" + name.replace(".", "_"), None)
        if m is None:
            root = name.split(".")[0]
            if "." in name and root in ("datetime", "time", "os", "warnings", "logging", "random", "uuid", "locale"):
                # external library call without a model: uninterpreted, assumed total (listed)
                if root == "warnings":
                    st.log.append(("warn", name, tuple(args)))
                return self.opaque_call(st, "ext:" + name, list(args) + list(kwargs.values()))
            raise Unsupported(f"builtin {name} is not modelled (line {getattr(node, 'lineno', '?')})")
        self._kwargs_guard(m, name, kwargs, node)
        return m(st, args, kwargs)

    _KW_AWARE: dict = {}

    def _kwargs_guard(self, m, name, kwargs, node):
        """a model that never looks at its keyword arguments must not be handed any: silently
        ignoring `start=2`, `key=f`, `default=x` ... would be an unsound model"""
        if not kwargs:
            return
        f = getattr(m, "__func__", m)
        aware = self._KW_AWARE.get(f)
        if aware is None:
            import inspect

            try:
                src = inspect.getsource(f)
                aware = src.count("kwargs") > 1
            except (OSError, TypeError):
                aware = True
            self._KW_AWARE[f] = aware
        if not aware:
            raise Unsupported(f"keyword arguments {sorted(kwargs)} of {name} are not modelled (line {getattr(node, 'lineno', '?')})")

    # ------------------------------------------------------------ type tests

    def kind_of(self, st, v):
        """static kind name for non-VU values"""
        if isinstance(v, VStr):
            return "str"
        if isinstance(v, VBool):
            return "bool"
        if isinstance(v, VInt):
            return "int"
        if isinstance(v, VFlt):
            return "float"
        if isinstance(v, VNone):
            return "none"
        if isinstance(v, VTuple):
            return "tuple"
        if isinstance(v, VRange):
            return "range"
        if isinstance(v, VSeq):
            return v.kind
        if isinstance(v, VRef):
            h = st.deref(v)
            return {HList: "list", HDict: "dict", HODict: "dict", HIter: "iter", HCIter: "iter", HDeque: "deque", HSet: "set"}.get(type(h), "obj")
        if isinstance(v, VConst):
            if isinstance(v.py, bytes):
                return "bytes"
            if isinstance(v.py, _Frozen):
                return "set" if isinstance(v.py.data, (set, frozenset)) else type(v.py.data).__name__
            return "const"
        if isinstance(v, VExc):
            return "exc"
        return "other"

    def type_names(self, typ):
        """flatten an isinstance() second argument into a list of type descriptors"""
        if isinstance(typ, VTuple):
            out = []
            for t in typ.items:
                out.extend(self.type_names(t))
            return out
        if isinstance(typ, VBuiltin):
            return [("py", typ.name.split(".")[-1])]
        if isinstance(typ, VClass):
            return [("cls", typ.module, typ.name)]
        if isinstance(typ, VExcClass):
            return [("exc", typ.name)]
        raise Unsupported(f"isinstance type {typ!r}")

    def isinstance_cond(self, st, v, typ):
        alts = []
        for desc in self.type_names(typ):
            alts.append(self.isinstance_one(st, v, desc))
        return z3.simplify(z3.Or(*alts)) if alts else z3.BoolVal(False)

    def isinstance_one(self, st, v, desc):
        if isinstance(v, (VU, VOpaque)):
            t = v.t
            if desc[0] == "py":
                n = desc[1]
                if n == "object":
                    return z3.BoolVal(True)
                if n == "str":
                    return U.is_str(t)
                if n == "bool":
                    return U.is_bool(t)
                if n == "int":
                    return z3.Or(U.is_int(t), U.is_bool(t))
                if n == "float":
                    return U.is_flt(t)
                if n in ABC_TABLE:
                    prim = z3.BoolVal(False)
                    if "str" in ABC_TABLE[n]:
                        prim = U.is_str(t)
                    if n == "Hashable":
                        prim = z3.Not(U.is_ref(t))
                    return z3.Or(prim, z3.And(U.is_ref(t), self.ref_isinst(st, n, t)))
                return z3.And(U.is_ref(t), self.ref_isinst(st, n, t))
            if desc[0] == "cls":
                return z3.And(U.is_ref(t), self.ref_isinst(st, desc[2], t))
            return z3.BoolVal(False)
        k = self.kind_of(st, v)
        if desc[0] == "py":
            n = desc[1]
            if n == "object":
                return z3.BoolVal(True)
            if n == "int":
                return z3.BoolVal(k in ("int", "bool"))
            if n in ("str", "bool", "float", "list", "tuple", "dict", "bytes", "set"):
                return z3.BoolVal(k == n)
            if n == "range":
                return z3.BoolVal(k == "range")
            if n in ABC_TABLE:
                if k == "obj":
                    h = st.deref(v)
                    names = [c[1] for c in load.mro(h.cls[0], h.cls[1])]
                    if n in names:
                        return z3.BoolVal(True)
                    if n == "Sized":
                        return z3.BoolVal(load.find_method(h.cls[0], h.cls[1], "__len__") is not None)
                    if n == "Iterable":
                        return z3.BoolVal(load.find_method(h.cls[0], h.cls[1], "__iter__") is not None)
                    if "Mapping" in names and n in ("Sized", "Iterable", "Collection"):
                        return z3.BoolVal(True)
                    return z3.BoolVal(False)
                return z3.BoolVal(k in ABC_TABLE[n])
            if k == "obj":
                h = st.deref(v)
                return z3.BoolVal(n in [c[1] for c in load.mro(h.cls[0], h.cls[1])])
            return z3.BoolVal(False)
        if desc[0] == "cls":
            if k == "obj":
                h = st.deref(v)
                return z3.BoolVal((desc[1], desc[2]) in load.mro(h.cls[0], h.cls[1]) or desc[2] in [c[1] for c in load.mro(h.cls[0], h.cls[1])])
            if k == "const" and isinstance(v.py, tuple) and v.py and v.py[0] == "instance":
                # module-level instance created by calling class v.py[3]
                return z3.BoolVal(v.py[3] == desc[2])
            return z3.BoolVal(False)
        if desc[0] == "exc":
            if isinstance(v, VExc):
                return z3.BoolVal(self.is_subclass(v.cls, desc[1]))
            return z3.BoolVal(False)
        raise Unsupported(f"isinstance {desc}")

    def ref_isinst(self, st, clsname, t):
        f = z3.Function("ref_isinstance$" + clsname, U, B)
        return f(t)

    def b_isinstance(self, st, args, kwargs):
        v, typ = args
        # isinstance(obj, C) with C an abstract base class (a class with ABCMeta: here, a repo class
        # deriving from a collections.abc class) and type(obj) is not C: ABCMeta.__instancecheck__
        # reads obj.__class__ FIRST -- through obj's own __getattribute__ when it defines one
        # (StrictUndefined refuses it with UndefinedError)
        if isinstance(v, VRef) and isinstance(st.deref(v), HObj) and st.deref(v).cls[0].startswith("liquid"):
            h = st.deref(v)
            targets = list(typ.items) if isinstance(typ, VTuple) else [typ]
            abc_targets = [t for t in targets if isinstance(t, VClass) and t.module.startswith("liquid") and (t.module, t.name) != tuple(h.cls)
                           and any(n_ in ABC_TABLE for _m, n_ in load.mro(t.module, t.name))]
            if abc_targets and load.find_method(h.cls[0], h.cls[1], "__getattribute__") is not None:
                out = []
                for s, r in self.get_attr(st, v, "__class__"):
                    out.append((s, r) if isinstance(r, Raised) else (s, VBool(self.isinstance_cond(s, v, typ))))
                return out
        return [(st, VBool(self.isinstance_cond(st, v, typ)))]

    def b_issubclass(self, st, args, kwargs):
        """issubclass(C, D) for classes known to the engine (repo classes through the real MRO);
        no instance is involved, so no __class__ / __getattribute__ hook runs"""
        c_, d_ = args
        targets = list(d_.items) if isinstance(d_, VTuple) else [d_]
        if isinstance(c_, VClass) and all(isinstance(t, VClass) for t in targets):
            names = {(m_, n_) for m_, n_ in load.mro(c_.module, c_.name)}
            return [(st, VBool(z3.BoolVal(any((t.module, t.name) in names or t.name in {n_ for _m, n_ in names} for t in targets))))]
        if isinstance(c_, VConst) and isinstance(c_.py, tuple) and c_.py and c_.py[0] == "classof":
            # type(v) of a value that is not an instance of a repo class: same as isinstance(v, D)
            return [(st, VBool(self.isinstance_cond(st, c_.py[1], d_)))]
        raise Unsupported(f"issubclass({c_!r}, {d_!r})")

    def b_hasattr(self, st, args, kwargs):
        v, name = args
        ok, n = concrete(name)
        if not ok:
            raise Unsupported("hasattr with symbolic name")
        if isinstance(v, (VU, VOpaque)):
            f = z3.Function("ref_hasattr$" + n, U, B)
            return [(st, VBool(z3.And(U.is_ref(v.t), f(v.t))))]
        if isinstance(v, VRef) and isinstance(st.deref(v), HObj) and st.deref(v).cls[0].startswith("liquid") and load.find_method(st.deref(v).cls[0], st.deref(v).cls[1], "__getattribute__") is not None:
            # hasattr = getattr succeeds; only AttributeError is swallowed
            out = []
            for s, r in self.get_attr(st, v, n):
                if isinstance(r, Raised):
                    if self.is_subclass(r.exc.cls, "AttributeError"):
                        out.append((s, VBool(z3.BoolVal(False))))
                    else:
                        out.append((s, r))
                else:
                    out.append((s, VBool(z3.BoolVal(True))))
            return out
        if isinstance(v, VRef) and isinstance(st.deref(v), HObj):
            h = st.deref(v)
            if n in h.fields or n in h.field_sorts:
                return [(st, VBool(z3.BoolVal(True)))]
            if h.cls[0].startswith("liquid"):
                return [(st, VBool(z3.BoolVal(self.class_attr(h.cls[0], h.cls[1], n) is not None)))]
            f = z3.Function("ref_hasattr$" + n, U, B)
            return [(st, VBool(f(box(v))))]
        if isinstance(v, (VStr, VInt, VBool, VNone, VFlt, VTuple, VRange)):
            py = {"VStr": "", "VInt": 0, "VBool": True, "VNone": None, "VFlt": 0.0, "VTuple": (), "VRange": range(0)}[type(v).__name__]
            return [(st, VBool(z3.BoolVal(hasattr(py, n))))]
        if isinstance(v, VRef):
            py = {HList: [], HDict: {}, HODict: {}, HIter: iter(()), HCIter: iter(()), HDeque: []}.get(type(st.deref(v)))
            if py is not None:
                return [(st, VBool(z3.BoolVal(hasattr(py, n))))]
        if isinstance(v, VFunc):
            # function attributes set by decorators (with_context, filter_async ...)
            return [(st, VBool(z3.BoolVal((id(v.node), n) in self.__dict__.get("_func_attrs", {}))))]
        raise Unsupported(f"hasattr on {type(v).__name__}")

    def b_getattr(self, st, args, kwargs):
        ok, n = concrete(args[1])
        if not ok:
            raise Unsupported("getattr with symbolic name")
        if len(args) == 2:
            return self.get_attr(st, args[0], n)
        out = []
        for s, has in self.b_hasattr(st, [args[0], args[1]], {}):
            for s2, t in self.branch(s, has.t):
                if t:
                    out.extend(self.get_attr(s2, args[0], n))
                else:
                    out.append((s2, args[2]))
        return out

    def b_object___getattribute__(self, st, args, kwargs):
        ok, n = concrete(args[1])
        if not ok:
            raise Unsupported("object.__getattribute__ with symbolic name")
        return self.get_attr(st, args[0], n, raw=True)

    def b_functools_lru_cache(self, st, args, kwargs):
        # memoisation is modelled as transparent here (purity / key faithfulness: C17); the
        # capacity in kwargs (maxsize=...) does not change results and is deliberately ignored
        _ = kwargs
        return [(st, VBuiltin("identity_decorator"))]

    def b_identity_decorator(self, st, args, kwargs):
        return [(st, args[0])]

    def b_typing_cast(self, st, args, kwargs):
        return [(st, args[1])]

    def b_cast(self, st, args, kwargs):
        return [(st, args[1])]

    def b_callable(self, st, args, kwargs):
        v = args[0]
        return [(st, VBool(z3.BoolVal(isinstance(v, (VFunc, VBound, VBuiltin, VClass)))))]

    def b_type(self, st, args, kwargs):
        (v,) = args
        if isinstance(v, VRef) and isinstance(st.deref(v), HObj):
            h = st.deref(v)
            return [(st, VClass(h.cls[0], h.cls[1]))]
        if isinstance(v, VExc):
            return [(st, VExcClass(v.cls))]
        return [(st, VConst(("classof", v)))]

    # ------------------------------------------------------------ conversions

    def to_str(self, st, v, conv="str"):
        """-> [(st, VStr | Raised)]"""
        if isinstance(v, VStr):
            if conv == "repr":
                return [(st, VStr(z3.Function("repr_str", S, S)(v.t)))]
            return [(st, v)]
        if isinstance(v, VInt):
            r = z3.If(v.t < 0, z3.Concat(z3.StringVal("-"), z3.IntToStr(-v.t)), z3.IntToStr(v.t))
            outs = []
            if self.config and getattr(self.config, "int_str_limit", False) and not self._obviously_small(v.t):
                lim = self.int_str_limit_const(st)
                big = z3.Or(v.t >= lim, v.t <= -lim)
                s_big = st.fork()
                s_big.assume(big)
                if feasible(s_big.pc):
                    outs.append((s_big, Raised(VExc("ValueError", (VStr(z3.StringVal("Exceeds the limit (4300 digits) for integer string conversion")),)))))
                st.assume(z3.Not(big))
            st.assume(z3.Function("decimal_wellformed", S, B)(r))  # str(int) is valid Decimal text
            return outs + [(st, VStr(r))]
        if isinstance(v, VBool):
            return [(st, VStr(z3.If(v.t, z3.StringVal("True"), z3.StringVal("False"))))]
        if isinstance(v, VNone):
            return [(st, VStr(z3.StringVal("None")))]
        if isinstance(v, VFlt):
            r = z3.Function("str_of_flt", Flt, S)(v.t)
            st.assume(z3.Function("decimal_wellformed", S, B)(r))  # str(float) ('1.5','inf','nan') is valid Decimal text
            return [(st, VStr(r))]
        if isinstance(v, (VU, VOpaque)) and self.is_path(v):
            return [(st, VStr(z3.Function("path_str", U, S)(v.t)))]
        if isinstance(v, (VU, VOpaque)):
            t = v.t
            f = repr_of_u if conv == "repr" else str_of_u
            outs = []
            if self.config and getattr(self.config, "int_str_limit", False):
                lim = self.int_str_limit_const(st)
                big = z3.And(U.is_int(t), z3.Or(U.i(t) >= lim, U.i(t) <= -lim))
                s_big = st.fork()
                s_big.assume(big)
                if feasible(s_big.pc):
                    outs.append((s_big, Raised(VExc("ValueError", (VStr(z3.StringVal("Exceeds the limit (4300 digits) for integer string conversion")),)))))
                st = st.fork()
                st.assume(z3.Not(big))
            term = z3.If(
                U.is_str(t), U.s(t) if conv == "str" else z3.Function("repr_str", S, S)(U.s(t)),
                z3.If(U.is_int(t), z3.If(U.i(t) < 0, z3.Concat(z3.StringVal("-"), z3.IntToStr(-U.i(t))), z3.IntToStr(U.i(t))),
                z3.If(U.is_bool(t), z3.If(U.b(t), z3.StringVal("True"), z3.StringVal("False")),
                z3.If(U.is_none(t), z3.StringVal("None"), f(t)))),
            )
            return outs + [(st, VStr(term))]
        if isinstance(v, VRef):
            h = st.deref(v)
            if isinstance(h, HObj) and h.cls[0].startswith("liquid"):
                m = load.find_method(h.cls[0], h.cls[1], "__repr__" if conv == "repr" else "__str__")
                if m is not None and not (self.config and self.config.opaque_str(h)):
                    f = VFunc(m[2], load.get_module(m[0]), None, f"{m[1]}.{m[2].name}", (m[0], m[1]))
                    return self.call_function(st, f, [], {}, self_val=v)
            return [(st, VStr(z3.Function("str_of_ref", I, I, S)(z3.IntVal(v.addr), z3.IntVal(st.world))))]
        if isinstance(v, VExc):
            if v.args and isinstance(v.args[0], VStr):
                return [(st, v.args[0])]
            return [(st, VStr(fresh("excmsg", S)))]
        if isinstance(v, VConst):
            if isinstance(v.py, tuple) and v.py and v.py[0] == "classof":
                return [(st, VStr(fresh("clsrepr", S)))]
            if isinstance(v.py, (str, int, float)):
                return [(st, VStr(z3.StringVal(str(v.py))))]
            return [(st, VStr(fresh("conststr", S)))]
        if isinstance(v, (VTuple, VClass, VExcClass, VFunc, VBound, VBuiltin, VSeq)):
            return [(st, VStr(fresh("str", S)))]
        raise Unsupported(f"str() of {type(v).__name__}")

    @staticmethod
    def _obviously_small(t, depth=0):
        """an int term that cannot reach the int -> str digit limit: a numeral, a length or a
        position in a string/sequence (bounded by sys.maxsize), and sums/differences/choices of
        a few of those"""
        t = z3.simplify(t) if depth == 0 else t
        if z3.is_int_value(t):
            return abs(t.as_long()) < 2**62
        if not z3.is_app(t) or depth > 3:
            return False
        k = t.decl().kind()
        if k in (z3.Z3_OP_SEQ_LENGTH, z3.Z3_OP_SEQ_INDEX):
            return True
        if k == z3.Z3_OP_ITE:
            return BuiltinMixin._obviously_small(t.arg(1), depth + 1) and BuiltinMixin._obviously_small(t.arg(2), depth + 1)
        if k in (z3.Z3_OP_ADD, z3.Z3_OP_SUB, z3.Z3_OP_UMINUS) and t.num_args() <= 3:
            return all(BuiltinMixin._obviously_small(a, depth + 1) for a in t.children())
        if k == z3.Z3_OP_MUL and t.num_args() == 2 and any(z3.is_int_value(a) and abs(a.as_long()) <= 4 for a in t.children()):
            return all(BuiltinMixin._obviously_small(a, depth + 1) for a in t.children())
        return False

    def int_str_limit_const(self, st):
        lim = z3.Int("INT_STR_LIMIT")
        st.assume(lim >= 2**64)
        return lim

    def b_str(self, st, args, kwargs):
        if not args:
            return [(st, VStr(z3.StringVal("")))]
        return self.to_str(st, args[0], "str")

    def b_repr(self, st, args, kwargs):
        return self.to_str(st, args[0], "repr")

    def b_bool(self, st, args, kwargs):
        if not args:
            return [(st, VBool(z3.BoolVal(False)))]
        return [(st, VBool(self.truth(st, args[0])))]

    def b_int(self, st, args, kwargs):
        if not args:
            return [(st, VInt(z3.IntVal(0)))]
        v = args[0]
        if len(args) > 1:
            raise Unsupported("int() with base")
        if isinstance(v, VInt):
            return [(st, v)]
        if isinstance(v, VBool):
            return [(st, VInt(z3.If(v.t, z3.IntVal(1), z3.IntVal(0))))]
        if isinstance(v, VStr):
            out = []
            for s, ok in self.branch(st, str_is_int(v.t)):
                if ok:
                    out.append((s, VInt(int_of_str(v.t))))
                else:
                    out.append(self.raised(s, "ValueError", "invalid literal for int()"))
            return out
        if isinstance(v, VFlt):
            out = []
            for s, nan in self.branch(st, flt_is_nan(v.t)):
                if nan:
                    out.append(self.raised(s, "ValueError", "cannot convert float NaN to integer"))
                    continue
                for s2, inf in self.branch(s, flt_is_inf(v.t)):
                    if inf:
                        out.append(self.raised(s2, "OverflowError", "cannot convert float infinity to integer"))
                    else:
                        out.append((s2, VInt(flt_trunc(v.t))))
            return out
        if isinstance(v, (VNone, VTuple)):
            return [self.raised(st, "TypeError", "int() argument must be a string, a bytes-like object or a real number")]
        if isinstance(v, (VU, VOpaque)):
            out = []
            for s, tv in self.split_tags(st, v):
                if isinstance(tv, (VU, VOpaque)):
                    # object: __int__/__index__/__trunc__ or TypeError; lists, dicts: TypeError
                    out.extend(self.opaque_call(s, "int(ref)", [tv], may_raise=("TypeError", "ValueError"), pure=True))
                    o = out.pop()
                    out.append((o[0], VInt(z3.Function("int_of_ref", U, I)(tv.t))))
                else:
                    out.extend(self.b_int(s, [tv], {}))
            return out
        if isinstance(v, VRef):
            h = st.deref(v)
            if isinstance(h, HObj):
                m = load.find_method(h.cls[0], h.cls[1], "__int__")
                if m is not None:
                    f = VFunc(m[2], load.get_module(m[0]), None, f"{m[1]}.__int__", (m[0], m[1]))
                    return self.call_function(st, f, [], {}, self_val=v)
            return [self.raised(st, "TypeError", "int() argument")]
        if isinstance(v, VConst) and isinstance(v.py, bytes):
            return [self.raised(st, "ValueError", "bytes literal")]
        raise Unsupported(f"int() of {type(v).__name__}")

    def b_float(self, st, args, kwargs):
        (v,) = args
        if isinstance(v, VFlt):
            return [(st, v)]
        n = self.num_term(v)
        if n is not None:
            return [(st, VFlt(flt_of_int(n)))]  # OverflowError for huge ints ignored? no: stated below
        if isinstance(v, VStr):
            out = []
            for s, ok in self.branch(st, str_is_float(v.t)):
                if ok:
                    out.append((s, VFlt(flt_of_str(v.t))))
                else:
                    out.append(self.raised(s, "ValueError", "could not convert string to float"))
            return out
        if isinstance(v, VNone):
            return [self.raised(st, "TypeError", "float() argument")]
        if isinstance(v, (VU, VOpaque)):
            out = []
            for s, tv in self.split_tags(st, v):
                if isinstance(tv, (VU, VOpaque)) and self.is_decimal(tv):
                    out.append((s, VFlt(z3.Function("flt_of_ref", U, Flt)(tv.t))))
                elif isinstance(tv, (VU, VOpaque)):
                    out.extend(self.opaque_call(s, "float(ref)", [tv], may_raise=("TypeError", "ValueError"), pure=True))
                    o = out.pop()
                    out.append((o[0], VFlt(z3.Function("flt_of_ref", U, Flt)(tv.t))))
                else:
                    out.extend(self.b_float(s, [tv], {}))
            return out
        raise Unsupported(f"float() of {type(v).__name__}")

    def b_len(self, st, args, kwargs):
        (v,) = args
        if isinstance(v, VStr):
            return [(st, VInt(z3.Length(v.t)))]
        if isinstance(v, VSeq):
            return [(st, VInt(z3.Length(v.t)))]
        if isinstance(v, VTuple):
            return [(st, VInt(z3.IntVal(len(v.items))))]
        if isinstance(v, VRange):
            n = zmax(v.stop - v.start, z3.IntVal(0))
            if self.config and getattr(self.config, "int_str_limit", False):
                # machine limits are modelled (C02): len() of a range with more than sys.maxsize
                # items raises OverflowError
                outs = []
                for s, big in self.branch(st, n > 2**63 - 1):
                    outs.append(self.raised(s, "OverflowError", "Python int too large to convert to C ssize_t") if big else (s, VInt(n)))
                return outs
            return [(st, VInt(n))]
        if isinstance(v, VRef):
            h = st.deref(v)
            if isinstance(h, HList):
                return [(st, VInt(z3.IntVal(len(h.items)) if h.items is not None else z3.Length(h.seq) + len(h.tail)))]
            if isinstance(h, HDict):
                if h.present is None:
                    return [(st, VInt(z3.IntVal(len(h.items))))]
                n = z3.Function("dict_len", z3.ArraySort(U, B), I)(h.present)
                st.assume(n >= 0)
                return [(st, VInt(n))]
            if isinstance(h, HODict):
                self.od_access(st, v)
                return [(st, VInt(h.n))]
            if isinstance(h, HDeque):
                return [(st, VInt(z3.IntVal(len(h.items))))]
            if isinstance(h, HObj):
                m = load.find_method(h.cls[0], h.cls[1], "__len__")
                if m is not None:
                    f = VFunc(m[2], load.get_module(m[0]), None, f"{m[1]}.__len__", (m[0], m[1]))
                    return self.call_function(st, f, [], {}, self_val=v)
                return [self.raised(st, "TypeError", "object has no len()")]
            if isinstance(h, HIter):
                return [self.raised(st, "TypeError", "object of type iterator has no len()")]
        if isinstance(v, (VU, VOpaque)):
            out = []
            for s, tv in self.split_tags(st, v):
                if isinstance(tv, VStr):
                    out.append((s, VInt(z3.Length(tv.t))))
                elif isinstance(tv, (VU, VOpaque)):
                    f = z3.Function("ref_len", U, I, I)
                    n = f(tv.t, z3.IntVal(s.world))
                    sized = z3.Function("ref_isinstance$Sized", U, B)(tv.t)
                    for s2, ok in self.branch(s, sized):
                        if ok:
                            s2.assume(n >= 0)
                            out.append((s2, VInt(n)))
                        else:
                            out.append(self.raised(s2, "TypeError", "object has no len()"))
                else:
                    out.append(self.raised(s, "TypeError", "object has no len()"))
            return out
        if isinstance(v, (VInt, VBool, VNone, VFlt)):
            return [self.raised(st, "TypeError", "object has no len()")]
        if isinstance(v, VConst) and isinstance(v.py, _Frozen):
            return [(st, VInt(z3.IntVal(len(v.py.data))))]
        if isinstance(v, VConst) and isinstance(v.py, tuple) and v.py and v.py[0] == "bytes-of":
            n = utf8len(v.py[1].t)
            st.assume(n >= z3.Length(v.py[1].t))
            st.assume(z3.Implies(z3.Length(v.py[1].t) == 0, n == 0))
            return [(st, VInt(n))]
        raise Unsupported(f"len() of {type(v).__name__}")

    def with_typed(self, st, vals, fn):
        """split every VU among `vals` into typed alternatives, then call fn(st, typed_vals)"""
        results = [(st, [])]
        for v in vals:
            nxt = []
            for s, acc in results:
                for s2, tv in self.split_tags(s, v):
                    nxt.append((s2, acc + [tv]))
            results = nxt
        out = []
        for s, typed in results:
            out.extend(fn(s, typed))
        return out

    def _minmax(self, st, args, kwargs, is_min):
        if len(args) == 1:
            items = self.concrete_items(st, args[0])
            if items is None:
                raise Unsupported("min/max over symbolic iterable")
            args = items

        if not args:
            return [self.raised(st, "ValueError", "min()/max() arg is an empty sequence")]

        def f(s, typed):
            terms = [self.num_term(a) for a in typed]
            if all(isinstance(a, VStr) for a in typed):
                # strings order lexicographically by code point (z3 str.< is that order)
                acc = typed[0].t
                for a in typed[1:]:
                    acc = z3.If(a.t < acc, a.t, acc) if is_min else z3.If(a.t > acc, a.t, acc)
                return [(s, VStr(acc))]
            if any(t is None for t in terms):
                if all(isinstance(a, (VInt, VBool, VStr, VNone, VFlt, VU, VOpaque)) for a in typed):
                    if all(isinstance(a, (VInt, VBool, VFlt)) for a in typed):
                        # mixed int/float comparison: abstract
                        fs = [self.flt_term(a) for a in typed]
                        g = z3.Function("flt_min" if is_min else "flt_max", Flt, Flt, Flt)
                        acc = fs[0]
                        for t in fs[1:]:
                            acc = g(acc, t)
                        return [(s, VFlt(acc))]
                    return [self.raised(s, "TypeError", "'<' not supported between instances")]
                raise Unsupported("min/max of non-int values")
            acc = terms[0]
            for t in terms[1:]:
                # Python returns the first of equal elements
                acc = z3.If(t < acc, t, acc) if is_min else z3.If(t > acc, t, acc)
            return [(s, VInt(acc))]

        return self.with_typed(st, list(args), f)

    def b_min(self, st, args, kwargs):
        return self._minmax(st, args, kwargs, True)

    def b_max(self, st, args, kwargs):
        return self._minmax(st, args, kwargs, False)

    def b_abs(self, st, args, kwargs):
        def f(s, typed):
            (v,) = typed
            n = self.num_term(v)
            if n is not None:
                return [(s, VInt(z3.If(n < 0, -n, n)))]
            if isinstance(v, VFlt):
                return [(s, VFlt(z3.Function("flt_abs", Flt, Flt)(v.t)))]
            if isinstance(v, (VU, VOpaque)):
                if self.is_decimal(v):
                    return self.mk_decimal(s, "Decimal.__abs__", [v])
                return self.opaque_call(s, "abs(ref)", [v], may_raise=("TypeError",), pure=True)
            return [self.raised(s, "TypeError", "bad operand type for abs()")]
        return self.with_typed(st, list(args), f)

    def b_id(self, st, args, kwargs):
        v = args[0]
        if isinstance(v, VRef):
            return [(st, VInt(z3.IntVal(v.addr)))]
        raise Unsupported("id() of non-reference")

    def b_print(self, st, args, kwargs):
        return [(st, NONE)]

    # ------------------------------------------------------------ iteration

    def b_iter(self, st, args, kwargs):
        (v,) = args
        if isinstance(v, VRef) and isinstance(st.deref(v), HODict):
            return self.odict_iter(st, v, "keys", "asc")
        if isinstance(v, VConst) and isinstance(v.py, tuple) and v.py and v.py[0] == "odict-view":
            return self.odict_iter(st, VRef(v.py[1]), v.py[2], "asc")
        if isinstance(v, VRef) and isinstance(st.deref(v), (HIter, HCIter)):
            return [(st, v)]
        items = self.concrete_items(st, v)
        if items is not None:
            return [(st, st.alloc(HCIter(list(items), 0)))]
        if isinstance(v, VRef) and isinstance(st.deref(v), HDict) and st.deref(v).present is not None:
            if st.deref(v).items:
                raise Unsupported("iter over a dict with concrete and symbolic keys")
            return [(st, st.alloc(HIter(self.as_seq(st, v), z3.IntVal(0))))]
        seq = self.as_seq(st, v)
        if seq is None and items is not None:
            seq = self.list_seq(st, st.alloc(HList(items=items)))
        if seq is None and isinstance(v, VStr):
            # the characters of the string, in order
            seq = z3.Function("str_chars", S, SeqU)(v.t)
            i = fresh("ci", I)
            st.assume(z3.Length(seq) == z3.Length(v.t))
            st.assume(z3.ForAll([i], z3.Implies(z3.And(i >= 0, i < z3.Length(v.t)), seq[i] == U.str(z3.SubString(v.t, i, 1)))))
        if seq is None and isinstance(v, VRange):
            seq = z3.Function("range_items", I, I, SeqU)(v.start, v.stop)
            i = fresh("ri", I)
            n = zmax(v.stop - v.start, z3.IntVal(0))
            if self.config and getattr(self.config, "int_str_limit", False):
                # machine limits modelled: a range with more than sys.maxsize items can be iterated
                # but its items are never materialised as a sequence (no facts about them)
                out = []
                for s, big in self.branch(st, n > 2**63 - 1):
                    if big:
                        out.append((s, s.alloc(HIter(z3.Function("huge_range_items", I, I, SeqU)(v.start, v.stop), z3.IntVal(0)))))
                    else:
                        s.assume(z3.Length(seq) == n)
                        s.assume(z3.ForAll([i], z3.Implies(z3.And(i >= 0, i < n), seq[i] == U.int(v.start + i))))
                        out.append((s, s.alloc(HIter(seq, z3.IntVal(0)))))
                return out
            st.assume(z3.Length(seq) == n)
            st.assume(z3.ForAll([i], z3.Implies(z3.And(i >= 0, i < n), seq[i] == U.int(v.start + i))))
        if seq is None:
            if isinstance(v, (VU, VOpaque)):
                # an unknown iterable: its items are an uninterpreted sequence
                f = z3.Function("items_of", U, I, SeqU)
                seq = f(v.t, z3.IntVal(st.world))
                out = []
                iterable = z3.Or(U.is_str(v.t), z3.And(U.is_ref(v.t), z3.Function("ref_isinstance$Iterable", U, B)(v.t)))
                for s, ok in self.branch(st, iterable):
                    if ok:
                        out.append((s, s.alloc(HIter(seq, z3.IntVal(0)))))
                    else:
                        out.append(self.raised(s, "TypeError", "object is not iterable"))
                return out
            raise Unsupported(f"iter() of {type(v).__name__}")
        return [(st, st.alloc(HIter(seq, z3.IntVal(0))))]

    def b_next(self, st, args, kwargs):
        it = args[0]
        if isinstance(it, VRef) and isinstance(st.deref(it), HCIter):
            h = st.deref(it)
            if h.pos < len(h.items):
                h.pos += 1
                return [(st, h.items[h.pos - 1])]
            if len(args) > 1:
                return [(st, args[1])]
            return [self.raised(st, "StopIteration")]
        if isinstance(it, VRef) and isinstance(st.deref(it), HObj) and st.deref(it).cls[0].startswith("liquid"):
            h = st.deref(it)
            m = load.find_method(h.cls[0], h.cls[1], "__next__")
            if m is not None and len(args) == 1:
                f = VFunc(m[2], load.get_module(m[0]), None, f"{m[1]}.__next__", (m[0], m[1]))
                return self.call_function(st, f, [], {}, self_val=it)
        if not (isinstance(it, VRef) and isinstance(st.deref(it), HIter)):
            raise Unsupported("next() of non-iterator")
        h = st.deref(it)
        if h.live_of is not None:
            self.od_access(st, VRef(h.live_of))
        out = []
        for s, has in self.branch(st, h.pos < z3.Length(h.seq)):
            hh = s.deref(it)
            if has:
                item = unbox(hh.seq[hh.pos])
                hh.pos = hh.pos + 1
                out.append((s, item))
            elif len(args) > 1:
                out.append((s, args[1]))
            else:
                out.append(self.raised(s, "StopIteration"))
        return out

    def b_set(self, st, args, kwargs):
        if not args:
            return [(st, st.alloc(HSet([])))]
        items = self.concrete_items(st, args[0])
        if items is None:
            raise Unsupported("set() of a symbolic iterable")
        return [(st, st.alloc(HSet(list(items))))]

    def m_HSet_add(self, st, ref, args, kwargs):
        st.deref(ref).items.append(args[0])
        st.log.append(("setitem", ref.addr, "add"))
        return [(st, NONE)]

    def m_HSet_discard(self, st, ref, args, kwargs):
        raise Unsupported("set.discard")

    def b_list(self, st, args, kwargs):
        if not args:
            return [(st, st.alloc(HList(items=[])))]
        (v,) = args
        if isinstance(v, VRef) and isinstance(st.deref(v), HIter):
            h = st.deref(v)
            if h.live_of is not None:
                self.od_access(st, VRef(h.live_of))  # consuming a lazy live view reads the dict
            n = z3.Length(h.seq)
            rest = z3.SubSeq(h.seq, h.pos, n - h.pos)
            h.pos = zmax(h.pos, n)
            return [(st, st.alloc(HList(seq=rest)))]
        items = self.concrete_items(st, v)
        if items is not None:
            return [(st, st.alloc(HList(items=list(items))))]
        seq = self.as_seq(st, v)
        if seq is not None:
            return [(st, st.alloc(HList(seq=seq)))]
        if isinstance(v, (VU, VOpaque)):
            out = []
            for s, it in self.b_iter(st, [v], {}):
                out.extend([(s, it)] if isinstance(it, Raised) else self.b_list(s, [it], {}))
            return out
        if isinstance(v, VStr):
            chars = z3.Function("str_chars", S, SeqU)(v.t)
            st.assume(z3.Length(chars) == z3.Length(v.t))
            return [(st, st.alloc(HList(seq=chars)))]
        raise Unsupported(f"list() of {type(v).__name__}")

    def b_tuple(self, st, args, kwargs):
        if not args:
            return [(st, VTuple(()))]
        items = self.concrete_items(st, args[0])
        if items is not None:
            return [(st, VTuple(tuple(items)))]
        seq = self.as_seq(st, args[0])
        if seq is not None:
            return [(st, VSeq(seq, "tuple"))]
        raise Unsupported("tuple() of symbolic")

    def b_dict(self, st, args, kwargs):
        ref = st.alloc(HDict())
        results = [(st, None)]
        for src in args:
            nxt = []
            for s, o in results:
                nxt.extend(self.dict_merge(s, ref, src) if o is None else [(s, o)])
            results = nxt
        for k, v in kwargs.items():
            nxt = []
            for s, o in results:
                nxt.extend(self.set_item(s, ref, const(k), v) if o is None else [(s, o)])
            results = nxt
        return [(s, o if o is not None else ref) for s, o in results]

    def b_reversed(self, st, args, kwargs):
        (v,) = args
        if isinstance(v, VRef) and isinstance(st.deref(v), HODict):
            return self.odict_reversed(st, v, "keys")
        if isinstance(v, VConst) and isinstance(v.py, tuple) and v.py and v.py[0] == "odict-view":
            return self.odict_reversed(st, VRef(v.py[1]), v.py[2])
        items = self.concrete_items(st, v)
        if items is not None:
            return [(st, st.alloc(HIter(self.list_seq(st, st.alloc(HList(items=list(reversed(items))))), z3.IntVal(0))))]
        seq = self.as_seq(st, v)
        if seq is not None and isinstance(v, VRef) and isinstance(st.deref(v), HList):
            rev = z3.Function("seq_reverse", SeqU, SeqU)(seq)
            st.assume(z3.Length(rev) == z3.Length(seq))
            i = fresh("ri", I)
            st.assume(z3.ForAll([i], z3.Implies(z3.And(i >= 0, i < z3.Length(seq)), rev[i] == seq[z3.Length(seq) - 1 - i])))
            return [(st, st.alloc(HIter(rev, z3.IntVal(0))))]
        raise Unsupported(f"reversed() of {type(v).__name__}")

    def b_sorted(self, st, args, kwargs):
        """sorted(xs, key=f): f is called on every item in order (its exceptions propagate); comparing
        the keys may raise TypeError (unorderable) or, for huge ints turned to str elsewhere, nothing
        else; the result is a NEW list holding a permutation of xs (order uninterpreted)"""
        items = self.concrete_items(st, args[0])
        if items is None:
            raise Unsupported("sorted() over a symbolic iterable")
        key = kwargs.get("key")
        states = [(st, [])]
        if key is not None and not isinstance(key, VNone):
            for x in items:
                nxt = []
                for s, acc in states:
                    if isinstance(acc, Raised):
                        nxt.append((s, acc))
                        continue
                    for s2, kv in self.call_value(s, key, [x], {}):
                        nxt.append((s2, kv if isinstance(kv, Raised) else acc + [kv]))
                states = nxt
        out = []
        for s, acc in states:
            if isinstance(acc, Raised):
                out.append((s, acc))
                continue
            ckeys = None
            if acc and len(acc) == len(items) and all(isinstance(k_, VStr) and z3.is_string_value(z3.simplify(k_.t)) for k_ in acc):
                from .solve import _unescape
                import re as _re2
                # code points beyond z3's character range (chr(0x10FFFF)) are kept as the text \u{...}
                ckeys = [_re2.sub(r"\\u\{([0-9a-fA-F]{5,6})\}", lambda m_: chr(int(m_.group(1), 16)), _unescape(z3.simplify(k_.t).as_string())) for k_ in acc]
            if len(items) >= 2 and ckeys is None:
                cond = z3.Function("sorted_unorderable", SeqU, I, B)(self.list_seq(s, s.alloc(HList(items=list(items)))), z3.IntVal(s.world + (1000003 if acc else 0)))
                bad = s.fork().assume(cond)
                if feasible(bad.pc):
                    out.append(self.raised(bad, "TypeError", "'<' not supported between instances"))
                s = s.assume(z3.Not(cond))
            if len(items) <= 1:
                out.append((s, s.alloc(HList(items=list(items)))))
            elif ckeys is not None:
                # every key is a CONSTANT string: the order is decided (stable sort by code points,
                # as CPython compares str)
                order = sorted(range(len(items)), key=lambda j: ckeys[j], reverse=bool(concrete(kwargs.get("reverse", const(False)))[1]))
                out.append((s, s.alloc(HList(items=[items[j] for j in order]))))
            else:
                perm = z3.Function("sorted_perm", SeqU, I, SeqU)(self.list_seq(s, s.alloc(HList(items=list(items)))), z3.IntVal(s.world))
                s.assume(z3.Length(perm) == len(items))
                out.append((s, s.alloc(HList(seq=perm))))
        return out

    def b_enumerate(self, st, args, kwargs):
        start_v = args[1] if len(args) > 1 else kwargs.get("start", const(0))
        ok_s, start = concrete(start_v)
        if not ok_s or not isinstance(start, int):
            raise Unsupported("enumerate with a symbolic start")
        items = self.concrete_items(st, args[0])
        if items is not None:
            return [(st, st.alloc(HList(items=[VTuple((const(i + start), x)) for i, x in enumerate(items)])))]
        if self.as_seq(st, args[0]) is not None and len(args) == 1 and start == 0 and not kwargs:
            return [(st, VConst(("enumerate", args[0])))]
        raise Unsupported("enumerate over symbolic iterable")

    def b_zip(self, st, args, kwargs):
        lists = [self.concrete_items(st, a) for a in args]
        if all(x is not None for x in lists):
            return [(st, st.alloc(HList(items=[VTuple(t) for t in zip(*lists)])))]
        raise Unsupported("zip over symbolic iterables")

    def b_itertools_chain(self, st, args, kwargs):
        """chain(a, b, ...): the items of a, then of b ... (concrete spines: an iterator over
        their concatenation; otherwise the concatenated symbolic sequence)"""
        spines = [self.concrete_items(st, a) for a in args]
        if all(sp is not None for sp in spines):
            return [(st, st.alloc(HCIter([x for sp in spines for x in sp])))]
        seqs = []
        for a, sp in zip(args, spines):
            if sp is not None:
                seqs.extend(z3.Unit(box(x)) for x in sp)
            else:
                sq = self.as_seq(st, a)
                if sq is None:
                    raise Unsupported("itertools.chain over a non-sequence")
                seqs.append(sq)
        whole = seqs[0] if len(seqs) == 1 else z3.Concat(*seqs)
        return [(st, st.alloc(HIter(whole, z3.IntVal(0))))]

    def b_itertools_zip_longest(self, st, args, kwargs):
        lists = [self.concrete_items(st, a) for a in args]
        if any(x is None for x in lists):
            raise Unsupported("zip_longest over symbolic iterables")
        fill = kwargs.get("fillvalue", NONE)
        n = max((len(x) for x in lists), default=0)
        rows = [VTuple(tuple(x[i] if i < len(x) else fill for x in lists)) for i in range(n)]
        return [(st, st.alloc(HList(items=rows)))]

    def b_range(self, st, args, kwargs):
        vals = [concrete(a) for a in args]
        if all(ok for ok, _ in vals) and len(vals) <= 2 and all(isinstance(p, int) and abs(p) < 64 for _, p in vals):
            return [(st, st.alloc(HList(items=[const(i) for i in range(*[p for _, p in vals])])))]
        terms = [self.num_term(a) for a in args]
        if any(t is None for t in terms):
            return [self.raised(st, "TypeError", "range() integer argument expected")]
        if len(terms) == 1:
            return [(st, VRange(z3.IntVal(0), terms[0]))]
        if len(terms) == 2:
            return [(st, VRange(terms[0], terms[1]))]
        raise Unsupported("range with step")

    def _mapping_mixin_view(self, st, obj, what):
        """items()/keys()/values() of a repo class deriving from collections.abc.Mapping: the view
        lists what the class's own __iter__ yields (and __getitem__ of each key)"""
        h = st.deref(obj)
        it = load.find_method(h.cls[0], h.cls[1], "__iter__")
        if it is None:
            raise Unsupported("Mapping without __iter__")
        f = VFunc(it[2], load.get_module(it[0]), None, f"{it[1]}.__iter__", (it[0], it[1]))
        out = []
        for s, r in self.call_function(st, f, [], {}, self_val=obj):
            if isinstance(r, Raised):
                out.append((s, r))
                continue
            keys = self.concrete_items(s, r)
            if keys is None:
                raise Unsupported("Mapping mixin view over a symbolic key iterator")
            if what == "keys":
                out.append((s, s.alloc(HList(items=list(keys)))))
                continue
            states = [(s, [])]
            for k in keys:
                nxt = []
                for s2, acc in states:
                    for s3, v in self.get_item(s2, obj, k):
                        nxt.append((s3, v if isinstance(v, Raised) else acc + [VTuple((k, v)) if what == "items" else v]))
                states = nxt
            for s2, acc in states:
                out.append((s2, acc if isinstance(acc, Raised) else s2.alloc(HList(items=acc))))
        self.model_notes = getattr(self, "model_notes", set())
        self.model_notes.add("collections.abc.Mapping mixin: items()/keys()/values() of a Mapping subclass list its __iter__ keys and __getitem__ values")
        return out

    def m_MappingMixin_items(self, st, obj, args, kwargs):
        return self._mapping_mixin_view(st, obj, "items")

    def m_MappingMixin_keys(self, st, obj, args, kwargs):
        return self._mapping_mixin_view(st, obj, "keys")

    def m_MappingMixin_values(self, st, obj, args, kwargs):
        return self._mapping_mixin_view(st, obj, "values")

    def mapping_view_seq(self, st, it):
        """`x.items()` / `x.keys()` / `x.values()` of an opaque data object x: a sequence with
        len(x) entries, and bool(x) == (len(x) > 0) (collections.abc.Mapping; trusted data model)"""
        if not isinstance(it, VOpaque) or not z3.is_app(it.t) or it.t.decl().name() != "opq$call:value":
            return None
        inner = it.t.arg(0)
        if not (z3.is_app(inner) and inner.decl().name() in ("attr$items", "attr$keys", "attr$values")):
            return None
        x, w = inner.arg(0), inner.arg(1)
        n = z3.Function("ref_len", U, I, I)(x, w)
        seq = z3.Function("view$" + inner.decl().name()[5:], U, I, SeqU)(x, w)
        st.assume(n >= 0)
        st.assume(z3.Length(seq) == n)
        st.assume(z3.Function("ref_truthy", I, I, B)(U.r(x), w) == (n > 0))
        self.model_notes = getattr(self, "model_notes", set())
        self.model_notes.add("collections.abc.Mapping data model: bool(m) == (len(m) > 0) and m.items() has len(m) entries")
        return seq

    def b_itertools_islice(self, st, args, kwargs):
        """islice(it, start, stop): ValueError unless start/stop are None or 0 <= x <= maxsize"""
        it = args[0]
        if len(args) == 2:
            start, stop = const(0), args[1]
        else:
            start, stop = args[1], args[2]
        if len(args) > 3:
            raise Unsupported("islice step")
        seq = None
        pos = z3.IntVal(0)
        if isinstance(it, VRef) and isinstance(st.deref(it), HIter):
            h = st.deref(it)
            seq, pos = h.seq, h.pos
        else:
            seq = self.as_seq(st, it)
            if seq is None:
                items = self.concrete_items(st, it)
                if items is None:
                    seq = self.mapping_view_seq(st, it)
                    if seq is None:
                        raise Unsupported("islice over unknown iterable")
                else:
                    seq = self.list_seq(st, st.alloc(HList(items=items)))
        maxsize = z3.IntVal(2**63 - 1)

        def bound(v):
            if isinstance(v, VNone):
                return None, z3.BoolVal(True)
            t = self.num_term(v)
            if t is None:
                raise Unsupported("islice bound type")
            return t, z3.And(t >= 0, t <= maxsize)

        a, oka = bound(start)
        b, okb = bound(stop)
        out = []
        for s, ok in self.branch(st, z3.And(oka, okb)):
            if not ok:
                out.append(self.raised(s, "ValueError", "Indices for islice() must be None or an integer: 0 <= x <= sys.maxsize."))
                continue
            rest = z3.SubSeq(seq, pos, z3.Length(seq) - pos)
            n = z3.Length(rest)
            lo = zmin(a if a is not None else z3.IntVal(0), n)
            hi = zmin(b, n) if b is not None else n
            res = z3.SubSeq(rest, lo, zmax(hi - lo, z3.IntVal(0)))
            out.append((s, s.alloc(HIter(res, z3.IntVal(0)))))
        return out

    def b_functools_reduce(self, st, args, kwargs):
        """reduce(mul, (x.length for x in seq), init) -> init * prod_length(seq)"""
        fn, gen = args[0], args[1]
        init = args[2] if len(args) > 2 else None
        if not (isinstance(fn, VBuiltin) and fn.name == "operator.mul"):
            raise Unsupported("reduce with a function other than operator.mul")
        if init is None:
            raise Unsupported("reduce without initial value")
        it = self.num_term(init)
        items = self.concrete_items(st, gen)
        if items is not None:
            acc = it
            for x in items:
                acc = acc * self.num_term(x)
            return [(st, VInt(acc))]
        maps = st.ghost.get("__maps__", {})
        if isinstance(gen, VRef) and isinstance(st.deref(gen), HList) and st.deref(gen).seq is not None:
            g = st.deref(gen)
            seq = g.seq
            if z3.is_app(seq) and seq.decl().name() in maps:
                elt, src = maps[seq.decl().name()]
                if elt.endswith(".length"):
                    acc = it * prodlen(src)
                    for x in g.tail:
                        t = self.num_term(x)
                        if t is None:
                            raise Unsupported("reduce(mul) over non-int element")
                        acc = acc * t
                    return [(st, VInt(acc))]
        raise Unsupported("reduce over this iterable")

    def b_sum(self, st, args, kwargs):
        gen = args[0]
        items = self.concrete_items(st, gen)
        if items is not None:
            if all(self.num_term(x) is not None for x in items):
                acc = z3.IntVal(0)
                for x in items:
                    acc = acc + self.num_term(x)
                return [(st, VInt(acc))]
            # mixed operands (int / Decimal / float ...): fold with Python's `+`, left to right from 0
            states = [(st, const(0))]
            for x in items:
                nxt = []
                for s, acc in states:
                    if isinstance(acc, Raised):
                        nxt.append((s, acc))
                    else:
                        nxt.extend(self.binop(s, ast.Add(), acc, x))
                states = nxt
            return states
        if isinstance(gen, VRef) and isinstance(st.deref(gen), HList) and st.deref(gen).seq is not None:
            seq = self.list_seq(st, gen)
            f = z3.Function("sum_ints", SeqU, I)
            return [(st, VInt(f(seq)))]
        raise Unsupported("sum over this iterable")

    def b_any(self, st, args, kwargs):
        items = self.concrete_items(st, args[0])
        if items is None:
            raise Unsupported("any over symbolic iterable")
        return [(st, VBool(z3.Or(*[self.truth(st, x) for x in items]) if items else z3.BoolVal(False)))]

    def b_all(self, st, args, kwargs):
        items = self.concrete_items(st, args[0])
        if items is None:
            raise Unsupported("all over symbolic iterable")
        return [(st, VBool(z3.And(*[self.truth(st, x) for x in items]) if items else z3.BoolVal(True)))]

    def b_sys_getsizeof(self, st, args, kwargs):
        f = z3.Function("getsizeof", U, I)
        n = f(box(args[0]))
        st.assume(n >= 0)
        return [(st, VInt(n))]

    def b_sys_intern(self, st, args, kwargs):
        return [(st, args[0])]

    # ------------------------------------------------------------ str methods

    def _s(self, v):
        if isinstance(v, VConst) and isinstance(v.py, tuple) and v.py and v.py[0] == "bytes-of":
            return v.py[1].t
        if not isinstance(v, VStr):
            raise Unsupported(f"string method argument is not a str ({type(v).__name__})")
        return v.t

    def _str_uf(self, name, t, py):
        """an uninterpreted str->str library function; on a CONSTANT text it is its CPython value"""
        c = z3.simplify(t)
        if z3.is_app(c) and c.decl().kind() == z3.Z3_OP_ITE:
            return z3.If(c.arg(0), self._str_uf(name, c.arg(1), py), self._str_uf(name, c.arg(2), py))
        if z3.is_string_value(c):
            from .solve import _unescape

            try:
                return z3.StringVal(py(_unescape(c.as_string())))
            except Exception:  # noqa: BLE001
                pass
        return z3.Function(name, S, S)(t)

    def m_str_lower(self, st, sv, args, kwargs):
        return [(st, VStr(self._str_uf("str_lower", sv.t, lambda x: x.lower())))]

    def m_str_upper(self, st, sv, args, kwargs):
        return [(st, VStr(self._str_uf("str_upper", sv.t, lambda x: x.upper())))]

    def m_str_capitalize(self, st, sv, args, kwargs):
        return [(st, VStr(self._str_uf("str_capitalize", sv.t, lambda x: x.capitalize())))]

    def m_str_strip(self, st, sv, args, kwargs):
        if args and not isinstance(args[0], VNone):
            # strip(chars): a different function of the text (only the given characters are removed)
            return [(st, VStr(z3.Function("str_strip_chars", S, S, S)(sv.t, self._s(args[0]))))]
        return [(st, VStr(z3.Function("str_strip", S, S)(sv.t)))]

    def m_str_lstrip(self, st, sv, args, kwargs):
        if args and not isinstance(args[0], VNone):
            # lstrip(chars): a different function of the text (only the given characters are removed)
            return [(st, VStr(z3.Function("str_lstrip_chars", S, S, S)(sv.t, self._s(args[0]))))]
        return [(st, VStr(z3.Function("str_lstrip", S, S)(sv.t)))]

    def m_str_rstrip(self, st, sv, args, kwargs):
        if args and not isinstance(args[0], VNone):
            # rstrip(chars): a different function of the text (only the given characters are removed)
            return [(st, VStr(z3.Function("str_rstrip_chars", S, S, S)(sv.t, self._s(args[0]))))]
        return [(st, VStr(z3.Function("str_rstrip", S, S)(sv.t)))]

    def m_str_startswith(self, st, sv, args, kwargs):
        return [(st, VBool(z3.PrefixOf(self._s(args[0]), sv.t)))]

    def m_str_endswith(self, st, sv, args, kwargs):
        return [(st, VBool(z3.SuffixOf(self._s(args[0]), sv.t)))]

    def m_str_isdigit(self, st, sv, args, kwargs):
        return [(st, VBool(z3.Function("str_isdigit", S, B)(sv.t)))]

    def m_str_isspace(self, st, sv, args, kwargs):
        return [(st, VBool(z3.Function("str_isspace", S, B)(sv.t)))]

    def m_str_encode(self, st, sv, args, kwargs):
        return [(st, VConst(("bytes-of", sv)))]

    def m_str_join(self, st, sv, args, kwargs):
        items = self.concrete_items(st, args[0])
        if items is None:
            seq = self.as_seq(st, args[0])
            if seq is None:
                raise Unsupported("join over unknown iterable")
            return [(st, VStr(z3.Function("str_join", S, SeqU, S)(sv.t, seq)))]
        if not all(isinstance(x, VStr) for x in items):
            if any(isinstance(x, (VInt, VBool, VNone, VFlt)) for x in items):
                return [self.raised(st, "TypeError", "sequence item: expected str instance")]
            raise Unsupported("join of non-str items")
        if not items:
            return [(st, VStr(z3.StringVal("")))]
        parts = []
        for i, x in enumerate(items):
            if i:
                parts.append(sv.t)
            parts.append(x.t)
        return [(st, VStr(parts[0] if len(parts) == 1 else z3.Concat(*parts)))]

    def m_str_replace(self, st, sv, args, kwargs):
        if len(args) == 3:
            n = self.num_term(args[2])
            return [(st, VStr(z3.Function("str_replace_n", S, S, S, I, S)(sv.t, self._s(args[0]), self._s(args[1]), n)))]
        return [(st, VStr(z3.Function("str_replace_all", S, S, S, S)(sv.t, self._s(args[0]), self._s(args[1]))))]

    def m_str_format(self, st, sv, args, kwargs):
        boxed = []
        for a in list(args) + list(kwargs.values()):
            for _s2, r in self.to_str(st, a):
                boxed.append(r.t if not isinstance(r, Raised) else z3.StringVal("?"))
        f = z3.Function(f"str_format{len(boxed)}", S, *[S] * len(boxed), S)
        return [(st, VStr(f(sv.t, *boxed)))]

    def str_percent(self, st, fmt, arg):
        """printf-style formatting: see C26; modelled as uninterpreted with a wellformedness
        predicate; raises ValueError/TypeError/KeyError when the format is not wellformed."""
        # a CONSTANT format made only of literal text, `%%` and `%(name)s`, applied to a dict with
        # constant keys, is computed exactly (CPython: '%(k)s' % d == str(d[k]); '%%' is '%')
        cf = z3.simplify(fmt.t)
        h0 = st.deref(arg) if isinstance(arg, VRef) else None
        is_map_obj = isinstance(h0, HObj) and h0.cls[0].startswith("liquid") and load.find_method(h0.cls[0], h0.cls[1], "__getitem__") is not None
        if z3.is_string_value(cf) and ((isinstance(h0, HDict) and h0.present is None) or is_map_obj):
            import re as _re

            from .solve import _unescape
            text = _unescape(cf.as_string())
            if _re.fullmatch(r"(?:[^%]|%%|%\(\w+\)s)*", text):
                d = h0.items if not is_map_obj else None
                states = [(st, [])]
                for m_ in _re.finditer(r"[^%]+|%%|%\((\w+)\)s", text):
                    nxt = []
                    for s, acc in states:
                        if isinstance(acc, Raised):
                            nxt.append((s, acc))
                        elif m_.group(0) == "%%":
                            nxt.append((s, acc + [z3.StringVal("%")]))
                        elif m_.group(1) is None:
                            nxt.append((s, acc + [z3.StringVal(m_.group(0))]))
                        elif is_map_obj:
                            # a mapping object: its __getitem__ is called with the key, then str()
                            for s1, bound in self.get_attr(s, arg, "__getitem__"):
                                if isinstance(bound, Raised):
                                    nxt.append((s1, bound))
                                    continue
                                for s2, item in self.call_value(s1, bound, [VStr(z3.StringVal(m_.group(1)))], {}):
                                    if isinstance(item, Raised):
                                        nxt.append((s2, item))
                                        continue
                                    for s3, sv in self.to_str(s2, item):
                                        nxt.append((s3, sv if isinstance(sv, Raised) else acc + [sv.t]))
                        elif m_.group(1) not in d:
                            nxt.append(self.raised(s, "KeyError", m_.group(1)))
                        else:
                            for s2, sv in self.to_str(s, d[m_.group(1)]):
                                nxt.append((s2, sv if isinstance(sv, Raised) else acc + [sv.t]))
                    states = nxt
                res = []
                for s, acc in states:
                    if isinstance(acc, Raised):
                        res.append((s, acc))
                    else:
                        res.append((s, VStr(z3.StringVal("") if not acc else (acc[0] if len(acc) == 1 else z3.Concat(*acc)))))
                return res
        wf = z3.Function("printf_wellformed", S, B)(fmt.t)
        out = []
        for s, ok in self.branch(st, wf):
            if ok:
                try:
                    a = box(arg)
                except Unsupported:
                    a = U.ref(z3.IntVal(getattr(arg, "addr", -1)))
                res = VStr(z3.Function("printf", S, U, I, S)(fmt.t, a, z3.IntVal(s.world)))
                h = s.deref(arg) if isinstance(arg, VRef) else None
                if isinstance(h, (HDict, HODict)):
                    # a wellformed format applied to a dict: KeyError unless every %(key)s of the
                    # format is a key of the dict (an uninterpreted relation of format and dict:
                    # nothing is known about it for a symbolic format)
                    s.log.append(("printf", fmt, arg))
                    has_all = z3.Function("printf_keys_in", S, U, I, B)(fmt.t, a, z3.IntVal(s.world))
                    for s2, ok2 in self.branch(s, has_all):
                        out.append((s2, res) if ok2 else self.raised(s2, "KeyError", "printf key"))
                    continue
                if isinstance(h, HObj) and h.cls[0].startswith("liquid") and load.find_method(h.cls[0], h.cls[1], "__getitem__") is not None:
                    # ... applied to a mapping object: its __getitem__ is called for every %(key)s of
                    # the format; executed here for ONE arbitrary key (what it may raise, for any key)
                    s.log.append(("printf", fmt, arg))
                    key = VStr(z3.Function("printf_some_key", S, S)(fmt.t))
                    for s2, bound in self.get_attr(s, arg, "__getitem__"):
                        if isinstance(bound, Raised):
                            out.append((s2, bound))
                            continue
                        for s3, r3 in self.call_value(s2, bound, [key], {}):
                            out.append((s3, r3 if isinstance(r3, Raised) else res))
                    continue
                out.append((s, res))
            else:
                for exc in ("ValueError", "TypeError", "KeyError"):
                    out.append(self.raised(s.fork(), exc, "printf format"))
        return out

    # bytes produced by str.encode: only len() is modelled
    def b_len_bytes(self, sv):
        return utf8len(sv.t)

    # ------------------------------------------------------------ list methods

    def m_HList_append(self, st, ref, args, kwargs):
        h = st.deref(ref)
        st.log.append(("list-mutate", ref.addr))
        if h.items is not None:
            h.items.append(args[0])
        else:
            h.tail.append(args[0])
        return [(st, NONE)]

    def m_HList_pop(self, st, ref, args, kwargs):
        h = st.deref(ref)
        st.log.append(("list-mutate", ref.addr))
        if args:
            raise Unsupported("list.pop(i)")
        if h.items is not None:
            if not h.items:
                return [self.raised(st, "IndexError", "pop from empty list")]
            return [(st, h.items.pop())]
        if h.tail:
            return [(st, h.tail.pop())]
        out = []
        for s, nonempty in self.branch(st, z3.Length(h.seq) > 0):
            hh = s.deref(ref)
            if nonempty:
                n = z3.Length(hh.seq)
                item = unbox(hh.seq[n - 1])
                hh.seq = z3.SubSeq(hh.seq, 0, n - 1)
                out.append((s, item))
            else:
                out.append(self.raised(s, "IndexError", "pop from empty list"))
        return out

    def m_HList_extend(self, st, ref, args, kwargs):
        h = st.deref(ref)
        st.log.append(("list-mutate", ref.addr))
        items = self.concrete_items(st, args[0])
        if h.items is not None and items is not None:
            h.items.extend(items)
            return [(st, NONE)]
        seq = self.as_seq(st, args[0])
        if seq is None:
            raise Unsupported("list.extend with unknown iterable")
        h.seq = z3.Concat(self.list_seq(st, ref), seq)
        h.items = None
        h.tail = []
        return [(st, NONE)]

    def m_HList_count(self, st, ref, args, kwargs):
        h = st.deref(ref)
        if h.items is None:
            raise Unsupported("count on symbolic list")
        acc = z3.IntVal(0)
        for x in h.items:
            for _s, r in self.py_eq(st, x, args[0]):
                acc = acc + z3.If(r, 1, 0)
        return [(st, VInt(acc))]

    def m_HList_index(self, st, ref, args, kwargs):
        """list.index(x): position of the first item equal (Python ==) to x, ValueError if none"""
        h = st.deref(ref)
        if h.items is None or len(args) != 1:
            raise Unsupported("index on a symbolic list / with bounds")
        out = []
        pending = [st]
        for i, x in enumerate(list(h.items)):
            nxt = []
            for s in pending:
                for s2, r in self.py_eq(s, x, args[0]):
                    if isinstance(r, Raised):
                        out.append((s2, r))
                        continue
                    for s3, eq in self.branch(s2, r):
                        if eq:
                            out.append((s3, VInt(z3.IntVal(i))))
                        else:
                            nxt.append(s3)
            pending = nxt
        for s in pending:
            out.append(self.raised(s, "ValueError", "x is not in list"))
        return out

    # ------------------------------------------------------------ dict methods

    def m_HDict_get(self, st, ref, args, kwargs):
        default = args[1] if len(args) > 1 else NONE
        out = []
        for s, r in self.dict_get(st, ref, args[0]):
            if isinstance(r, Raised) and r.exc.cls == "KeyError":
                out.append((s, default))
            else:
                out.append((s, r))
        return out

    def m_HDict_clear(self, st, ref, args, kwargs):
        """d.clear(): no key is present afterwards (concrete and symbolic part)"""
        h = st.deref(ref)
        h.items = {}
        h.present = None
        h.val = None
        st.log.append(("delitem", ref.addr, "*"))
        return [(st, NONE)]

    def m_HDict_pop(self, st, ref, args, kwargs):
        """d.pop(key[, default]) on a dict with concrete keys"""
        h = st.deref(ref)
        ok, k = concrete(args[0])
        if not ok or h.present is not None:
            raise Unsupported("pop() with a symbolic key / symbolic dict")
        if k in h.items:
            v = h.items.pop(k)
            return [(st, v)]
        if len(args) > 1:
            return [(st, args[1])]
        return [self.raised(st, "KeyError", str(k))]

    def m_HDict_setdefault(self, st, ref, args, kwargs):
        default = args[1] if len(args) > 1 else NONE
        out = []
        for s, r in self.dict_get(st, ref, args[0]):
            if isinstance(r, Raised) and r.exc.cls == "KeyError":
                for s2, o in self.set_item(s, ref, args[0], default):
                    out.append((s2, o if o is not None else default))
            else:
                out.append((s, r))
        return out

    def m_HDict_items(self, st, ref, args, kwargs):
        h = st.deref(ref)
        if h.present is None:
            return [(st, st.alloc(HList(items=[VTuple((const(k), v)) for k, v in h.items.items()])))]
        raise Unsupported("items() of symbolic dict")

    def m_HDict_values(self, st, ref, args, kwargs):
        h = st.deref(ref)
        if h.present is None:
            return [(st, st.alloc(HList(items=list(h.items.values()))))]
        f = z3.Function("dict_values", z3.ArraySort(U, B), z3.ArraySort(U, U), SeqU)
        return [(st, VSeq(f(h.present, h.val), "list"))]

    def m_HDict_keys(self, st, ref, args, kwargs):
        h = st.deref(ref)
        if h.present is None:
            return [(st, st.alloc(HList(items=[const(k) for k in h.items])))]
        raise Unsupported("keys() of symbolic dict")

    def m_HDict_update(self, st, ref, args, kwargs):
        src = args[0]
        if isinstance(src, VRef) and isinstance(st.deref(src), HDict) and st.deref(src).present is None:
            results = [(st, None)]
            for k, v in st.deref(src).items.items():
                nxt = []
                for s, o in results:
                    nxt.extend(self.set_item(s, ref, const(k), v) if o is None else [(s, o)])
                results = nxt
            return [(s, o if o is not None else NONE) for s, o in results]
        raise Unsupported("dict.update with symbolic source")

    # ------------------------------------------------------------ deque (ReadOnlyChainMap)

    def b_collections_deque(self, st, args, kwargs):
        items = self.concrete_items(st, args[0]) if args else []
        if items is None:
            raise Unsupported("deque of symbolic iterable")
        return [(st, st.alloc(HDeque(list(items))))]

    def m_HDeque_appendleft(self, st, ref, args, kwargs):
        st.deref(ref).items.insert(0, args[0])
        st.log.append(("deque-mutate", ref.addr))
        return [(st, NONE)]

    def m_HDeque_popleft(self, st, ref, args, kwargs):
        h = st.deref(ref)
        st.log.append(("deque-mutate", ref.addr))
        if not h.items:
            return [self.raised(st, "IndexError", "pop from an empty deque")]
        return [(st, h.items.pop(0))]

    def m_HDeque_append(self, st, ref, args, kwargs):
        st.deref(ref).items.append(args[0])
        return [(st, NONE)]

    def m_HDeque_pop(self, st, ref, args, kwargs):
        h = st.deref(ref)
        if not h.items:
            return [self.raised(st, "IndexError", "pop from an empty deque")]
        return [(st, h.items.pop())]

    # ------------------------------------------------------------ math / decimal (DESIGN 3)

    def _ceil_like(self, st, args, name):
        (v,) = args
        n = self.num_term(v)
        if n is not None:
            return [(st, VInt(n))]
        if isinstance(v, VFlt):
            out = []
            for s, nan in self.branch(st, flt_is_nan(v.t)):
                if nan:
                    out.append(self.raised(s, "ValueError", "cannot convert float NaN to integer"))
                    continue
                for s2, inf in self.branch(s, flt_is_inf(v.t)):
                    if inf:
                        out.append(self.raised(s2, "OverflowError", "cannot convert float infinity to integer"))
                    else:
                        out.append((s2, VInt(z3.Function("flt_" + name, Flt, I)(v.t))))
            return out
        if isinstance(v, (VU, VOpaque)):
            out = []
            for s, tv in self.split_tags(st, v):
                if isinstance(tv, (VU, VOpaque)):
                    if self.is_decimal(tv):
                        out.extend(self.opaque_call(s, f"Decimal.__{name}__", [tv], may_raise=("InvalidOperation", "OverflowError", "ValueError"), pure=True))
                    else:
                        out.extend(self.opaque_call(s, f"math.{name}(ref)", [tv], may_raise=("TypeError",), pure=True))
                else:
                    out.extend(self._ceil_like(s, [tv], name))
            return out
        return [self.raised(st, "TypeError", f"must be real number")]

    def b_operator_getitem(self, st, args, kwargs):
        return self.get_item(st, args[0], args[1])

    def b_math_ceil(self, st, args, kwargs):
        return self._ceil_like(st, args, "ceil")

    def b_math_floor(self, st, args, kwargs):
        return self._ceil_like(st, args, "floor")

    def b_round(self, st, args, kwargs):
        if len(args) == 1 or isinstance(args[1], VNone):
            return self._ceil_like(st, args[:1], "round")
        v, nd = args
        out = []
        for s, ndv in self.split_tags(st, nd):
            if self.num_term(ndv) is None:
                out.append(self.raised(s, "TypeError", "ndigits must be an integer"))
                continue
            for s2, tv in self.split_tags(s, v):
                if isinstance(tv, (VInt, VBool)):
                    out.append((s2, VInt(z3.Function("int_round", I, I, I)(self.num_term(tv), self.num_term(ndv)))))
                elif isinstance(tv, VFlt):
                    out.append((s2, VFlt(z3.Function("flt_roundn", Flt, I, Flt)(tv.t, self.num_term(ndv)))))
                elif isinstance(tv, (VU, VOpaque)) and self.is_decimal(tv):
                    out.extend(self.opaque_call(s2, "Decimal.__round__", [tv, ndv], may_raise=("InvalidOperation",), pure=True))
                else:
                    out.append(self.raised(s2, "TypeError", "type doesn't define __round__"))
        return out

    def is_decimal(self, v):
        return z3.is_app(v.t) and v.t.get_id() in self.__dict__.setdefault("_decimals", set())

    def mk_decimal(self, st, name, args, may_raise=()):
        out = []
        for s, r in self.opaque_call(st, name, args, may_raise=may_raise, pure=True):
            if not isinstance(r, Raised):
                s.assume(z3.And(U.is_ref(r.t), z3.Function("ref_isinstance$Decimal", U, B)(r.t)))
                self.__dict__.setdefault("_decimals", set()).add(r.t.get_id())
            out.append((s, r))
        return out

    def b_decimal_Decimal(self, st, args, kwargs):
        (v,) = args
        out = []
        for s, tv in self.split_tags(st, v):
            if isinstance(tv, VStr):
                # malformed text -> InvalidOperation (an ArithmeticError, NOT a ValueError)
                wf = z3.Function("decimal_wellformed", S, B)(tv.t)
                for s2, ok in self.branch(s, wf):
                    if ok:
                        out.extend(self.mk_decimal(s2, "Decimal(str)", [tv]))
                    else:
                        out.append(self.raised(s2, "InvalidOperation", "ConversionSyntax"))
            elif isinstance(tv, (VInt, VBool, VFlt)):
                out.extend(self.mk_decimal(s, "Decimal(num)", [tv]))
            elif isinstance(tv, (VU, VOpaque)) and self.is_decimal(tv):
                out.append((s, tv))
            else:
                out.append(self.raised(s, "TypeError", "conversion to Decimal is not supported"))
        return out

    # ------------------------------------------------------------ markupsafe / html / re / base64

    def b_markupsafe_soft_str(self, st, args, kwargs):
        return self.to_str(st, args[0])

    def b_markupsafe_Markup(self, st, args, kwargs):
        if not args:
            return [(st, VStr(z3.StringVal("")))]
        return self.to_str(st, args[0])

    def b_markupsafe_escape(self, st, args, kwargs):
        return self.bind(self.to_str(st, args[0]), lambda s, v: [(s, VStr(z3.Function("html_escape", S, S)(v.t)))])

    def b_html_escape(self, st, args, kwargs):
        return [(st, VStr(z3.Function("html_escape", S, S)(self._s(args[0]))))]

    def b_re_escape(self, st, args, kwargs):
        # trusted (DESIGN 3): re.escape(s) is a pattern matching exactly the text s
        return [(st, VStr(z3.Function("re_escape", S, S)(self._s(args[0]))))]

    def b_html_unescape(self, st, args, kwargs):
        return [(st, VStr(z3.Function("html_unescape", S, S)(self._s(args[0]))))]

    def m_str_unescape(self, st, sv, args, kwargs):
        return [(st, VStr(z3.Function("html_unescape", S, S)(sv.t)))]

    def m_regex_sub(self, st, rx, args, kwargs):
        repl, text = args[0], args[1]
        if not isinstance(text, VStr):
            return [self.raised(st, "TypeError", "expected string or bytes-like object")]
        if isinstance(repl, (VFunc, VBound)) and z3.is_string_value(z3.simplify(text.t)):
            return self._regex_sub_callable(st, rx, repl, z3.simplify(text.t))
        f = z3.Function("re_sub$" + rx.py[2], S, S, S)
        rt = repl.t if isinstance(repl, VStr) else z3.StringVal("<fn>")
        return [(st, VStr(f(rt, text.t)))]

    def _regex_concrete(self, rx, how, subject):
        """a module-level `re.compile(<constant pattern>)` applied to a CONCRETE text is decided
        by the real `re` module (None if the pattern or the text is not constant)"""
        t = z3.simplify(subject)
        if not z3.is_string_value(t):
            return None
        try:
            import re as _re
            call = ast.parse(rx.py[3], mode="eval").body
            from .flow import const_eval
            mod = load.get_module(rx.py[1])
            pat = const_eval(mod, call.args[0])
            flags = 0
            for a in call.args[1:]:
                flags |= int(eval(ast.unparse(a), {"re": _re}))  # noqa: S307 - flag constants such as re.DOTALL
            return getattr(_re.compile(pat, flags), how)(t.as_string()) is not None
        except Exception:  # noqa: BLE001
            return None

    def _regex_compiled(self, rx):
        import re as _re

        from .flow import const_eval
        call = ast.parse(rx.py[3], mode="eval").body
        mod = load.get_module(rx.py[1])
        pat = const_eval(mod, call.args[0])
        flags = 0
        for a in call.args[1:]:
            flags |= int(eval(ast.unparse(a), {"re": _re}))  # noqa: S307 - flag constants such as re.DOTALL
        return _re.compile(pat, flags)

    def m_regex_findall(self, st, rx, args, kwargs):
        """findall on a CONCRETE text: decided by the real `re` module"""
        t = z3.simplify(self._s(args[0]))
        if not z3.is_string_value(t):
            # a symbolic text: an uninterpreted sequence of strings (nothing is known about which
            # substrings the pattern finds)
            import hashlib

            tag = hashlib.sha1(repr(rx.py).encode()).hexdigest()[:8]
            seq = z3.Function("re_findall$" + tag, S, SeqU)(t)
            k = z3.Int("k!findall")
            st.assume(z3.ForAll([k], z3.Implies(z3.And(k >= 0, k < z3.Length(seq)), U.is_str(seq[k]))))
            return [(st, st.alloc(HList(seq=seq)))]
        from .solve import _unescape
        found = self._regex_compiled(rx).findall(_unescape(t.as_string()))
        return [(st, st.alloc(HList(items=[const(x) if isinstance(x, str) else VTuple(tuple(const(y) for y in x)) for x in found])))]

    def _regex_sub_callable(self, st, rx, repl, text):
        """sub(<callable>, <concrete text>): the real matches, the engine's evaluation of the
        callable on a match record for each, concatenated with the unmatched text in between"""
        from .solve import _unescape
        src = _unescape(text.as_string())
        pieces = [(st, [])]
        pos = 0
        try:
            compiled = self._regex_compiled(rx)
        except Exception:  # noqa: BLE001  (pattern not a constant: abstract model)
            return [(st, VStr(z3.Function("re_sub$" + rx.py[2], S, S, S)(z3.StringVal("<fn>"), text)))]
        for m in compiled.finditer(src):
            lit = src[pos:m.start()]
            pos = m.end()
            groups = {"0": const(m.group(0))}
            for gi, g in enumerate(m.groups(), start=1):
                groups[str(gi)] = const(g) if g is not None else NONE
            for gname, g in m.groupdict().items():
                groups[gname] = const(g) if g is not None else NONE
            nxt = []
            for s, acc in pieces:
                if isinstance(acc, Raised):
                    nxt.append((s, acc))
                    continue
                mo = s.alloc(HObj(("re", "Match"), {"lastgroup": NONE, "__groups__": VConst(groups), "__starts__": VConst({"0": const(m.start())}), "__ends__": VConst({"0": const(m.end())})}, {}, "match"))
                for s2, r in self.call_value(s, repl, [mo], {}):
                    if isinstance(r, Raised):
                        nxt.append((s2, r))
                        continue
                    for s3, tv in self.split_tags(s2, r):
                        if isinstance(tv, VStr):
                            nxt.append((s3, acc + [z3.StringVal(lit), tv.t]))
                        else:
                            nxt.append(self.raised(s3, "TypeError", "expected str instance"))
            pieces = nxt
        out = []
        for s, acc in pieces:
            if isinstance(acc, Raised):
                out.append((s, acc))
            else:
                parts = [p_ for p_ in acc + [z3.StringVal(src[pos:])]]
                out.append((s, VStr(parts[0] if len(parts) == 1 else z3.Concat(*parts))))
        return out

    def _regex_pred(self, st, rx, how, args):
        subject = self._s(args[0])
        known = self._regex_concrete(rx, how, subject)
        if known is not None:
            return [(st, VBool(z3.BoolVal(known)))]
        # otherwise only its truth value is modelled (uninterpreted predicate of the text)
        f = z3.Function(f"re_{how}$" + rx.py[2], S, B)
        return [(st, VBool(f(subject)))]

    def m_regex_fullmatch(self, st, rx, args, kwargs):
        return self._regex_pred(st, rx, "fullmatch", args)

    def m_regex_search(self, st, rx, args, kwargs):
        return self._regex_pred(st, rx, "search", args)

    def m_regex_match(self, st, rx, args, kwargs):
        return self._regex_pred(st, rx, "match", args)

    def _b64(self, st, args, name, decode):
        (v,) = args
        if not isinstance(v, VStr):
            v = VStr(self._s(v))
        if decode:
            # b64decode: binascii.Error on malformed input; the result is bytes
            out = []
            for s, bad in self.branch(st, z3.Function("b64_malformed$" + name, S, B)(self._s(v) if isinstance(v, VStr) else z3.StringVal("?"))):
                if bad:
                    out.append(self.raised(s, "binascii.Error", "Incorrect padding"))
                else:
                    out.append((s, VConst(("bytes-decoded", name, v))))
            return out
        return [(st, VConst(("bytes-encoded", name, v)))]

    def b_base64_b64encode(self, st, args, kwargs):
        return self._b64(st, args, "std", False)

    def b_base64_urlsafe_b64encode(self, st, args, kwargs):
        return self._b64(st, args, "url", False)

    def b_base64_b64decode(self, st, args, kwargs):
        return self._b64(st, args, "std", True)

    def b_base64_urlsafe_b64decode(self, st, args, kwargs):
        return self._b64(st, args, "url", True)

    def m_const_decode(self, st, cv, args, kwargs):
        """bytes.decode(): arbitrary decoded bytes need not be UTF-8"""
        if isinstance(cv.py, tuple) and cv.py[0] == "bytes-decoded":
            src = cv.py[2]
            out = []
            bad = z3.Function("not_utf8$" + cv.py[1], S, B)(src.t)
            for s, b_ in self.branch(st, bad):
                if b_:
                    out.append(self.raised(s, "UnicodeDecodeError", "invalid start byte"))
                else:
                    out.append((s, VStr(z3.Function("b64decoded$" + cv.py[1], S, S)(src.t))))
            return out
        if isinstance(cv.py, tuple) and cv.py[0] == "bytes-encoded":
            return [(st, VStr(z3.Function("b64encoded$" + cv.py[1], S, S)(cv.py[2].t)))]
        raise Unsupported("bytes.decode on this value")

    def b_urllib_parse_quote_plus(self, st, args, kwargs):
        return [(st, VStr(z3.Function("quote_plus", S, S)(self._s(args[0]))))]

    def b_urllib_parse_unquote_plus(self, st, args, kwargs):
        return [(st, VStr(z3.Function("unquote_plus", S, S)(self._s(args[0]))))]

    def m_str_splitlines(self, st, sv, args, kwargs):
        """splitlines(keepends=True): the lines concatenate to the string and none is empty
        (DESIGN 3); modelled as an uninterpreted sequence with its prefix-sum function"""
        keep = kwargs.get("keepends", args[0] if args else const(False))
        ok, kv = concrete(keep)
        if not ok or not kv:
            raise Unsupported("splitlines without keepends=True")
        seq = z3.Function("splitlines_keepends", S, SeqU)(sv.t)
        return [(st, st.alloc(HList(seq=seq)))]

    def m_str_split(self, st, sv, args, kwargs):
        sep = args[0] if args else NONE
        if isinstance(sep, VStr):
            out = []
            for s, empty in self.branch(st, z3.Length(sep.t) == 0):
                if empty:
                    out.append(self.raised(s, "ValueError", "empty separator"))
                else:
                    sq = z3.Function("str_split", S, S, SeqU)(sv.t, sep.t)
                    # s.split(sep) with a non-empty separator always has at least one piece, and the
                    # pieces are strings (CPython: ''.split(',') == [''])
                    s.assume(z3.Length(sq) >= 1)
                    s.assume(U.is_str(sq[0]))
                    out.append((s, s.alloc(HList(seq=sq))))
            return out
        return [(st, st.alloc(HList(seq=z3.Function("str_split_ws", S, SeqU)(sv.t))))]

    def m_str_rpartition(self, st, sv, args, kwargs):
        sep = self._s(args[0])
        out = []
        for s, empty in self.branch(st, z3.Length(sep) == 0):
            if empty:
                out.append(self.raised(s, "ValueError", "empty separator"))
            else:
                i = z3.Function("str_rindex", S, S, I)(sv.t, sep)
                found = z3.Contains(sv.t, sep)
                before = z3.If(found, z3.SubString(sv.t, 0, i), z3.StringVal(""))
                mid = z3.If(found, sep, z3.StringVal(""))
                after = z3.If(found, z3.SubString(sv.t, i + z3.Length(sep), z3.Length(sv.t)), sv.t)
                s.assume(z3.Implies(found, z3.And(i >= 0, i + z3.Length(sep) <= z3.Length(sv.t))))
                out.append((s, VTuple((VStr(before), VStr(mid), VStr(after)))))
        return out

    # ------------------------------------------------------------ re.Match model (DESIGN 3)
    # a match object m of a compiled pattern on a subject string: group texts and offsets are
    # uninterpreted functions of (m, group name); which text a pattern matches is NOT modelled.

    def m_Match_group(self, st, m, args, kwargs):
        h = st.deref(m)
        g = "0"
        if args:
            ok, gv = concrete(args[0])
            if not ok:
                raise Unsupported("match.group with symbolic name")
            g = str(gv)
        if g in h.fields.get("__groups__", VConst({})).py:
            return [(st, h.fields["__groups__"].py[g])]
        return [(st, VStr(z3.Function("match_group", I, S, S)(z3.IntVal(m.addr), z3.StringVal(g))))]

    def m_Match_start(self, st, m, args, kwargs):
        g = "0"
        if args:
            ok, gv = concrete(args[0])
            g = str(gv)
        h = st.deref(m)
        if g in h.fields.get("__starts__", VConst({})).py:
            return [(st, h.fields["__starts__"].py[g])]
        return [(st, VInt(z3.Function("match_start", I, S, I)(z3.IntVal(m.addr), z3.StringVal(g))))]

    def m_Match_end(self, st, m, args, kwargs):
        g = "0"
        if args:
            ok, gv = concrete(args[0])
            g = str(gv)
        h = st.deref(m)
        if g in h.fields.get("__ends__", VConst({})).py:
            return [(st, h.fields["__ends__"].py[g])]
        return [(st, VInt(z3.Function("match_end", I, S, I)(z3.IntVal(m.addr), z3.StringVal(g))))]

    # ------------------------------------------------------------ pathlib model (DESIGN 3)
    # a path is an opaque value with: name, suffix, is_absolute, "has a '..' part";
    # joinpath(base, q) stays inside base iff q is relative and has no '..' part.

    P_NAME = z3.Function("path_name", U, S)
    P_SUFFIX = z3.Function("path_suffix", U, S)
    P_ABS = z3.Function("path_is_absolute", U, B)
    P_PARDIR = z3.Function("path_has_pardir_part", U, B)
    P_JOIN = z3.Function("path_join", U, U, U)
    P_WITH_SUFFIX = z3.Function("path_with_suffix", U, S, U)
    P_OF_STR = z3.Function("path_of_str", S, U)

    def is_path(self, v):
        return isinstance(v, (VU, VOpaque)) and z3.is_app(v.t) and v.t.get_id() in self.__dict__.setdefault("_paths", set())

    def mk_path(self, st, term):
        self.__dict__.setdefault("_paths", set()).add(term.get_id())
        st.assume(U.is_ref(term))
        return VOpaque(term, "path")

    def b_pathlib_Path(self, st, args, kwargs):
        (v,) = args
        if self.is_path(v):
            return [(st, v)]
        if isinstance(v, (VU, VOpaque)):
            out = []
            for s, tv in self.split_tags(st, v):
                if isinstance(tv, VStr):
                    out.extend(self.b_pathlib_Path(s, [tv], {}))
                else:
                    out.append(self.raised(s, "TypeError", "expected str, bytes or os.PathLike object"))
            return out
        if not isinstance(v, VStr):
            return [self.raised(st, "TypeError", "expected str, bytes or os.PathLike object")]
        return [(st, self.mk_path(st, self.P_OF_STR(v.t)))]

    def path_attr(self, st, p, name):
        if name == "name":
            return [(st, VStr(self.P_NAME(p.t)))]
        if name == "suffix":
            return [(st, VStr(self.P_SUFFIX(p.t)))]
        if name == "parts":
            return [(st, VConst(("path-parts", p)))]
        return [(st, VBuiltin(f"Path.{name}", p))]

    def m_Path_is_absolute(self, st, p, args, kwargs):
        return [(st, VBool(self.P_ABS(p.t)))]

    def m_Path_with_suffix(self, st, p, args, kwargs):
        suf = self._s(args[0])
        out = []
        for s, empty in self.branch(st, z3.Length(self.P_NAME(p.t)) == 0):
            if empty:
                out.append(self.raised(s, "ValueError", "path has an empty name"))
                continue
            q = self.P_WITH_SUFFIX(p.t, suf)
            # with_suffix only rewrites the last component's suffix
            s.assume(z3.And(self.P_ABS(q) == self.P_ABS(p.t), self.P_PARDIR(q) == self.P_PARDIR(p.t), z3.Length(self.P_NAME(q)) > 0))
            out.append((s, self.mk_path(s, q)))
        return out

    def m_Path_joinpath(self, st, p, args, kwargs):
        q = args[0]
        if isinstance(q, VStr):
            qt = z3.simplify(q.t)
            if z3.is_app(qt) and qt.decl().name() == "path_str":
                q = self.mk_path(st, qt.arg(0))  # Path(str(p)) == p
            else:
                q = self.mk_path(st, self.P_OF_STR(q.t))
        return [(st, self.mk_path(st, self.P_JOIN(p.t, q.t)))]

    def _path_fs_bool(self, st, p, name, raising=("OSError",)):
        out = []
        for s, r in self.opaque_call(st, f"Path.{name}", [p], may_raise=raising):
            out.append((s, r if isinstance(r, Raised) else VBool(self.truth(s, r))))
        return out

    def m_Path_exists(self, st, p, args, kwargs):
        return self._path_fs_bool(st, p, "exists")

    def m_Path_is_file(self, st, p, args, kwargs):
        return self._path_fs_bool(st, p, "is_file")

    def m_Path_is_symlink(self, st, p, args, kwargs):
        return self._path_fs_bool(st, p, "is_symlink")

    def m_Path_is_dir(self, st, p, args, kwargs):
        return self._path_fs_bool(st, p, "is_dir")

    def m_Path_resolve(self, st, p, args, kwargs):
        # kwargs: strict=False is the default; strict=True could only add FileNotFoundError (an
        # OSError, already among the modelled outcomes)
        out = []
        for s, r in self.opaque_call(st, "Path.resolve", [p], may_raise=("OSError",)):
            out.append((s, r if isinstance(r, Raised) else self.mk_path(s, r.t)))
        return out

    def m_Path_is_relative_to(self, st, p, args, kwargs):
        return [(st, VBool(z3.Function("path_is_relative_to", U, U, B)(p.t, args[0].t)))]

    def m_Path_read_text(self, st, p, args, kwargs):
        out = []
        mr = () if getattr(self.config, "files_readable", False) else ("OSError", "UnicodeDecodeError")
        for s, r in self.opaque_call(st, "Path.read_text", [p], may_raise=mr):
            out.append((s, r if isinstance(r, Raised) else VStr(z3.Function("file_text", U, I, S)(p.t, z3.IntVal(s.world)))))
        return out

    def m_Path_stat(self, st, p, args, kwargs):
        out = []
        for s, r in self.opaque_call(st, "Path.stat", [p], may_raise=("OSError",)):
            if not isinstance(r, Raised):
                s.assume(U.is_ref(r.t))  # an os.stat_result object
            out.append((s, r))
        return out

    # ------------------------------------------------------------ probes / io

    def b___probe__(self, st, args, kwargs):
        """contract-side observation point: snapshots the state under ghost['probe']"""
        snaps = list(st.ghost.get("probes", []))
        snap = st.fork()
        snaps.append(snap)
        st.ghost["probes"] = snaps
        return [(st, NONE)]

    def b_io_StringIO(self, st, args, kwargs):
        h = HObj(("io", "StringIO"), {"__text__": VStr(z3.StringVal(""))}, {}, "StringIO")
        return [(st, st.alloc(h))]

    def m_StringIO_write(self, st, ref, args, kwargs):
        (sv,) = args
        h = st.deref(ref)
        out = []
        for s, tv in self.split_tags(st, sv):
            if not isinstance(tv, VStr):
                out.append(self.raised(s, "TypeError", "string argument expected"))
                continue
            hh = s.deref(ref)
            old = hh.fields.get("__text__", VStr(z3.StringVal("")))
            hh.fields["__text__"] = VStr(z3.Concat(old.t, tv.t))
            s.log.append(("write", ref.addr, tv.t))
            out.append((s, VInt(z3.Length(tv.t))))
        return out

    def m_StringIO_getvalue(self, st, ref, args, kwargs):
        return [(st, st.deref(ref).fields.get("__text__", VStr(z3.StringVal(""))))]

    def b_contextlib_suppress(self, st, args, kwargs):
        return [(st, VConst(("suppress", tuple(args))))]

    def m_const_get(self, st, cv, args, kwargs):
        """<module-level dict literal keyed by classes>.get(cls[, default])"""
        if isinstance(cv, VConst) and isinstance(cv.py, tuple) and cv.py and cv.py[0] == "global" and isinstance(args[0], (VClass, VExcClass)):
            mod = load.get_module(cv.py[1])
            lit = mod.consts.get(cv.py[2])
            if isinstance(lit, ast.Dict):
                hit = self.class_table_lookup(mod, lit, args[0])
                return [(st, hit if hit is not None else (args[1] if len(args) > 1 else NONE))]
        raise Unsupported(f"method const.get on {cv!r}")

    def b_asyncio_get_running_loop(self, st, args, kwargs):
        return [(st, VConst(("asyncio-loop",)))]

    def m_const_run_in_executor(self, st, cv, args, kwargs):
        # await loop.run_in_executor(executor, f, *args) == f(*args) (await erased; DESIGN 3)
        if not (isinstance(cv, VConst) and cv.py == ("asyncio-loop",)):
            raise Unsupported("run_in_executor on unknown object")
        return self.call_value(st, args[1], list(args[2:]), {})

    def b_functools_partial(self, st, args, kwargs):
        return [(st, VConst(("partial", args[0], tuple(args[1:]), tuple(kwargs.items()))))]

    def b_collections_defaultdict(self, st, args, kwargs):
        # only used as an empty per-context table (tag_namespace["extends"])
        return [(st, st.alloc(HDict()))]

    # ------------------------------------------------------------ threading.Lock

    def b_threading_Lock(self, st, args, kwargs):
        return [(st, st.alloc(HCell("Lock", {"held": False})))]

    # ------------------------------------------------------------ OrderedDict model

    def b_collections_OrderedDict(self, st, args, kwargs):
        if args or kwargs:
            raise Unsupported("OrderedDict(...) with arguments")
        h = HODict(z3.K(U, z3.BoolVal(False)), z3.K(U, U.none), z3.K(U, z3.IntVal(0)), z3.IntVal(0), z3.IntVal(1))
        return [(st, st.alloc(h))]

    def od_access(self, st, ref):
        """lock-discipline hook (C24): record every access to the OrderedDict"""
        held = any(isinstance(o, HCell) and o.kind == "Lock" and o.data.get("held") for o in st.heap.values())
        st.log.append(("od-access", ref.addr, held))

    def odict_get(self, st, ref, key):
        self.od_access(st, ref)
        h = st.deref(ref)
        kb = box(key)
        out = []
        for s, pres in self.branch(st, z3.Select(h.present, kb)):
            if pres:
                out.append((s, unbox(z3.Select(s.deref(ref).val, kb))))
            else:
                out.append(self.raised(s, "KeyError", "key"))
        return out

    def odict_set(self, st, ref, key, val):
        self.od_access(st, ref)
        kb = box(key)
        out = []
        h0 = st.deref(ref)
        for s, pres in self.branch(st, z3.Select(h0.present, kb)):
            h = s.deref(ref)
            if pres:
                h.val = z3.Store(h.val, kb, box(val))
            else:
                h.present = z3.Store(h.present, kb, True)
                h.val = z3.Store(h.val, kb, box(val))
                h.rank = z3.Store(h.rank, kb, h.nxt)
                h.nxt = h.nxt + 1
                h.n = h.n + 1
            s.log.append(("od-write", ref.addr))
            out.append((s, None))
        return out

    def odict_del(self, st, ref, key):
        self.od_access(st, ref)
        kb = box(key)
        out = []
        h0 = st.deref(ref)
        for s, pres in self.branch(st, z3.Select(h0.present, kb)):
            h = s.deref(ref)
            if pres:
                h.present = z3.Store(h.present, kb, False)
                h.n = h.n - 1
                s.log.append(("od-write", ref.addr))
                out.append((s, None))
            else:
                out.append(self.raised(s, "KeyError", "key"))
        return out

    def m_HODict_move_to_end(self, st, ref, args, kwargs):
        self.od_access(st, ref)
        if len(args) > 1 or kwargs:
            raise Unsupported("move_to_end(last=...)")
        kb = box(args[0])
        out = []
        h0 = st.deref(ref)
        for s, pres in self.branch(st, z3.Select(h0.present, kb)):
            h = s.deref(ref)
            if pres:
                h.rank = z3.Store(h.rank, kb, h.nxt)
                h.nxt = h.nxt + 1
                s.log.append(("od-write", ref.addr))
                out.append((s, NONE))
            else:
                out.append(self.raised(s, "KeyError", "key"))
        return out

    def m_HODict_popitem(self, st, ref, args, kwargs):
        self.od_access(st, ref)
        last = kwargs.get("last", args[0] if args else const(True))
        ok, lastv = concrete(last)
        if not ok:
            raise Unsupported("popitem(last=symbolic)")
        out = []
        h0 = st.deref(ref)
        for s, nonempty in self.branch(st, h0.n > 0):
            h = s.deref(ref)
            if not nonempty:
                out.append(self.raised(s, "KeyError", "dictionary is empty"))
                continue
            k = fresh("popkey", U)
            j = fresh("j", U)
            s.assume(z3.Select(h.present, k))
            if lastv:
                s.assume(z3.ForAll([j], z3.Implies(z3.Select(h.present, j), z3.Select(h.rank, j) <= z3.Select(h.rank, k))))
            else:
                s.assume(z3.ForAll([j], z3.Implies(z3.Select(h.present, j), z3.Select(h.rank, j) >= z3.Select(h.rank, k))))
            v = z3.Select(h.val, k)
            h.present = z3.Store(h.present, k, False)
            h.n = h.n - 1
            s.ghost["popped"] = k
            s.log.append(("od-write", ref.addr))
            out.append((s, VTuple((unbox(k), unbox(v)))))
        return out

    def m_HODict_get(self, st, ref, args, kwargs):
        default = args[1] if len(args) > 1 else NONE
        out = []
        for s, r in self.odict_get(st, ref, args[0]):
            if isinstance(r, Raised) and r.exc.cls == "KeyError":
                out.append((s, default))
            else:
                out.append((s, r))
        return out

    def m_HODict_pop(self, st, ref, args, kwargs):
        out = []
        for s, r in self.odict_get(st, ref, args[0]):
            if isinstance(r, Raised):
                out.append((s, args[1]) if len(args) > 1 else (s, r))
            else:
                for s2, o in self.odict_del(s, ref, args[0]):
                    out.append((s2, o if o is not None else r))
        return out

    def m_HODict_keys(self, st, ref, args, kwargs):
        self.od_access(st, ref)
        return [(st, VConst(("odict-view", ref.addr, "keys")))]

    def m_HODict_values(self, st, ref, args, kwargs):
        self.od_access(st, ref)
        return [(st, VConst(("odict-view", ref.addr, "values")))]

    def m_HODict_items(self, st, ref, args, kwargs):
        self.od_access(st, ref)
        return [(st, VConst(("odict-view", ref.addr, "items")))]

    def odict_reversed(self, st, ref, what):
        return self.odict_iter(st, ref, what, "desc")

    def odict_iter(self, st, ref, what, order):
        """reversed(od / od.keys() / ...): a *lazy live view* in descending rank;
        iter(...) the same in ascending rank."""
        self.od_access(st, ref)
        h = st.deref(ref)
        seq = z3.Function(f"od_{order}_" + what, z3.ArraySort(U, B), z3.ArraySort(U, U), z3.ArraySort(U, I), SeqU)(h.present, h.val, h.rank)
        st.assume(z3.Length(seq) == h.n)
        it = st.alloc(HIter(seq, z3.IntVal(0), live_of=ref.addr))
        st.ghost.setdefault("live_views", [])
        st.ghost["live_views"] = st.ghost["live_views"] + [(it.addr, ref.addr, what)]
        return [(st, it)]

    def m_HIter___next__(self, st, ref, args, kwargs):
        return self.b_next(st, [ref], {})

    # frozen constant containers ------------------------------------------------
    def m_frozen_get(self, st, cv, args, kwargs):
        ok, k = concrete(args[0])
        default = args[1] if len(args) > 1 else NONE
        if ok and isinstance(cv.py.data, dict):
            return [(st, const(cv.py.data[k]) if k in cv.py.data else default)]
        raise Unsupported("frozen.get with symbolic key")
