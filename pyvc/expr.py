"""Expression evaluation (mixin for the executor)."""
from __future__ import annotations

import ast

import z3

from . import load
from .state import *  # noqa: F403
from .u import *  # noqa: F403

BUILTIN_EXC = None

BUILTIN_NAMES = {
    "len", "min", "max", "abs", "int", "str", "bool", "float", "range", "reversed", "enumerate", "zip",
    "sorted", "iter", "next", "isinstance", "hasattr", "getattr", "setattr", "list", "tuple", "dict", "set",
    "frozenset", "sum", "any", "all", "repr", "type", "super", "round", "print", "id", "callable", "map",
    "filter", "object", "bytes", "bytearray", "divmod", "ord", "chr", "hash", "issubclass", "slice",
}

TYPE_NAMES = {"str", "int", "bool", "float", "list", "tuple", "dict", "range", "bytes", "bytearray", "set", "object", "type"}


class ExprMixin:
    # ---------------------------------------------------------------- truthiness

    def truth(self, st, v: Val):
        """z3 Bool for `bool(v)` (for values whose truthiness cannot raise)"""
        if isinstance(v, VBool):
            return v.t
        if isinstance(v, VInt):
            return v.t != 0
        if isinstance(v, VStr):
            return z3.Length(v.t) > 0
        if isinstance(v, VNone):
            return z3.BoolVal(False)
        if isinstance(v, VFlt):
            return flt_nonzero(v.t)
        if isinstance(v, VSeq):
            return z3.Length(v.t) > 0
        if isinstance(v, VTuple):
            return z3.BoolVal(len(v.items) > 0)
        if isinstance(v, VConst):
            return z3.BoolVal(bool(v.py))
        if isinstance(v, (VFunc, VBound, VBuiltin, VClass, VExcClass, VExc)):
            return z3.BoolVal(True)
        if isinstance(v, (VU, VOpaque)):
            t = v.t
            return z3.If(
                U.is_none(t), False,
                z3.If(U.is_bool(t), U.b(t),
                z3.If(U.is_int(t), U.i(t) != 0,
                z3.If(U.is_str(t), z3.Length(U.s(t)) > 0,
                z3.If(U.is_flt(t), flt_nonzero(U.f(t)), self.ref_truth(st, U.r(t)))))),
            )
        if isinstance(v, VRef):
            h = st.deref(v)
            if isinstance(h, HList):
                if h.items is not None:
                    return z3.BoolVal(len(h.items) > 0)
                return z3.BoolVal(True) if h.tail else z3.Length(h.seq) > 0
            if isinstance(h, HDict):
                if h.present is None:
                    return z3.BoolVal(len(h.items) > 0)
                if h.items:
                    return z3.BoolVal(True)
                return z3.Function("dict_len", z3.ArraySort(U, B), I)(h.present) > 0
            if isinstance(h, HDeque):
                return z3.BoolVal(len(h.items) > 0)
            if isinstance(h, HODict):
                return h.n > 0
            if isinstance(h, HObj):
                m = load.find_method(h.cls[0], h.cls[1], "__bool__") or load.find_method(h.cls[0], h.cls[1], "__len__")
                if m is None:
                    return z3.BoolVal(True)
                # evaluate the real __bool__/__len__ when that is deterministic (single path)
                try:
                    f = VFunc(m[2], load.get_module(m[0]), None, f"{m[1]}.{m[2].name}", (m[0], m[1]))
                    probe = st.fork()
                    res = self.call_function(probe, f, [], {}, self_val=v)
                    if len(res) == 1 and not isinstance(res[0][1], Raised):
                        r = res[0][1]
                        for extra in res[0][0].pc[len(st.pc):]:
                            st.pc.append(extra)  # facts assumed by library models (e.g. len >= 0)
                        if m[2].name == "__len__":
                            n = self.num_term(r)
                            if n is not None:
                                return n > 0
                        else:
                            return self.truth(res[0][0], r)
                except Unsupported:
                    pass
                return self.ref_truth(st, z3.IntVal(v.addr))
            return z3.BoolVal(True)
        raise Unsupported(f"truthiness of {v!r}")

    def ref_truth(self, st, r):
        f = z3.Function("ref_truthy", I, I, B)
        return f(r, z3.IntVal(st.world))

    # ---------------------------------------------------------------- dispatch

    def ev(self, node, st):
        m = getattr(self, "e_" + type(node).__name__, None)
        if m is None:
            raise Unsupported(f"expression {type(node).__name__} at line {getattr(node, 'lineno', '?')}")
        return m(node, st)

    def e_Constant(self, node, st):
        v = node.value
        if isinstance(v, float):
            return [(st, VFlt(flt_of_str(z3.StringVal(repr(v)))))]
        if v is Ellipsis:
            return [(st, VConst(Ellipsis))]
        if isinstance(v, bytes):
            return [(st, VConst(v))]
        return [(st, const(v))]

    def e_Name(self, node, st):
        name = node.id
        if name in st.locals:
            return [(st, st.locals[name])]
        frame = st.locals.get("__frame__")
        if frame is not None:
            closure = frame.py.get("closure")
            while closure is not None:
                if name in closure:
                    return [(st, closure[name])]
                fr = closure.get("__frame__")
                closure = fr.py.get("closure") if fr else None
            v = self.module_name(frame.py["module"], name)
            if v is not None:
                return [(st, v)]
        v = self.builtin_name(name)
        if v is not None:
            return [(st, v)]
        return [self.raised(st, "NameError", name)]

    def builtin_name(self, name):
        if name in self.exc_h:
            return VExcClass(name)
        if name in BUILTIN_NAMES or name == "__probe__":
            return VBuiltin(name)
        if name in ("True", "False", "None"):
            return const({"True": True, "False": False, "None": None}[name])
        if name == "NotImplemented":
            return VConst(NotImplemented)
        return None

    def module_name(self, mod, name, _depth=0):
        """Resolve a module-level name of a repo module to a Val (or None)."""
        if self.config is not None:
            ov = self.config.global_override(mod.name, name)
            if ov is not None:
                return ov
        if name in mod.funcs:
            return self.decorated_func(mod, mod.funcs[name], name)
        if name in mod.classes:
            if name in self.exc_h:
                return VExcClass(name)
            return VClass(mod.name, name)
        if name in mod.consts:
            return self.module_const(mod, name, mod.consts[name])
        if name in mod.imports:
            m, n = mod.imports[name]
            if m.startswith("liquid"):
                if n is None:
                    return VConst(("module", m))
                try:
                    target = load.get_module(m)
                except load.TargetMissing:
                    return None
                if _depth > 8:
                    return None
                v = self.module_name(target, n, _depth + 1)
                if v is not None:
                    return v
                try:
                    load.get_module(m + "." + n)
                    return VConst(("module", m + "." + n))
                except load.TargetMissing:
                    return None
            full = m if n is None else f"{m}.{n}"
            if n in self.exc_h or full in self.exc_h:
                return VExcClass(n if n in self.exc_h else full)
            return VBuiltin(full)
        return None

    TRANSPARENT_DECORATORS = ("staticmethod", "classmethod", "contextmanager", "property", "abstractmethod", "overload", "wraps", "functools.wraps", "override")

    def decorated_func(self, mod, node, name):
        """The module-level binding of a decorated function: decorators that are repo
        functions are *executed* (their wrapper closes over the inner function), so the
        registered filter is the composition wrapper(inner) as at import time."""
        inner = VFunc(node, mod, None, name, None, True)
        decos = [d for d in node.decorator_list if ast.unparse(d).split("(")[0] not in self.TRANSPARENT_DECORATORS]
        if not decos:
            return VFunc(node, mod, None, name, None)
        key = (mod.name, name)
        cache = self.__dict__.setdefault("_deco_cache", {})
        if key in cache:
            return cache[key]
        cur = inner
        tmp = State()
        tmp.locals["__frame__"] = VConst({"module": mod, "cls": None, "closure": None, "qual": "<module>"})
        for d in reversed(decos):
            dv = self.ev(d, tmp)
            if len(dv) != 1 or isinstance(dv[0][1], Raised):
                raise Unsupported(f"decorator expression {ast.unparse(d)}")
            res = self.call_value(dv[0][0], dv[0][1], [cur], {})
            if len(res) != 1 or isinstance(res[0][1], Raised):
                raise Unsupported(f"decorator {ast.unparse(d)} did not return a single function")
            cur = res[0][1]
        cache[key] = cur
        return cur

    def module_const(self, mod, name, expr):
        """Module-level constants: only literal-like right-hand sides are interpreted."""
        try:
            py = _literal(expr)
            if isinstance(py, (frozenset, set, dict, list)):
                return VConst(_Frozen(py))
            return const(py)
        except ValueError:
            pass
        try:
            from .flow import const_eval

            py = const_eval(mod, expr)
            if isinstance(py, (frozenset, set, dict, list)):
                return VConst(_Frozen(py))
            return const(py)
        except (ValueError, RecursionError, KeyError):
            pass
        if isinstance(expr, ast.Tuple) and expr.elts and all(isinstance(e, ast.Name) and e.id in mod.classes for e in expr.elts):
            return VTuple(tuple(self.module_name(mod, e.id) for e in expr.elts))  # a tuple of classes
        if isinstance(expr, ast.Call):
            f = ast.unparse(expr.func)
            if f in ("re.compile",) :
                return VConst(("regex", mod.name, name, ast.unparse(expr)))
            if f in ("object",):
                return VConst(("sentinel", mod.name, name))
            if isinstance(expr.func, ast.Name):
                # instance of a repo class created at import time (e.g. UNDEFINED, builtin)
                return VConst(("instance", mod.name, name, f))
        return VConst(("global", mod.name, name))

    def e_JoinedStr(self, node, st):
        parts_nodes = []
        for v in node.values:
            parts_nodes.append(v)
        results = [(st, [])]
        for p in parts_nodes:
            nxt = []
            for s, acc in results:
                if isinstance(acc, Raised):
                    nxt.append((s, acc))
                    continue
                if isinstance(p, ast.Constant):
                    nxt.append((s, acc + [z3.StringVal(p.value)]))
                    continue
                assert isinstance(p, ast.FormattedValue)
                if p.format_spec is not None:
                    raise Unsupported("format spec in f-string")
                for s2, v in self.ev(p.value, s):
                    if isinstance(v, Raised):
                        nxt.append((s2, v))
                        continue
                    conv = "repr" if p.conversion == 114 else "str"
                    for s3, sv in self.to_str(s2, v, conv):
                        if isinstance(sv, Raised):
                            nxt.append((s3, sv))
                        else:
                            nxt.append((s3, acc + [sv.t]))
            results = nxt
        out = []
        for s, acc in results:
            if isinstance(acc, Raised):
                out.append((s, acc))
            elif not acc:
                out.append((s, VStr(z3.StringVal(""))))
            elif len(acc) == 1:
                out.append((s, VStr(acc[0])))
            else:
                out.append((s, VStr(z3.Concat(*acc))))
        return out

    def _display_items(self, node, st):
        """elements of a list/tuple display; `*x` is spliced when x has a concrete spine"""
        starred = [isinstance(e, ast.Starred) for e in node.elts]
        if not any(starred):
            return self.ev_list(node.elts, st)
        out = []
        for s, vals in self.ev_list([e.value if isinstance(e, ast.Starred) else e for e in node.elts], st):
            if isinstance(vals, Raised):
                out.append((s, vals))
                continue
            items = []
            for is_star, v in zip(starred, vals):
                if not is_star:
                    items.append(v)
                    continue
                spine = self.concrete_items(s, v)
                if spine is None:
                    sq = self.as_seq(s, v)
                    if sq is None:
                        raise Unsupported("starred operand that is not a sequence in a display")
                    items.append(_Splice(sq))
                else:
                    items.extend(spine)
            out.append((s, items))
        return out

    def e_Tuple(self, node, st):
        out = []
        for s, v in self._display_items(node, st):
            if not isinstance(v, Raised) and any(isinstance(x, _Splice) for x in v):
                raise Unsupported("starred operand without a concrete spine in a tuple display")
            out.append((s, v if isinstance(v, Raised) else VTuple(tuple(v))))
        return out

    def e_List(self, node, st):
        out = []
        for s, v in self._display_items(node, st):
            if isinstance(v, Raised):
                out.append((s, v))
            elif any(isinstance(x, _Splice) for x in v):
                # a symbolic operand is spliced: the new list has a symbolic spine
                parts = [x.seq if isinstance(x, _Splice) else z3.Unit(box(x)) for x in v]
                out.append((s, s.alloc(HList(seq=parts[0] if len(parts) == 1 else z3.Concat(*parts)))))
            else:
                out.append((s, s.alloc(HList(items=list(v)))))
        return out

    def e_Dict(self, node, st):
        """dict displays, including ** unpacking (later entries win)"""
        nodes = []
        for k, v in zip(node.keys, node.values):
            if k is not None:
                nodes.append(k)
            nodes.append(v)
        out = []
        for s, vals in self.ev_list(nodes, st):
            if isinstance(vals, Raised):
                out.append((s, vals))
                continue
            ref = s.alloc(HDict())
            results = [(s, None)]
            it = iter(vals)
            for k in node.keys:
                nxt = []
                if k is None:
                    src = next(it)
                    for s2, o in results:
                        nxt.extend(self.dict_merge(s2, ref, src) if o is None else [(s2, o)])
                else:
                    kv, vv = next(it), next(it)
                    for s2, o in results:
                        nxt.extend(self.set_item(s2, ref, kv, vv) if o is None else [(s2, o)])
                results = nxt
            out.extend((s2, o if o is not None else ref) for s2, o in results)
        return out

    def dict_merge(self, st, ref, src):
        """ref.update(src) for dict values"""
        if not (isinstance(src, VRef) and isinstance(st.deref(src), HDict)):
            if isinstance(src, (VU, VOpaque)):
                raise Unsupported("** unpacking of an unknown mapping")
            return [self.raised(st, "TypeError", "argument after ** must be a mapping")]
        hs = st.deref(src)
        if hs.present is None:
            results = [(st, None)]
            for k, v in hs.items.items():
                nxt = []
                for s, o in results:
                    nxt.extend(self.set_item(s, ref, const(k), v) if o is None else [(s, o)])
                results = nxt
            return results
        h = st.deref(ref)
        kk = fresh("mk", U)
        if h.present is None:
            pres = z3.K(U, z3.BoolVal(False))
            vals = z3.K(U, U.none)
            for ck, cv in h.items.items():
                pres = z3.Store(pres, box(const(ck)), True)
                vals = z3.Store(vals, box(const(ck)), box(cv))
            h.items = {}
        else:
            pres, vals = h.present, h.val
            for ck, cv in h.items.items():
                pres = z3.Store(pres, box(const(ck)), True)
                vals = z3.Store(vals, box(const(ck)), box(cv))
            h.items = {}
        sp, sv = hs.present, hs.val
        for ck, cv in hs.items.items():
            sp = z3.Store(sp, box(const(ck)), True)
            sv = z3.Store(sv, box(const(ck)), box(cv))
        h.present = z3.Lambda([kk], z3.Or(z3.Select(pres, kk), z3.Select(sp, kk)))
        h.val = z3.Lambda([kk], z3.If(z3.Select(sp, kk), z3.Select(sv, kk), z3.Select(vals, kk)))
        return [(st, None)]

    def e_Set(self, node, st):
        out = []
        for s, v in self.ev_list(node.elts, st):
            if isinstance(v, Raised):
                out.append((s, v))
                continue
            items = []
            for x in v:
                ok, p = concrete(x)
                if not ok:
                    raise Unsupported("set literal with symbolic members")
                items.append(p)
            out.append((s, VConst(_Frozen(set(items)))))
        return out

    def e_IfExp(self, node, st):
        out = []
        for s, v in self.ev(node.test, st):
            if isinstance(v, Raised):
                out.append((s, v))
                continue
            for s2, t in self.branch(s, self.truth(s, v)):
                out.extend(self.ev(node.body if t else node.orelse, s2))
        return out

    def e_BoolOp(self, node, st):
        is_and = isinstance(node.op, ast.And)
        results = self.ev(node.values[0], st)
        for nxt_node in node.values[1:]:
            nxt = []
            for s, v in results:
                if isinstance(v, (Raised, _Done)):
                    nxt.append((s, v))
                    continue
                for s2, t in self.branch(s, self.truth(s, v)):
                    if t == is_and:
                        nxt.extend(self.ev(nxt_node, s2))
                    else:
                        nxt.append((s2, _Done(v)))
            results = nxt
        return [(s, v.v if isinstance(v, _Done) else v) for s, v in results]

    def e_UnaryOp(self, node, st):
        def f(s, v):
            if isinstance(node.op, ast.Not):
                return [(s, VBool(z3.Not(self.truth(s, v))))]
            if isinstance(node.op, ast.USub):
                if isinstance(v, VInt):
                    return [(s, VInt(-v.t))]
                if isinstance(v, VBool):
                    return [(s, VInt(-z3.If(v.t, 1, 0)))]
                if isinstance(v, VFlt):
                    return [(s, VFlt(z3.Function("flt_neg", Flt, Flt)(v.t)))]
            raise Unsupported(f"unary {type(node.op).__name__} on {type(v).__name__}")

        return self.bind(self.ev(node.operand, st), f)

    def e_Lambda(self, node, st):
        frame = st.locals.get("__frame__")
        return [(st, VFunc(node, frame.py["module"] if frame else None, st.locals, "<lambda>", None))]

    def e_Await(self, node, st):
        # await-erasure: single task (DESIGN 2.2); coroutine results are their values
        return self.ev(node.value, st)

    def e_NamedExpr(self, node, st):
        def f(s, v):
            s.locals[node.target.id] = v
            return [(s, v)]

        return self.bind(self.ev(node.value, st), f)

    def e_Starred(self, node, st):
        raise Unsupported("starred expression")

    def e_Yield(self, node, st):
        hook = st.ghost.get("__yield_hook__")
        if hook is None:
            raise Unsupported("yield outside an inlined context manager")
        if node.value is None:
            return self.run_yield_hook(st, hook, NONE)
        return self.bind(self.ev(node.value, st), lambda s, v: self.run_yield_hook(s, hook, v))

    def run_yield_hook(self, st, hook, val):
        """Run the with-body in the caller's frame at the generator's yield point."""
        gen_locals = st.locals
        st.ghost.pop("__yield_hook__", None)
        st.locals = hook["caller_locals"]
        results = [(st, None)]
        if hook["target"] is not None:
            results = self.assign(hook["target"], val, st)
        out = []
        for s, o in results:
            if o is not None:
                outcomes = [(s, o)]
            else:
                outcomes = self.exec_block(hook["body"], s)
            for s2, o2 in outcomes:
                # back into the generator frame
                hook2 = dict(hook)
                hook2["caller_locals"] = s2.locals
                s2.locals = dict(gen_locals) if len(outcomes) > 1 else gen_locals
                s2.ghost["__caller_locals_after__"] = hook2["caller_locals"]
                if isinstance(o2, Raised):
                    # the exception is thrown into the generator at the yield
                    s2.ghost["__with_outcome__"] = None
                    out.append((s2, o2))
                else:
                    s2.ghost["__with_outcome__"] = o2
                    out.append((s2, NONE))
        return out

    # ---------------------------------------------------------------- comparisons

    def e_Compare(self, node, st):
        if len(node.ops) == 1:
            def f(s, vals):
                return self.compare(s, node.ops[0], vals[0], vals[1])
            return self.bind(self.ev_list([node.left, node.comparators[0]], st), f)
        # chained: a < b < c  ==  (a < b) and (b < c), b evaluated once
        def g(s, vals):
            results = [(s, VBool(z3.BoolVal(True)))]
            for i, op in enumerate(node.ops):
                nxt = []
                for s2, acc in results:
                    if isinstance(acc, Raised):
                        nxt.append((s2, acc))
                        continue
                    for s3, r in self.compare(s2, op, vals[i], vals[i + 1]):
                        if isinstance(r, Raised):
                            nxt.append((s3, r))
                        else:
                            nxt.append((s3, VBool(z3.And(acc.t, self.truth(s3, r)))))
                results = nxt
            return results
        return self.bind(self.ev_list([node.left] + node.comparators, st), g)

    def compare(self, st, op, a: Val, b: Val):
        if isinstance(op, (ast.Is, ast.IsNot)):
            r = self.identical(st, a, b)
            return [(st, VBool(r if isinstance(op, ast.Is) else z3.Not(r)))]
        if isinstance(op, (ast.Eq, ast.NotEq)):
            out = []
            for s, r in self.py_eq(st, a, b):
                if isinstance(r, Raised):
                    out.append((s, r))
                else:
                    out.append((s, VBool(r if isinstance(op, ast.Eq) else z3.Not(r))))
            return out
        if isinstance(op, (ast.In, ast.NotIn)):
            out = []
            for s, r in self.py_in(st, a, b):
                if isinstance(r, Raised):
                    out.append((s, r))
                else:
                    out.append((s, VBool(r if isinstance(op, ast.In) else z3.Not(r))))
            return out
        return self.py_order(st, op, a, b)

    def identical(self, st, a, b):
        if isinstance(a, VNone) or isinstance(b, VNone):
            other = b if isinstance(a, VNone) else a
            if isinstance(other, VNone):
                return z3.BoolVal(True)
            if isinstance(other, (VU, VOpaque)):
                return U.is_none(other.t)
            return z3.BoolVal(False)
        if isinstance(a, VBool) and isinstance(b, VBool):
            return a.t == b.t
        if isinstance(a, (VU, VOpaque)) and isinstance(b, VBool) or isinstance(b, (VU, VOpaque)) and isinstance(a, VBool):
            u, bb = (a, b) if isinstance(a, (VU, VOpaque)) else (b, a)
            return z3.And(U.is_bool(u.t), U.b(u.t) == bb.t)
        if isinstance(a, VRef) and isinstance(b, VRef):
            return z3.BoolVal(a.addr == b.addr)
        if isinstance(a, VConst) and isinstance(b, VConst):
            return z3.BoolVal(a.py is b.py or a.py == b.py)
        if isinstance(a, (VU, VOpaque)) and isinstance(b, (VU, VOpaque)):
            # identity of two unknown values: equal references are identical; primitives
            # are not guaranteed to be
            return z3.And(U.is_ref(a.t), a.t == b.t)
        if isinstance(a, (VU, VOpaque)) and isinstance(b, VRef) or isinstance(b, (VU, VOpaque)) and isinstance(a, VRef):
            u, r = (a, b) if isinstance(a, (VU, VOpaque)) else (b, a)
            return u.t == box(r)
        if type(a) is not type(b):
            return z3.BoolVal(False)
        raise Unsupported(f"`is` between {type(a).__name__} and {type(b).__name__}")

    def num_term(self, v):
        """int-valued term for int/bool values (Python: bool is an int)"""
        if isinstance(v, VInt):
            return v.t
        if isinstance(v, VBool):
            return z3.If(v.t, z3.IntVal(1), z3.IntVal(0))
        return None

    def py_eq(self, st, a, b):
        """Python `==`; -> [(st, z3 Bool | Raised)]"""
        na, nb = self.num_term(a), self.num_term(b)
        if na is not None and nb is not None:
            return [(st, na == nb)]
        if isinstance(a, VStr) and isinstance(b, VStr):
            return [(st, a.t == b.t)]
        if isinstance(a, VNone) or isinstance(b, VNone):
            o = b if isinstance(a, VNone) else a
            if isinstance(o, (VU, VOpaque)):
                return [(st, self.u_eq(st, o.t, U.none))]
            if isinstance(o, VRef) and isinstance(st.deref(o), HObj):
                return self.obj_eq(st, o, NONE)
            return [(st, z3.BoolVal(isinstance(o, VNone)))]
        if isinstance(a, VConst) and isinstance(b, VConst):
            return [(st, z3.BoolVal(a.py == b.py))]
        if isinstance(a, VTuple) and isinstance(b, VTuple):
            if len(a.items) != len(b.items):
                return [(st, z3.BoolVal(False))]
            results = [(st, z3.BoolVal(True))]
            for x, y in zip(a.items, b.items):
                nxt = []
                for s, acc in results:
                    if isinstance(acc, Raised):
                        nxt.append((s, acc))
                        continue
                    for s2, r in self.py_eq(s, x, y):
                        nxt.append((s2, r if isinstance(r, Raised) else z3.And(acc, r)))
                results = nxt
            return results
        if isinstance(a, VFlt) or isinstance(b, VFlt):
            fa = self.flt_term(a)
            fb = self.flt_term(b)
            if fa is not None and fb is not None:
                return [(st, z3.And(fa == fb, z3.Not(flt_is_nan(fa))))]
            return [(st, z3.BoolVal(False))]
        prim = (VInt, VBool, VStr, VNone, VFlt)
        if isinstance(a, prim) and isinstance(b, prim):
            return [(st, z3.BoolVal(False))]  # e.g. str vs int
        for x, y in ((a, b), (b, a)):
            if isinstance(x, VRef) and isinstance(st.deref(x), HObj):
                return self.obj_eq(st, x, y)
        if isinstance(a, (VU, VOpaque)) or isinstance(b, (VU, VOpaque)):
            try:
                return [(st, self.u_eq(st, box(a), box(b)))]
            except Unsupported:
                pass
        if isinstance(a, VSeq) and isinstance(b, VSeq):
            return [(st, a.t == b.t)]
        if isinstance(a, VRef) and isinstance(b, VRef):
            ha, hb = st.deref(a), st.deref(b)
            if a.addr == b.addr:
                return [(st, z3.BoolVal(True))]
            if isinstance(ha, HList) and isinstance(hb, HList):
                return [(st, self.list_seq(st, a) == self.list_seq(st, b))]
        if isinstance(a, (VConst, VClass, VExcClass, VFunc)) or isinstance(b, (VConst, VClass, VExcClass, VFunc)):
            return [(st, z3.BoolVal(False))]
        for x, y in ((a, b), (b, a)):
            # a builtin container never equals a number, string, bool or None
            if isinstance(x, VRef) and isinstance(st.deref(x), (HList, HDict, HODict, HDeque)) and isinstance(y, (VInt, VBool, VStr, VNone, VFlt)):
                return [(st, z3.BoolVal(False))]
        raise Unsupported(f"== between {type(a).__name__} and {type(b).__name__}")

    def flt_term(self, v):
        if isinstance(v, VFlt):
            return v.t
        n = self.num_term(v)
        if n is not None:
            return flt_of_int(n)
        return None

    def u_eq(self, st, x, y):
        """Python == on two U terms (numbers compare across bool/int; refs via UF)."""
        def num(t):
            return z3.If(U.is_bool(t), z3.If(U.b(t), 1, 0), U.i(t))
        isnum = lambda t: z3.Or(U.is_bool(t), U.is_int(t))  # noqa: E731
        ref_eq = z3.Function("ref_eq", U, U, I, B)
        return z3.If(
            z3.And(isnum(x), isnum(y)), num(x) == num(y),
            z3.If(z3.Or(U.is_ref(x), U.is_ref(y)), z3.Or(x == y, ref_eq(x, y, z3.IntVal(st.world))),
            z3.If(z3.Or(U.is_flt(x), U.is_flt(y)), z3.Function("flt_eq", U, U, B)(x, y), x == y)),
        )

    def obj_eq(self, st, obj: VRef, other: Val):
        h = st.deref(obj)
        m = load.find_method(h.cls[0], h.cls[1], "__eq__")
        if m is None:
            dc = self._dataclass_eq_fields(h.cls) if h.cls[0].startswith("liquid") else None
            if dc is not None:
                # @dataclass (eq=True): instances of the SAME class compare as the tuples of their
                # compared fields, in declaration order; anything else is unequal
                ho = st.deref(other) if isinstance(other, VRef) else None
                if not (isinstance(ho, HObj) and tuple(ho.cls) == tuple(h.cls)):
                    return [(st, z3.BoolVal(False))]
                if obj.addr == other.addr:
                    return [(st, z3.BoolVal(True))]
                if not all(f_ in h.fields and f_ in ho.fields for f_ in dc):
                    raise Unsupported(f"dataclass comparison of {h.cls[1]} with fields missing from the heap object")
                return self.py_eq(st, VTuple(tuple(h.fields[f_] for f_ in dc)), VTuple(tuple(ho.fields[f_] for f_ in dc)))
            return [(st, self.identical(st, obj, other))]
        mod = load.get_module(m[0])
        f = VFunc(m[2], mod, None, f"{m[1]}.__eq__", (m[0], m[1]))
        out = []
        for s, r in self.call_function(st, f, [other], {}, self_val=obj):
            if isinstance(r, Raised):
                out.append((s, r))
            else:
                out.append((s, self.truth(s, r)))
        return out

    def _dataclass_eq_fields(self, cls):
        """compared fields of a @dataclass with a generated __eq__ (None if not such a class)"""
        cdef = load.get_module(cls[0]).classes.get(cls[1])
        if cdef is None:
            return None
        deco = None
        for d in cdef.decorator_list:
            name = ast.unparse(d.func) if isinstance(d, ast.Call) else ast.unparse(d)
            if name.split(".")[-1] == "dataclass":
                deco = d
        if deco is None:
            return None
        if isinstance(deco, ast.Call) and any(k.arg == "eq" and isinstance(k.value, ast.Constant) and k.value.value is False for k in deco.keywords):
            return None
        fields = []
        for st_ in cdef.body:
            if isinstance(st_, ast.AnnAssign) and isinstance(st_.target, ast.Name):
                v = st_.value
                if isinstance(v, ast.Call) and ast.unparse(v.func).split(".")[-1] == "field" and any(k.arg == "compare" and isinstance(k.value, ast.Constant) and k.value.value is False for k in v.keywords):
                    continue
                if "ClassVar" in ast.unparse(st_.annotation):
                    continue
                fields.append(st_.target.id)
        return fields

    def py_in(self, st, a, b):
        if isinstance(b, VTuple):
            results = [(st, z3.BoolVal(False))]
            for item in b.items:
                nxt = []
                for s, acc in results:
                    if isinstance(acc, Raised):
                        nxt.append((s, acc))
                        continue
                    # Python's `in` uses `is` or `==`
                    for s2, r in self.py_eq(s, a, item):
                        nxt.append((s2, r if isinstance(r, Raised) else z3.Or(acc, r)))
                results = nxt
            return results
        if isinstance(b, VConst) and isinstance(b.py, tuple) and b.py and b.py[0] == "path-parts":
            ok, p = concrete(a)
            if ok and p == "..":
                return [(st, self.P_PARDIR(b.py[1].t))]
            raise Unsupported("membership test on Path.parts other than '..'")
        if isinstance(b, VConst) and isinstance(b.py, tuple) and b.py and b.py[0] == "global" and isinstance(a, (VClass, VExcClass)):
            # membership of a class in a module-level dict literal keyed by classes (exceptions.WARNINGS)
            mod = load.get_module(b.py[1])
            lit = mod.consts.get(b.py[2])
            if isinstance(lit, ast.Dict):
                return [(st, z3.BoolVal(self.class_table_lookup(mod, lit, a) is not None))]
        if isinstance(b, VConst) and isinstance(b.py, _Frozen):
            ok, p = concrete(a)
            if ok:
                return [(st, z3.BoolVal(p in b.py.data))]
            if isinstance(a, VStr):
                alts = [a.t == z3.StringVal(x) for x in b.py.data if isinstance(x, str)]
                return [(st, z3.Or(*alts) if alts else z3.BoolVal(False))]
            if isinstance(a, (VU, VOpaque)):
                alts = [a.t == box(const(x)) for x in b.py.data if isinstance(x, (str, int)) or x is None]
                return [(st, z3.Or(*alts) if alts else z3.BoolVal(False))]
            raise Unsupported("membership of symbolic value in constant set")
        if isinstance(b, VStr):
            if isinstance(a, VStr):
                return [(st, z3.Contains(b.t, a.t))]
            return [self.raised(st, "TypeError", "'in <string>' requires string as left operand")]
        if isinstance(b, VRef):
            return self.container_contains(st, b, a)
        if isinstance(b, VSeq):
            return [(st, z3.Contains(b.t, z3.Unit(box(a))))]
        if isinstance(b, (VU, VOpaque)):
            out = []
            for s, bv in self.split_tags(st, b):
                if isinstance(bv, (VU, VOpaque)):
                    for s2, r in self.opaque_call(s, "contains", [bv, a], may_raise=("TypeError",), pure=True):
                        out.append((s2, r if isinstance(r, Raised) else self.truth(s2, r)))
                elif isinstance(bv, VStr):
                    out.extend(self.py_in(s, a, bv))
                else:
                    out.append(self.raised(s, "TypeError", "argument is not iterable"))
            return out
        if isinstance(b, (VInt, VBool, VNone, VFlt)):
            return [self.raised(st, "TypeError", "argument is not iterable")]
        raise Unsupported(f"`in` with container {type(b).__name__}")

    def py_order(self, st, op, a, b):
        na, nb = self.num_term(a), self.num_term(b)
        zop = {ast.Lt: lambda x, y: x < y, ast.LtE: lambda x, y: x <= y, ast.Gt: lambda x, y: x > y, ast.GtE: lambda x, y: x >= y}[type(op)]
        if na is not None and nb is not None:
            return [(st, VBool(zop(na, nb)))]
        if isinstance(a, VStr) and isinstance(b, VStr):
            lt = {ast.Lt: a.t < b.t, ast.LtE: a.t <= b.t, ast.Gt: b.t < a.t, ast.GtE: b.t <= a.t}[type(op)]
            return [(st, VBool(lt))]
        if isinstance(a, VFlt) or isinstance(b, VFlt):
            fa, fb = self.flt_term(a), self.flt_term(b)
            if fa is not None and fb is not None:
                f = z3.Function("flt_" + type(op).__name__.lower(), Flt, Flt, B)
                return [(st, VBool(f(fa, fb)))]
        prim = (VInt, VBool, VStr, VNone, VFlt)
        if isinstance(a, prim) and isinstance(b, prim):
            return [self.raised(st, "TypeError", "unorderable")]
        if isinstance(a, (VU, VOpaque)) or isinstance(b, (VU, VOpaque)):
            # split on tags, then recurse on typed values
            out = []
            for s, av in self.split_tags(st, a):
                for s2, bv in self.split_tags(s, b):
                    if isinstance(av, (VU, VOpaque)) or isinstance(bv, (VU, VOpaque)):
                        # references: rich comparison is up to the object
                        out.extend(self.opaque_call(s2, f"order:{type(op).__name__}", [av, bv], may_raise=("TypeError",)))
                    else:
                        out.extend(self.py_order(s2, op, av, bv))
            return out
        raise Unsupported(f"ordering between {type(a).__name__} and {type(b).__name__}")

    def split_tags(self, st, v, tags=TAGS):
        """Fork a VU into typed alternatives; non-VU values pass through."""
        if not isinstance(v, (VU, VOpaque)):
            return [(st, v)]
        simp = unbox(v.t)
        if not isinstance(simp, VU):
            return [(st, simp)]
        out = []
        for tag in tags:
            s = st.fork().assume(tag_test(v.t, tag))
            if feasible(s.pc):
                out.append((s, tag_val(v.t, tag)))
        return out

    # ---------------------------------------------------------------- arithmetic

    def e_BinOp(self, node, st):
        return self.bind(self.ev_list([node.left, node.right], st), lambda s, vals: self.binop(s, node.op, vals[0], vals[1], node))

    def binop(self, st, op, a, b, node=None):
        na, nb = self.num_term(a), self.num_term(b)
        if na is not None and nb is not None:
            if isinstance(op, ast.Add):
                return [(st, VInt(na + nb))]
            if isinstance(op, ast.Sub):
                return [(st, VInt(na - nb))]
            if isinstance(op, ast.Mult):
                return [(st, VInt(na * nb))]
            if isinstance(op, (ast.FloorDiv, ast.Mod)):
                out = []
                for s, zero in self.branch(st, nb == 0):
                    if zero:
                        out.append(self.raised(s, "ZeroDivisionError", "division by zero"))
                    else:
                        # Python floors toward -inf; remainder has the divisor's sign
                        q = z3.If(nb > 0, na / nb, (-na) / (-nb))  # z3 int div is Euclidean-like: floor for positive divisor
                        r = na - q * nb
                        out.append((s, VInt(q if isinstance(op, ast.FloorDiv) else r)))
                return out
            if isinstance(op, ast.Div):
                out = []
                for s, zero in self.branch(st, nb == 0):
                    if zero:
                        out.append(self.raised(s, "ZeroDivisionError", "division by zero"))
                    else:
                        out.append((s, VFlt(z3.Function("flt_div", Flt, Flt, Flt)(flt_of_int(na), flt_of_int(nb)))))
                return out
            if isinstance(op, ast.Pow):
                raise Unsupported("integer power")
        if isinstance(a, VStr) and isinstance(b, VStr) and isinstance(op, ast.Add):
            return [(st, VStr(z3.Concat(a.t, b.t)))]
        if isinstance(a, VStr) and isinstance(op, ast.Mod):
            return self.str_percent(st, a, b)
        if isinstance(a, VStr) and nb is not None and isinstance(op, ast.Mult):
            raise Unsupported("str * int")
        if isinstance(a, VFlt) or isinstance(b, VFlt):
            fa, fb = self.flt_term(a), self.flt_term(b)
            if fa is not None and fb is not None:
                name = "flt_" + type(op).__name__.lower()
                f = z3.Function(name, Flt, Flt, Flt)
                if isinstance(op, (ast.Div, ast.FloorDiv, ast.Mod)):
                    out = []
                    iszero = z3.Not(flt_nonzero(fb))
                    for s, zero in self.branch(st, iszero):
                        if zero:
                            out.append(self.raised(s, "ZeroDivisionError", "float division by zero"))
                        else:
                            out.append((s, VFlt(f(fa, fb))))
                    return out
                return [(st, VFlt(f(fa, fb)))]
        prim = (VInt, VBool, VStr, VNone, VFlt)
        if isinstance(a, prim) and isinstance(b, prim):
            return [self.raised(st, "TypeError", f"unsupported operand type(s) for {type(op).__name__}")]
        if isinstance(a, VRef) and isinstance(b, VRef) and isinstance(op, ast.Add):
            ha, hb = st.deref(a), st.deref(b)
            if isinstance(ha, HList) and isinstance(hb, HList):
                if ha.items is not None and hb.items is not None:
                    return [(st, st.alloc(HList(items=ha.items + hb.items)))]
                return [(st, st.alloc(HList(seq=z3.Concat(self.list_seq(st, a), self.list_seq(st, b)))))]
        if isinstance(a, VTuple) and isinstance(b, VTuple) and isinstance(op, ast.Add):
            return [(st, VTuple(a.items + b.items))]
        if isinstance(a, (VU, VOpaque)) or isinstance(b, (VU, VOpaque)):
            out = []
            for s, av in self.split_tags(st, a):
                for s2, bv in self.split_tags(s, b):
                    if isinstance(av, (VU, VOpaque)) or isinstance(bv, (VU, VOpaque)):
                        dec = [x for x in (av, bv) if isinstance(x, (VU, VOpaque)) and self.is_decimal(x)]
                        if dec and all(self.is_decimal(x) or isinstance(x, (VInt, VBool)) for x in (av, bv)):
                            mr = ("InvalidOperation",) + (("ZeroDivisionError",) if isinstance(op, (ast.Div, ast.FloorDiv, ast.Mod)) else ())
                            out.extend(self.mk_decimal(s2, f"Decimal.{type(op).__name__}", [av, bv], may_raise=mr))
                        else:
                            out.extend(self.opaque_call(s2, f"binop:{type(op).__name__}", [av, bv], may_raise=("TypeError",)))
                    else:
                        out.extend(self.binop(s2, op, av, bv, node))
            return out
        if isinstance(op, ast.Mult):
            # sequence repetition: list * int / int * list is a NEW list (its length is not modelled)
            for x, y in ((a, b), (b, a)):
                if isinstance(x, VRef) and isinstance(st.deref(x), HList) and isinstance(y, (VInt, VBool)):
                    return [(st, st.alloc(HList(seq=fresh("repeated", SeqU))))]
        raise Unsupported(f"binary {type(op).__name__} on {type(a).__name__}, {type(b).__name__}")

    # ---------------------------------------------------------------- attribute / subscript

    def e_Attribute(self, node, st):
        return self.bind(self.ev(node.value, st), lambda s, v: self.get_attr(s, v, node.attr, node))

    def e_Subscript(self, node, st):
        if isinstance(node.slice, ast.Slice):
            sl = node.slice
            parts = [node.value] + [p for p in (sl.lower, sl.upper, sl.step) if p is not None]

            def f(s, vals):
                it = iter(vals[1:])
                lo = next(it) if sl.lower is not None else None
                hi = next(it) if sl.upper is not None else None
                step = next(it) if sl.step is not None else None
                return self.get_slice(s, vals[0], lo, hi, step)

            return self.bind(self.ev_list(parts, st), f)
        return self.bind(self.ev_list([node.value, node.slice], st), lambda s, vals: self.get_item(s, vals[0], vals[1]))

    def e_ListComp(self, node, st):
        return self.comprehension(node, st, "list")

    def e_GeneratorExp(self, node, st):
        return self.comprehension(node, st, "gen")

    def e_SetComp(self, node, st):
        raise Unsupported("set comprehension")

    def e_DictComp(self, node, st):
        return self.comprehension(node, st, "dict")

    def comprehension(self, node, st, kind):
        """Comprehensions over concrete spines are unrolled; over symbolic sequences they
        become an abstract mapped sequence keyed by the element expression."""
        if len(node.generators) != 1:
            raise Unsupported("nested comprehension")
        gen = node.generators[0]

        def f(s, itv):
            items = self.concrete_items(s, itv)
            if items is None and isinstance(itv, VRange):
                # a range of symbolic but small length (e.g. range(matches.count(True))): one case
                # per feasible length 0..4; a longer range is outside the executor's reach
                ln = z3.simplify(itv.stop - itv.start)
                outs = []
                rest = s
                for n_ in range(0, 5):
                    sn = rest.fork().assume(ln == n_) if n_ else rest.fork().assume(ln <= 0)
                    if feasible(sn.pc):
                        outs.extend(f(sn, VTuple(tuple(VInt(z3.simplify(itv.start + j)) for j in range(n_)))))
                    rest = rest.assume(ln != n_) if n_ else rest.assume(ln > 0)
                if feasible(rest.pc):
                    raise Unsupported(f"comprehension over a symbolic range that may be longer than 4 at line {node.lineno}")
                return outs
            if items is None:
                return self.abstract_comprehension(s, node, gen, itv, kind)
            saved = {}
            names = self.assigned_names([ast.Expr(gen.target)]) if False else _target_names(gen.target)
            for n in names:
                saved[n] = s.locals.get(n)
            results = [(s, [])]
            for item in items:
                nxt = []
                for s1, acc in results:
                    if isinstance(acc, Raised):
                        nxt.append((s1, acc))
                        continue
                    for s2, o in self.assign(gen.target, item, s1):
                        if o is not None:
                            nxt.append((s2, o))
                            continue
                        conds = [(s2, True)]
                        for cnd in gen.ifs:
                            cn = []
                            for s3, keep in conds:
                                if keep is not True:
                                    cn.append((s3, keep))
                                    continue
                                for s4, cv in self.ev(cnd, s3):
                                    if isinstance(cv, Raised):
                                        cn.append((s4, cv))
                                    else:
                                        for s5, t in self.branch(s4, self.truth(s4, cv)):
                                            cn.append((s5, True if t else False))
                            conds = cn
                        for s3, keep in conds:
                            if isinstance(keep, Raised):
                                nxt.append((s3, keep))
                            elif keep is False:
                                nxt.append((s3, acc))
                            else:
                                if kind == "dict":
                                    for s4, kv in self.ev_list([node.key, node.value], s3):
                                        nxt.append((s4, kv if isinstance(kv, Raised) else acc + [tuple(kv)]))
                                else:
                                    for s4, ev in self.ev(node.elt, s3):
                                        nxt.append((s4, ev if isinstance(ev, Raised) else acc + [ev]))
                results = nxt
            out = []
            for s1, acc in results:
                for n, old in saved.items():
                    if old is None:
                        s1.locals.pop(n, None)
                    else:
                        s1.locals[n] = old
                if isinstance(acc, Raised):
                    out.append((s1, acc))
                elif kind == "dict":
                    ref = s1.alloc(HDict())
                    rs = [(s1, None)]
                    for k, v in acc:
                        nn = []
                        for s2, o in rs:
                            nn.extend(self.set_item(s2, ref, k, v) if o is None else [(s2, o)])
                        rs = nn
                    out.extend((s2, o if o is not None else ref) for s2, o in rs)
                elif kind == "gen":
                    # a generator expression over a concrete spine, evaluated eagerly (its element
                    # and filter expressions are evaluated for every item, in order): an iterator
                    out.append((s1, s1.alloc(HCIter(list(acc)))))
                else:
                    out.append((s1, s1.alloc(HList(items=acc))))
            return out

        return self.bind(self.ev(gen.iter, st), f)

    def abstract_dict_comprehension(self, st, node, gen, seq):
        """{k(x): v(x) for x in xs} over a symbolic xs: key and value expressions are executed
        once for an ARBITRARY element (what they may raise, for any element; an empty xs skips
        them), and the result is a dict about whose contents nothing is known."""
        import hashlib

        tagname = hashlib.sha1((ast.dump(node.key) + ast.dump(node.value)).encode()).hexdigest()[:8]
        n = len(st.log)
        out = []
        s_empty = st.fork().assume(z3.Length(seq) == 0)
        if feasible(s_empty.pc):
            out.append((s_empty, s_empty.alloc(HDict(items={}))))
        s1 = st.fork().assume(z3.Length(seq) > 0)
        if not feasible(s1.pc):
            return out
        idx = z3.Int(f"dictcomp_ix_{tagname}_{n}")
        s1.assume(z3.And(idx >= 0, idx < z3.Length(seq)))
        elem = VU(seq[idx])
        names = _target_names(gen.target)
        saved = {nm: s1.locals.get(nm) for nm in names}
        for s2, _ in self.assign(gen.target, elem, s1):
            for s3, kv in self.ev(node.key, s2):
                if isinstance(kv, Raised):
                    out.append((s3, kv))
                    continue
                for s4, vv in self.ev(node.value, s3):
                    for nm, old_ in saved.items():
                        if old_ is None:
                            s4.locals.pop(nm, None)
                        else:
                            s4.locals[nm] = old_
                    if isinstance(vv, Raised):
                        out.append((s4, vv))
                        continue
                    pres = z3.Const(f"dictcomp_{tagname}_{n}_present", z3.ArraySort(U, B))
                    vals = z3.Const(f"dictcomp_{tagname}_{n}_val", z3.ArraySort(U, U))
                    out.append((s4, s4.alloc(HDict(items={}, present=pres, val=vals))))
        return out

    def abstract_comprehension(self, st, node, gen, itv, kind):
        """[f(x) for x in xs] over a symbolic xs: result is map$<elt>(xs, captured...)"""
        tail = []
        if isinstance(itv, VRef) and isinstance(st.deref(itv), HList) and st.deref(itv).items is None:
            seq = st.deref(itv).seq
            tail = list(st.deref(itv).tail)
        else:
            seq = self.as_seq(st, itv)
        if seq is not None and not gen.ifs and kind == "dict" and not tail:
            return self.abstract_dict_comprehension(st, node, gen, seq)
        if seq is None or gen.ifs or kind == "dict":
            raise Unsupported(f"comprehension over {itv!r} at line {node.lineno}")
        key = ast.dump(node.elt) + "|" + ast.dump(gen.target)
        import hashlib

        name = "map$" + hashlib.sha1(key.encode()).hexdigest()[:8]
        # free variables of the element expression (other than the target) are arguments
        tnames = _target_names(gen.target)
        free = sorted({n.id for n in ast.walk(node.elt) if isinstance(n, ast.Name) and n.id not in tnames})
        args = []
        for n in free:
            v = st.locals.get(n)
            if v is None:
                continue
            try:
                args.append(box(v))
            except Unsupported:
                continue
        f = z3.Function(name, SeqU, *[U] * len(args), I, SeqU)
        res = f(seq, *args, z3.IntVal(st.world))
        st.assume(z3.Length(res) == z3.Length(seq))
        self.opaque_used[f"comprehension {ast.unparse(node.elt)} (element function uninterpreted, assumed total)"] = 1
        st.ghost["__maps__"] = dict(st.ghost.get("__maps__", {}))
        st.ghost["__maps__"][name] = (ast.unparse(node.elt), seq)
        # concretely appended elements: evaluate the element expression on each
        results = [(st, [])]
        saved = {n: st.locals.get(n) for n in tnames}
        for item in tail:
            nxt = []
            for s1, acc in results:
                if isinstance(acc, Raised):
                    nxt.append((s1, acc))
                    continue
                for s2, o in self.assign(gen.target, item, s1):
                    if o is not None:
                        nxt.append((s2, o))
                        continue
                    for s3, ev in self.ev(node.elt, s2):
                        nxt.append((s3, ev if isinstance(ev, Raised) else acc + [ev]))
            results = nxt
        out = []
        for s1, acc in results:
            for n, old in saved.items():
                if old is None:
                    s1.locals.pop(n, None)
                else:
                    s1.locals[n] = old
            out.append((s1, acc if isinstance(acc, Raised) else s1.alloc(HList(seq=res, tail=acc))))
        return out


class _Splice:
    """`*x` in a list display where x has a symbolic spine"""

    def __init__(self, seq):
        self.seq = seq


class _Done:
    def __init__(self, v):
        self.v = v


class _Frozen:
    """wrapper making constant containers hashable / comparable"""

    def __init__(self, data):
        self.data = data

    def __eq__(self, other):
        return isinstance(other, _Frozen) and self.data == other.data

    def __hash__(self):
        return hash(repr(self.data))

    def __bool__(self):
        return bool(self.data)

    def __repr__(self):
        return f"_Frozen({self.data!r})"


def _target_names(t):
    return {n.id for n in ast.walk(t) if isinstance(n, ast.Name)}


def _literal(expr):
    """Evaluate a literal-like module constant; ValueError if not one."""
    if isinstance(expr, ast.Constant):
        return expr.value
    if isinstance(expr, (ast.Tuple, ast.List)):
        vals = [_literal(e) for e in expr.elts]
        return tuple(vals) if isinstance(expr, ast.Tuple) else vals
    if isinstance(expr, ast.Set):
        return {_literal(e) for e in expr.elts}
    if isinstance(expr, ast.Dict):
        return {_literal(k): _literal(v) for k, v in zip(expr.keys, expr.values)}
    if isinstance(expr, ast.UnaryOp) and isinstance(expr.op, ast.USub):
        return -_literal(expr.operand)
    if isinstance(expr, ast.BinOp) and isinstance(expr.op, (ast.LShift, ast.Add, ast.Sub, ast.Mult, ast.Pow)):
        a, b = _literal(expr.left), _literal(expr.right)
        if isinstance(a, int) and isinstance(b, int) and not isinstance(a, bool):
            if isinstance(expr.op, ast.LShift):
                return a << b
            if isinstance(expr.op, ast.Add):
                return a + b
            if isinstance(expr.op, ast.Sub):
                return a - b
            if isinstance(expr.op, ast.Mult):
                return a * b
            if isinstance(expr.op, ast.Pow) and 0 <= b < 200:
                return a ** b
        raise ValueError("not a literal")
    if isinstance(expr, ast.Call):
        f = ast.unparse(expr.func)
        if f == "sys.intern" and len(expr.args) == 1:
            return _literal(expr.args[0])
        if f == "frozenset" and len(expr.args) == 1:
            return frozenset(_literal(expr.args[0]))
        if f == "frozenset" and not expr.args:
            return frozenset()
    raise ValueError("not a literal")
