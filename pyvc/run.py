"""Driver: ./check Cnn [--tier quick|thorough] [--replay FILE]

Exit codes: 0 held, 1 violation (unlisted), 2 undecided, 3 checker error.
"""
from __future__ import annotations

import argparse
import hashlib
import importlib
import json
import multiprocessing as mp
import os
import re
import subprocess
import sys
import time

VERIF = os.path.dirname(os.path.dirname(os.path.abspath(__file__)))
REPO = os.environ.get("VERIF_REPO", "/repo")
NATIVE_PY = os.environ.get("VERIF_NATIVE_PY", "/venv/bin/python")

STRUCTURAL: dict[str, list] = {}
BOUNDED: dict[str, list] = {}
NOT_COVERED: dict[str, list] = {}


def structural(prop, name):
    """Register a structural obligation generator: fn() -> list of obligation dicts
    {label, status: discharged|refuted|undecided, detail, model?, replay_schema?}"""

    def deco(fn):
        STRUCTURAL.setdefault(prop, []).append((name, fn))
        return fn

    return deco


def bounded(prop, script, args=(), label=None):
    BOUNDED.setdefault(prop, []).append((script, list(args), label or script))


def not_covered(prop, *items):
    NOT_COVERED.setdefault(prop, []).extend(items)


def _run_contract(i_prop):
    from .contract import REGISTRY, verify_contract

    prop, i, tier = i_prop
    return verify_contract(REGISTRY[prop][i], tier)


def _run_conformance(_arg):
    """engine self-test (pyvc/conformance.py): the encoding agrees with CPython on the snippet suite"""
    try:
        from .conformance import run_all

        st = run_all()
        st["unsupported"] = len(st["unsupported"])
        return st
    except Exception as e:  # noqa: BLE001
        return {"error": f"{type(e).__name__}: {e}", "mismatches": [], "cases": 0}


def _run_structural(args):
    prop, i = args
    name, fn = STRUCTURAL[prop][i]
    t0 = time.time()
    try:
        obs = fn()
        for o in obs:
            o.setdefault("kind", "structural")
            o.setdefault("backends", ["pyvc-flow"])
            o["id"] = f"{prop}/{name}/{o['label']}"
            o.setdefault("time_s", 0.0)
        return {"contract": f"{prop}/{name}", "obligations": obs, "error": None if obs else "zero obligations generated", "wall_s": round(time.time() - t0, 3), "assumptions": [], "structural": True}
    except Exception as e:
        import traceback

        return {"contract": f"{prop}/{name}", "obligations": [], "error": f"{type(e).__name__}: {e}\n{traceback.format_exc()[-1200:]}", "wall_s": round(time.time() - t0, 3), "assumptions": [], "structural": True}


def native(script, payload=None, args=(), timeout=600):
    """Run a script of /verif under the repo's interpreter; JSON in/out."""
    env = dict(os.environ)
    env["PYTHONPATH"] = REPO + os.pathsep + VERIF
    env.setdefault("LIQUID_VERIF", "1")
    p = subprocess.run(
        [NATIVE_PY, os.path.join(VERIF, script), *args],
        input=json.dumps(payload) if payload is not None else None,
        capture_output=True, text=True, cwd=VERIF, env=env, timeout=timeout,
    )
    lines = [l for l in p.stdout.splitlines() if l.strip()]
    if p.returncode != 0 or not lines:
        raise RuntimeError(f"{script} failed rc={p.returncode}: {p.stderr[-2000:]} {p.stdout[-500:]}")
    return json.loads(lines[-1])


def load_findings():
    path = os.path.join(VERIF, "known_findings.json")
    if not os.path.exists(path):
        return []
    with open(path) as fd:
        return json.load(fd).get("findings", [])


def finding_for(findings, prop, ob_id, witness):
    for f in findings:
        if f.get("status") == "fixed":
            continue
        if f["property"] != prop or f["obligation"] != ob_id:
            continue
        w = f.get("witness")
        if w is None or (witness is not None and re.search(w, witness)):
            return f
    return None


def safe(s):
    return re.sub(r"[^A-Za-z0-9_.-]+", "_", s)[:150]


def do_replay(prop, ob, rep):
    """Replay a refuted obligation natively; returns (replay_path, witness, failing)"""
    out = {
        "property": prop,
        "obligation": ob["id"],
        "kind": ob.get("kind"),
        "contract": rep.get("contract"),
        "function": rep.get("function"),
        "solver": ob.get("backends"),
        "model": ob.get("model"),
        "detail": ob.get("detail"),
        "vc_smt2": ob.get("smt2"),
        "native": None,
    }
    witness = None
    failing = None
    schema = ob.get("replay_schema")
    if schema:
        try:
            # a replay is a short script; a replay that does not return (a seeded deadlock, an input that
            # makes the library hang) is cut off and recorded, the violation is still reported
            r = native("replay/run.py", {"schema": schema, "model": ob.get("model"), "extra": ob.get("replay_extra", {}), "obligation": ob["id"], "detail": ob.get("detail")}, timeout=float(os.environ.get("VERIF_REPLAY_TIMEOUT_S", 120)))
            out["native"] = r
            witness = r.get("witness")
            failing = r.get("failing")
        except Exception as e:
            out["native"] = {"error": str(e)[-1500:]}
    d = os.path.join(VERIF, "replays", prop)
    os.makedirs(d, exist_ok=True)
    path = os.path.join(d, safe(ob["id"].split("/", 1)[1]) + ".json")
    with open(path, "w") as fd:
        json.dump(out, fd, indent=1, default=str)
    return os.path.relpath(path, VERIF), witness, failing


def main(argv=None):
    ap = argparse.ArgumentParser()
    ap.add_argument("prop")
    ap.add_argument("--tier", default=os.environ.get("VERIF_TIER", "quick"))
    ap.add_argument("--replay")
    ap.add_argument("--jobs", type=int, default=int(os.environ.get("VERIF_JOBS", "16")))
    ap.add_argument("--only", help="substring filter on contract ident (debugging; evidence not written)")
    a = ap.parse_args(argv)
    prop = a.prop
    seed = int(os.environ.get("VERIF_SEED", "0"))
    t0 = time.time()
    sys.path.insert(0, VERIF)

    if a.replay:
        with open(os.path.join(VERIF, a.replay) if not os.path.isabs(a.replay) else a.replay) as fd:
            rp = json.load(fd)
        if rp.get("bounded"):
            r = native(rp["bounded"]["script"], rp["bounded"], args=["--replay"])
        elif rp.get("native") and rp["native"].get("request"):
            r = native("replay/run.py", rp["native"]["request"])
        else:
            print("replay file has no native request; obligation:", rp.get("obligation"))
            print(json.dumps(rp.get("model")))
            return 0
        print(json.dumps(r, indent=1))
        if r.get("failing"):
            print(f"VIOLATION property={prop} replay={a.replay}")
            return 1
        return 0

    try:
        importlib.import_module(f"contracts.{prop}")
    except ModuleNotFoundError as e:
        print(f"checker error: no contracts for {prop}: {e}")
        return 3
    from .contract import REGISTRY

    cdefs = REGISTRY.get(prop, [])
    idx = [i for i, c in enumerate(cdefs) if not a.only or a.only in c.ident]
    ctx = mp.get_context("fork")
    reports = []
    jobs = [(prop, i, a.tier) for i in idx]
    sjobs = [(prop, i) for i, (n, _f) in enumerate(STRUCTURAL.get(prop, [])) if not a.only or a.only in n]
    with ctx.Pool(max(1, min(a.jobs, len(jobs) + len(sjobs) or 1))) as pool:
        r1s = [pool.apply_async(_run_contract, (j,)) for j in jobs]
        r2 = pool.map_async(_run_structural, sjobs, chunksize=1)
        r3 = pool.map_async(_run_conformance, [0] if not os.environ.get("VERIF_NO_CONFORMANCE") else [], chunksize=1)
        # bounded stand-ins run concurrently under the native interpreter
        bres = []
        for script, bargs, label in BOUNDED.get(prop, []):
            if a.only and a.only not in label:
                continue
            tb = time.time()
            try:
                r = native(script, None, args=[*bargs, "--tier", a.tier, "--seed", str(seed)], timeout=3000)
                r["label"] = label
                r["script"] = script
                r["args"] = bargs
            except Exception as e:
                r = {"label": label, "script": script, "error": str(e)[-2000:], "violations": [], "cases": 0}
            r["wall_s"] = round(time.time() - tb, 2)
            bres.append(r)
        # watchdog: a contract whose solver call never returns (z3 does not always honour its
        # timeout inside the sequence theory) must not hang the check: exit 3, never a violation
        deadline = time.time() + float(os.environ.get("VERIF_WATCHDOG_S", 2700 if a.tier == "quick" else 6 * 3600))
        reports, hung = [], []
        for j, r in zip(jobs, r1s):
            try:
                reports.append(r.get(timeout=max(1.0, deadline - time.time())))
            except mp.TimeoutError:
                hung.append(cdefs[j[1]].ident)
        if hung:
            pool.terminate()
            for h in hung:
                print(f"CHECKER-ERROR {h}: watchdog: no result within the time budget (solver call did not return)")
            print(f"{prop}: checker error (watchdog), {len(hung)} contract(s) unfinished")
            return 3
        reports = reports + r2.get()
        conf = (r3.get() or [None])[0]

    findings = load_findings()
    # replay files describe THIS run only
    rdir = os.path.join(VERIF, "replays", prop)
    if os.path.isdir(rdir) and not a.only:
        for fn in os.listdir(rdir):
            try:
                os.unlink(os.path.join(rdir, fn))
            except OSError:
                pass
    violations = []
    known = []
    errors = []
    undecided = []
    n_obl = n_dis = 0
    solver_time = 0.0
    backends = {}
    functions = []
    assumptions = set()
    samples = []
    xc_tot = {"contracts": 0, "samples": 0, "compared_equal": 0, "skipped_abstract": 0, "ambiguous": 0, "mismatches": 0, "not_applicable": 0}
    canary = {"witnessed": 0, "unknown": 0}
    second = {}
    for rep in reports:
        xc = rep.get("crosscheck")
        if xc is not None:
            if xc.get("error") and not xc.get("samples"):
                xc_tot["not_applicable"] += 1
            else:
                xc_tot["contracts"] += 1
                xc_tot["samples"] += xc.get("samples", 0)
                xc_tot["compared_equal"] += xc.get("compared", 0)
                xc_tot["skipped_abstract"] += xc.get("skipped_abstract", 0)
                xc_tot["ambiguous"] += xc.get("ambiguous", 0)
                xc_tot["mismatches"] += xc.get("n_mismatches", 0)
        for ob in rep["obligations"]:
            for k_, v_ in (ob.get("recheck") or {}).items():
                second[k_] = second.get(k_, 0) + v_
            if ob.get("canary") is True:
                canary["witnessed"] += 1
            elif ob.get("canary") == "unknown":
                canary["unknown"] += 1
        if rep.get("function"):
            functions.append(rep["function"])
        for fi in rep.get("inlined_info", []):
            if fi not in functions:
                functions.append(fi)
        for x in rep.get("assumptions", []):
            assumptions.add(x)
        for x in rep.get("opaque", []):
            assumptions.add(f"uninterpreted callee/operation in {rep['contract']}: {x} (assumed to terminate without raising unless a raises-set is modelled)")
        for x in rep.get("bounded_loops", []):
            assumptions.add(f"BOUNDED loop in {rep['contract']}: {x}")
        if rep.get("error"):
            errors.append((rep["contract"], rep["error"]))
        for ob in rep["obligations"]:
            n_obl += 1
            solver_time += ob.get("time_s", 0)
            for b in ob.get("backends", []):
                backends[b] = backends.get(b, 0) + 1
            if ob["status"] == "discharged":
                n_dis += 1
                if len(samples) < 3:
                    samples.append({"obligation": ob["id"], "kind": ob["kind"], "status": "discharged", "backend": ob.get("backends"), "paths": ob.get("paths")})
            elif ob["status"] == "undecided":
                undecided.append(ob["id"])
            elif (rep.get("crosscheck") or {}).get("n_mismatches"):
                # the engine's encoding of this function disagrees with CPython: nothing it
                # refutes is believed (checker error, exit 3), never a violation
                undecided.append(ob["id"] + " (engine disagrees with CPython on this function; refutation not trusted)")
            else:
                path, witness, failing = do_replay(prop, ob, rep)
                f = finding_for(findings, prop, ob["id"], witness)
                if f is not None:
                    known.append((ob["id"], f))
                else:
                    violations.append((ob["id"], path, failing, witness))
    if conf is not None:
        if conf.get("error"):
            errors.append(("engine-conformance", conf["error"]))
        for mm in conf.get("mismatches", [])[:5]:
            errors.append(("engine-conformance", f"the engine disagrees with CPython on {mm['function']}{mm['args']}: engine {mm['engine']!r}, CPython {mm['cpython']!r}"))
    # bounded stand-ins
    bcov = []
    for r in bres:
        if r.get("error"):
            errors.append((r["label"], r["error"]))
        bcov.append({k: r.get(k) for k in ("label", "bound", "cases", "distinct", "wall_s", "sample")})
        seen_b = set()
        reported = {}
        for v in r.get("violations", []):
            vid = f"{prop}/bounded:{r['label']}/{v['id']}"
            if (vid, v.get("witness")) in seen_b:
                continue
            seen_b.add((vid, v.get("witness")))
            f = finding_for(findings, prop, vid, v.get("witness"))
            if f is not None:
                if (vid, f) not in known:
                    known.append((vid, f))
                continue
            # listed findings never use up the reporting budget of unlisted violations
            reported[vid] = reported.get(vid, 0) + 1
            if reported[vid] > 5:
                continue
            d = os.path.join(VERIF, "replays", prop)
            os.makedirs(d, exist_ok=True)
            path = os.path.join(d, safe("bounded_" + r["label"] + "_" + v["id"] + "_" + str(v.get("witness") or "")) + ".json")
            with open(path, "w") as fd:
                json.dump({"property": prop, "obligation": vid, "bounded": {"script": r["script"], "args": r.get("args"), "case": v}, "detail": v}, fd, indent=1, default=str)
            violations.append((vid, os.path.relpath(path, VERIF), True, v.get("witness")))

    seen_known = set()
    for ob_id, f in known:
        key = (f["obligation"], f.get("witness"))
        if key in seen_known:
            continue
        seen_known.add(key)
        print(f"KNOWN-FINDING: property={prop} {f['what']} [{ob_id}]")
    for ob_id, path, failing, witness in violations:
        tail = "" if failing else " no-failing-input-found"
        print(f"VIOLATION property={prop} replay={path} obligation={ob_id}{tail}")
    for c, e in errors:
        print(f"CHECKER-ERROR {c}: {e}")
    for u in undecided:
        print(f"UNDECIDED {u}")

    wall = time.time() - t0
    all_proved = n_obl > 0 and n_dis == n_obl and not errors and not known
    claimed = None
    try:
        with open(os.path.join(VERIF, "MANIFEST.json")) as fd:
            for chk in json.load(fd).get("checks", []):
                if chk["property_id"] == prop:
                    claimed = chk["level_claimed"]["category"]
    except Exception:
        pass
    # 'proof' is reported only when it is claimed AND every obligation was discharged with no
    # finding left open; a check claimed at level 'other' always reports 'other'
    level = "proof" if (all_proved and claimed in (None, "proof")) else "other"
    ncov = NOT_COVERED.get(prop, [])
    cov = {
        "obligations": n_obl,
        "discharged": n_dis,
        "refuted": len(violations) + len(known),
        "undecided": len(undecided),
        "checker_cmd": f"./check {prop} --tier {a.tier}",
        "trusted_base": sorted(assumptions)[:200],
        "functions_under_contract": functions,
        "contracts": [{"contract": r["contract"], "paths": r.get("paths"), "obligations": len(r["obligations"]), "wall_s": r.get("wall_s"), "error": bool(r.get("error"))} for r in reports],
        "backends": backends,
        "solver_time_s": round(solver_time, 3),
        "bounded": bcov,
        "cpython_crosscheck": {**xc_tot, "what": "path summaries (path condition -> result term / raised class) of every contract whose call takes scalar inputs and uses no callee summary, evaluated on sampled concrete inputs and compared with the real function under CPython; a mismatch is a checker error"},
        "engine_conformance": ({k: (len(v) if isinstance(v, list) else v) for k, v in conf.items()} if conf is not None else None),
        "second_solver_recheck": ({**second, "what": "thorough tier: every unsat answer of z3 re-submitted to cvc5; sat = solver disagreement (checker error)"} if second else None),
        "canary": {**canary, "what": "discharged obligations with a feasible path on which the claim is satisfiable (a discharged obligation with none is a checker error: vacuous)"},
        "not_covered": ncov,
        "known_findings": [f["what"] for _i, f in known],
        "samples": samples or [{"note": "no discharged obligation"}],
        "explanation": (
            f"{n_dis}/{n_obl} obligations discharged by pyvc (ast->SMT VC generator over /repo's current source; z3 {backends.get('z3', 0)}, cvc5 {backends.get('cvc5', 0)}, "
            f"structural/frame {backends.get('pyvc-flow', 0)}); bounded stand-ins are listed under coverage.bounded and are NOT counted as discharged; "
            f"{len(known)} known finding(s) leave obligations open, so the level is 'other' rather than 'proof' when any is present."
        ),
        # generic fallback keys (measured)
        "evaluations": n_obl + sum((b.get("cases") or 0) for b in bcov),
        "distinct_nontrivial": n_dis + sum((b.get("distinct") or 0) for b in bcov),
        "rule": "one evaluation per proof obligation (distinct by obligation id) plus one per bounded stand-in case (distinct inputs as counted by the stand-in)",
    }
    ev = {
        "property_id": prop,
        "tier": a.tier if a.tier in ("quick", "thorough") else "quick",
        "seed": seed,
        "level": level,
        "coverage": cov,
        "assumptions": sorted(assumptions) + [f"not covered: {x}" for x in ncov],
        "wall_s": round(wall, 2),
        "violations": len(violations),
    }
    if not a.only and not os.environ.get("VERIF_NO_EVIDENCE"):
        os.makedirs(os.path.join(VERIF, "evidence"), exist_ok=True)
        with open(os.path.join(VERIF, "evidence", f"{prop}.json"), "w") as fd:
            json.dump(ev, fd, indent=1, default=str)
    print(f"{prop}: obligations={n_obl} discharged={n_dis} refuted={len(violations)} known={len(seen_known)} undecided={len(undecided)} errors={len(errors)} bounded_cases={sum((b.get('cases') or 0) for b in bcov)} wall={wall:.1f}s")
    if violations:
        return 1
    if errors:
        return 3
    if undecided:
        return 2
    return 0


if __name__ == "__main__":
    sys.exit(main())
