"""CPython cross-check of the engine's path summaries (DESIGN 2.7).

For a contract whose call takes scalar symbolic inputs, the outcomes computed by the symbolic
executor -- (path condition, result term | raised class) -- are evaluated on concrete inputs
drawn from typed pools and compared with what the REAL function returns/raises under CPython.
A disagreement means the ast->SMT encoding (or an assumed builtin contract) misrepresents
Python: it is an engine error (exit 3), never a property violation.  Samples that violate the
contract's precondition, paths whose result depends on an uninterpreted function (floats,
opaque callees) and samples on which more than one path stays feasible are skipped and counted.
"""
from __future__ import annotations

import itertools
import json
import os
import random
import subprocess

import z3

from .state import Raised, Ret, box, concrete
from .u import *  # noqa: F403

VERIF = os.path.dirname(os.path.dirname(os.path.abspath(__file__)))

INT_POOL = [0, 1, -1, 2, 3, -2, 5, 7, -7, 10, 11, 100, -100, 255, 2**31, 2**63, -(2**63) - 1, 10**30 + 1]
STR_POOL = ["", "a", "ab", "abc", " ", "  a  b ", "hello world", "...", "a,b,,c", "1", "-2", "1.5", "x" * 17, "Hello", "\t\n x\r\n", "é√", "%s", "a-b-c", "0", "  12  ", "ABC def", "<&>\"'"]
BOOL_POOL = [True, False]


def u_pool():
    return [None, True, False, 0, 1, -1, 2, 7, 10**20, "", "a", "abc", "1", "1.5", " 3 ", "x y"]


def to_term(sort, v):
    if sort == I:
        return z3.IntVal(v)
    if sort == B:
        return z3.BoolVal(v)
    if sort == S:
        return z3.StringVal(v)
    if sort == U:
        if v is None:
            return U.none
        if isinstance(v, bool):
            return U.bool(z3.BoolVal(v))
        if isinstance(v, int):
            return U.int(z3.IntVal(v))
        if isinstance(v, str):
            return U.str(z3.StringVal(v))
    if sort == SeqU:
        if not v:
            return z3.Empty(SeqU)
        units = [z3.Unit(to_term(U, x)) for x in v]
        return units[0] if len(units) == 1 else z3.Concat(*units)
    raise ValueError(f"no concrete term for {v!r} of sort {sort}")


def _pool_for(term, pools, name):
    if name in pools:
        return pools[name]
    s = term.sort()
    if s == I:
        return INT_POOL
    if s == S:
        return STR_POOL
    if s == B:
        return BOOL_POOL
    if s == U:
        return u_pool()
    if s == SeqU:
        return [[], [1], [1, 2, 3], ["a", None, "a"], [3, 1, 2, 1], [None, None], ["b", "a", 1, True]]
    return None


def _arg_desc(c, v):
    """how to pass Val `v` natively: ('name', input) | ('const', py) | None"""
    t = getattr(v, "t", None)
    if t is not None:
        for n, it in c.inputs.items():
            if it.sort() == t.sort() and it.eq(t):
                return ("name", n)
    if isinstance(v, VRef):
        h = c.st.deref(v)
        if isinstance(h, HList) and h.seq is not None and not h.tail and h.items is None:
            for n, it in c.inputs.items():
                if it.sort() == SeqU and it.eq(h.seq):
                    return ("list", n)
    try:
        py = concrete(v)
    except Exception:
        return None
    if py is None and not isinstance(v, VNone):
        return None
    if isinstance(py, (type(None), bool, int, str)):
        return ("const", py)
    return None


def _try(f, *a):
    try:
        f(*a)
        return True
    except Exception:  # noqa: BLE001
        return False


def _py_str(v):
    return str(v)


# ground interpretations of the engine's uninterpreted library functions: on CONCRETE arguments
# the abstract model must agree with what CPython computes (this is also the differential
# validation of the assumed builtin contracts, DESIGN 3)
GROUND = {
    "str_is_int": lambda s: _try(int, s),
    "int_of_str": lambda s: int(s),
    "str_is_float": lambda s: _try(float, s),
    "utf8len": lambda s: len(s.encode("utf-8", "surrogatepass")),
    "str_of_u": _py_str,
    "repr_of_u": lambda v: repr(v),
    "repr_str": lambda s: repr(s),
    "str_lower": lambda s: s.lower(),
    "str_upper": lambda s: s.upper(),
    "str_capitalize": lambda s: s.capitalize(),
    "str_strip": lambda s: s.strip(),
    "str_lstrip": lambda s: s.lstrip(),
    "str_rstrip": lambda s: s.rstrip(),
    "str_strip_chars": lambda s, c: s.strip(c),
    "str_lstrip_chars": lambda s, c: s.lstrip(c),
    "str_rstrip_chars": lambda s, c: s.rstrip(c),
    "str_isspace": lambda s: s.isspace(),
    "str_isdigit": lambda s: s.isdigit(),
    "str_replace": lambda s, a, b: s.replace(a, b),
    "str_replace_all": lambda s, a, b: s.replace(a, b),
    "str_replace_n": lambda s, a, b, n: s.replace(a, b, n),
    "str_split": lambda s, sep: s.split(sep),
    "str_split_ws": lambda s: s.split(),
    "str_join": lambda sep, xs: sep.join(xs),
    "str_chars": lambda s: list(s),
    "str_rindex": lambda s, sub: s.rindex(sub),
    "seq_reverse": lambda xs: list(reversed(xs)),
    "sum_ints": lambda xs: sum(xs),
    "decimal_wellformed": lambda s: _try(__import__("decimal").Decimal, s),
}


def _ground_value(t):
    """z3 value term -> (True, python value) | (False, None)"""
    from .contract import term_py

    if z3.is_int_value(t) or z3.is_true(t) or z3.is_false(t) or z3.is_string_value(t):
        return True, term_py(t)
    if t.sort() == U and z3.is_app(t) and t.decl().name() in ("none", "bool", "int", "str"):
        if t.num_args() == 0:
            return True, None
        ok, v = _ground_value(t.arg(0))
        return ok, v
    if t.sort() == SeqU:
        py = term_py(t)
        if isinstance(py, list) and not any(isinstance(x, dict) for x in py):
            return True, py
    return False, None


def ground_eval(t, depth=0):
    """rewrite applications of the GROUND functions on concrete arguments to their CPython value"""
    memo = {}

    def go(x):
        k = x.get_id()
        if k in memo:
            return memo[k]
        r = x
        if z3.is_app(x) and x.num_args() > 0 and not z3.is_quantifier(x):
            kids = [go(c) for c in x.children()]
            if any(not a.eq(b) for a, b in zip(kids, x.children())):
                r = z3.simplify(x.decl()(*kids))
            if z3.is_app(r) and r.decl().name() in GROUND and r.decl().kind() == z3.Z3_OP_UNINTERPRETED:
                vals = [_ground_value(z3.simplify(c)) for c in r.children()]
                if all(ok for ok, _ in vals):
                    try:
                        py = GROUND[r.decl().name()](*[v for _, v in vals])
                        r = to_term(r.sort(), py)
                    except Exception:  # noqa: BLE001  (the model's guard decides whether this is reached)
                        pass
        memo[k] = r
        return r

    out = z3.simplify(go(t))
    if depth < 4 and not out.eq(t):
        return ground_eval(out, depth + 1)
    return out


def _subst(t, pairs):
    return ground_eval(z3.simplify(z3.substitute(t, *pairs)))


def _decide(pcs, pairs):
    """pc (list of z3 Bool) under the substitution -> True | False | None (unknown)"""
    if not pcs:
        return True
    f = _subst(z3.And(*pcs) if len(pcs) > 1 else pcs[0], pairs)
    if z3.is_true(f):
        return True
    if z3.is_false(f):
        return False
    s = z3.Solver()
    s.set("timeout", 500)
    s.add(f)
    r = s.check()
    if r == z3.unsat:
        return False
    # sat with uninterpreted symbols left: is the negation also satisfiable?
    s2 = z3.Solver()
    s2.set("timeout", 500)
    s2.add(z3.Not(f))
    if r == z3.sat and s2.check() == z3.unsat:
        return True
    return None


def _value_py(st, val, pairs):
    """engine result -> ('ok', python value) | ('skip', why)"""
    from .contract import term_py

    if isinstance(val, VTuple):
        out = []
        for x in val.items:
            k, v = _value_py(st, x, pairs)
            if k != "ok":
                return k, v
            out.append(v)
        return "ok", {"$t": out}
    if isinstance(val, VRef):
        h = st.deref(val)
        if isinstance(h, HList):
            items = []
            if h.items is not None:
                parts = list(h.items)
            else:
                t = _subst(h.seq, pairs)
                py = term_py(t)
                if not isinstance(py, list) or any(isinstance(x, dict) for x in py):
                    return "skip", "symbolic list"
                items.extend(py)
                parts = list(h.tail)
            for x in parts:
                k, v = _value_py(st, x, pairs)
                if k != "ok":
                    return k, v
                items.append(v)
            return "ok", items
        return "skip", f"heap object {type(h).__name__}"
    if isinstance(val, VSeq):
        t = _subst(val.t, pairs)
        py = term_py(t)
        if not isinstance(py, list) or any(isinstance(x, dict) for x in py):
            return "skip", "symbolic sequence"
        return "ok", ({"$t": py} if val.kind == "tuple" else py)
    if isinstance(val, (VFlt, VOpaque, VFunc, VBound, VBuiltin, VClass, VRange)):
        return "skip", type(val).__name__
    try:
        t = box(val)
    except Exception as e:  # noqa: BLE001
        return "skip", f"unboxable {type(val).__name__}: {e}"
    t = _subst(t, pairs)
    py = term_py(t)
    if isinstance(py, dict):
        return "skip", "non-ground result " + str(py)[:60]
    return "ok", py


def run_crosscheck(c, eng, outcomes, tier, seed):
    spec = c.crosscheck_spec or {}
    names = list(c.inputs)
    pools = {}
    for n in names:
        p = _pool_for(c.inputs[n], {**c.pools, **spec.get("pools", {})}, n)
        if p is None:
            if n in spec.get("ignore", ()):  # derived input terms (model extraction helpers)
                continue
            return {"error": f"cross-check: no pool for input {n} of sort {c.inputs[n].sort()}"}
        if z3.is_const(c.inputs[n]) and c.inputs[n].decl().kind() == z3.Z3_OP_UNINTERPRETED:
            pools[n] = p
    descs = []
    for a in c.args:
        d = _arg_desc(c, a)
        if d is None:
            return {"error": f"cross-check: argument {a!r} has no concrete counterpart"}
        descs.append(d)
    kdescs = {}
    for k, a in c.kwargs.items():
        d = _arg_desc(c, a)
        if d is None:
            return {"error": f"cross-check: keyword argument {k} has no concrete counterpart"}
        kdescs[k] = d
    if c.self_val is not None and not spec.get("self_code"):
        return {"error": "cross-check: method contracts need self_code"}
    n_samples = spec.get("n") or (200 if tier == "quick" else 3000)
    rnd = random.Random(seed * 7919 + 17)
    pnames = sorted(pools)
    total = 1
    for n in pnames:
        total *= len(pools[n])
    if total <= n_samples:
        combos = [dict(zip(pnames, vs)) for vs in itertools.product(*[pools[n] for n in pnames])]
    else:
        combos = [{n: rnd.choice(pools[n]) for n in pnames} for _ in range(n_samples)]
    pre = [cond for _l, cond in c.pre]
    calls, kept = [], []
    stats = {"samples": 0, "outside_precondition": 0, "compared": 0, "skipped_abstract": 0, "ambiguous": 0, "no_path": 0}
    plans = []
    for sigma in combos:
        pairs = [(c.inputs[n], to_term(c.inputs[n].sort(), v)) for n, v in sigma.items()]
        ok = _decide(pre, pairs)
        if ok is not True:
            stats["outside_precondition"] += 1
            continue
        feas = []
        unknown = False
        for s, o in outcomes:
            d = _decide(list(s.pc), pairs)
            if d is True:
                feas.append((s, o))
            elif d is None:
                unknown = True
        stats["samples"] += 1
        if unknown or len(feas) > 1:
            stats["ambiguous"] += 1
            continue
        if not feas:
            stats["no_path"] += 1
            plans.append((sigma, None, pairs))
        else:
            plans.append((sigma, feas[0], pairs))

        def conc(d):
            return sigma[d[1]] if d[0] in ("name", "list") else d[1]
        calls.append({"args": [conc(d) for d in descs], "kwargs": {k: conc(d) for k, d in kdescs.items()}, "sigma": sigma})
    if not calls:
        return {"error": "cross-check: no sample satisfies the precondition", **stats}
    req = {"func": spec.get("func") or c.target, "calls": calls, "self_code": spec.get("self_code"), "unwrap": spec.get("unwrap", False)}
    env = dict(os.environ)
    repo = os.environ.get("VERIF_REPO", "/repo")
    env["PYTHONPATH"] = repo + os.pathsep + VERIF
    p = subprocess.run([os.environ.get("VERIF_NATIVE_PY", "/venv/bin/python"), os.path.join(VERIF, "replay", "xcheck.py")], input=json.dumps(req), capture_output=True, text=True, cwd=VERIF, env=env, timeout=600)
    lines = [l for l in p.stdout.splitlines() if l.strip()]
    if p.returncode != 0 or not lines:
        return {"error": f"cross-check harness failed: {p.stderr[-800:]}", **stats}
    results = json.loads(lines[-1])["results"]
    mismatches = []
    for (sigma, fo, pairs), nat in zip(plans, results):
        if fo is None:
            mismatches.append({"input": sigma, "engine": "no feasible path", "cpython": nat})
            continue
        s, o = fo
        if isinstance(o, Raised):
            cls = o.exc.cls
            if "exc" not in nat:
                mismatches.append({"input": sigma, "engine": f"raises {cls}", "cpython": nat})
            elif not (cls in nat["mro"] or nat["exc"] in eng.exc_h.get(cls, []) or nat["exc"] == cls):
                mismatches.append({"input": sigma, "engine": f"raises {cls}", "cpython": nat})
            else:
                stats["compared"] += 1
            continue
        val = o.val if isinstance(o, Ret) else o
        k, v = _value_py(s, val, pairs)
        if k != "ok":
            if "exc" in nat:
                mismatches.append({"input": sigma, "engine": f"returns ({v})", "cpython": nat})
            else:
                stats["skipped_abstract"] += 1
            continue
        if "exc" in nat or json.loads(json.dumps(v)) != nat.get("v"):
            mismatches.append({"input": sigma, "engine": v, "cpython": nat})
        else:
            stats["compared"] += 1
    stats["mismatches"] = mismatches[:5]
    stats["n_mismatches"] = len(mismatches)
    return stats
