"""Symbolic executor: turns the real function ASTs of /repo into guarded outcomes.

See DESIGN.md section 2.  Statements first, expressions in expr.py (mixin), calls and
library contracts in lib.py (mixin).
"""
from __future__ import annotations

import ast
from typing import Any, Optional

import z3

from . import load
from .state import *  # noqa: F403
from .u import *  # noqa: F403


class Obligation:
    """A side obligation produced during execution (pre@callsite, invariants, ...)."""

    def __init__(self, kind, label, pc, goal, where="", replay=None):
        self.kind = kind
        self.label = label
        self.pc = list(pc)
        self.goal = goal
        self.where = where
        self.replay = replay


class LoopSpec:
    """Loop contract keyed by loop ordinal inside the function."""

    def __init__(self, invariant=None, variant=None, havoc_heap=(), bounded=None, index=None, elem=None):
        self.elem = elem  # fn(st, U term) -> Val: typed view of a sequence element
        self.invariant = invariant  # fn(env: LoopEnv) -> z3 Bool
        self.variant = variant  # fn(env) -> z3 Int
        self.havoc_heap = havoc_heap  # list of (VRef, field|None) that the body may modify
        self.bounded = bounded  # int: unroll at most k (reported as bounded)
        self.index = index  # name for the ghost index of a for loop


class LoopEnv:
    def __init__(self, st, idx=None, seq=None, extra=None):
        self.st = st
        self.idx = idx
        self.seq = seq
        self.extra = extra or {}

    def __getitem__(self, name):
        return self.st.locals[name]

    def has(self, name):
        return name in self.st.locals


class ExecBase:
    MAX_DEPTH = 12

    def __init__(self, config=None):
        self.config = config  # Contract (see contract.py): summaries, loop specs, policies
        self.exc_h = load.exception_hierarchy()
        self.obligations: list[Obligation] = []
        self.opaque_used: dict[str, int] = {}
        self.inlined: dict[str, int] = {}
        self.bounded_loops: list[str] = []
        self.depth = 0
        self.loop_counter: dict[int, int] = {}
        self.warnings: list[str] = []

    # ---------------------------------------------------------------- helpers

    def is_subclass(self, cls: str, parent: str) -> bool:
        if cls == parent:
            return True
        return parent in self.exc_h.get(cls, [])

    def raised(self, st, cls: str, msg: str = "", cause=None):
        return (st, Raised(VExc(cls, (const(msg),) if msg else (), cause)))

    def branch(self, st: State, cond) -> list[tuple[State, bool]]:
        """Fork on a z3 Bool; prune infeasible sides."""
        cond = z3.simplify(cond)
        if z3.is_true(cond):
            return [(st, True)]
        if z3.is_false(cond):
            return [(st, False)]
        out = []
        st_t = st.fork().assume(cond)
        if feasible(st_t.pc):
            out.append((st_t, True))
        st_f = st.assume(z3.Not(cond))
        if feasible(st_f.pc):
            out.append((st_f, False))
        return out

    def bind(self, results, fn):
        """results: [(st, Val|Raised)] ; fn(st, val) -> list of results"""
        out = []
        for st, v in results:
            if isinstance(v, Raised):
                out.append((st, v))
            else:
                try:
                    out.extend(fn(st, v))
                except Unsupported as e:
                    if not self._dead_path(st, e):
                        raise
        return out

    def _dead_path(self, st, e):
        """An unsupported construct met on a path whose condition the quick feasibility query
        left open (solver budget under load): decide the path condition with a generous budget;
        a path that cannot be taken is dropped instead of failing the whole contract."""
        from .state import definitely_infeasible

        if getattr(e, "_live", False):
            return False
        if definitely_infeasible(st.pc):
            return True
        e._live = True
        return False

    def ev_list(self, nodes, st):
        """evaluate expressions left to right -> [(st, [vals] | Raised)]"""
        results = [(st, [])]
        for n in nodes:
            nxt = []
            for s, acc in results:
                if isinstance(acc, Raised):
                    nxt.append((s, acc))
                    continue
                for s2, v in self.ev(n, s):
                    if isinstance(v, Raised):
                        nxt.append((s2, v))
                    else:
                        nxt.append((s2, acc + [v]))
            results = nxt
        return results

    # ---------------------------------------------------------------- statements

    def exec_block(self, stmts, st: State):
        """-> [(State, None | Ret | Raised | BRK | CONT)]"""
        results = [(st, None)]
        for stmt in stmts:
            nxt = []
            for s, out in results:
                if out is not None:
                    nxt.append((s, out))
                else:
                    try:
                        nxt.extend(self.exec_stmt(stmt, s))
                    except Unsupported as e:
                        if not self._dead_path(s, e):
                            raise
            results = nxt
            if len(results) > 4000:
                raise Unsupported("path explosion (>4000 paths)")
        return results

    def exec_stmt(self, node, st: State):
        m = getattr(self, "s_" + type(node).__name__, None)
        if m is None:
            raise Unsupported(f"statement {type(node).__name__} at line {node.lineno}")
        return m(node, st)

    def s_Pass(self, node, st):
        return [(st, None)]

    def s_Expr(self, node, st):
        if isinstance(node.value, ast.Constant):
            return [(st, None)]  # docstring
        return [(s, v if isinstance(v, Raised) else None) for s, v in self.ev(node.value, st)]

    def s_Return(self, node, st):
        if node.value is None:
            return [(st, Ret(NONE))]
        return [(s, v if isinstance(v, Raised) else Ret(v)) for s, v in self.ev(node.value, st)]

    def s_Break(self, node, st):
        return [(st, BRK)]

    def s_Continue(self, node, st):
        return [(st, CONT)]

    def s_Global(self, node, st):
        raise Unsupported("global")

    def s_Nonlocal(self, node, st):
        raise Unsupported("nonlocal")

    def s_Import(self, node, st):
        return [(st, None)]

    def s_ImportFrom(self, node, st):
        return [(st, None)]

    def s_Assert(self, node, st):
        out = []
        for s, v in self.ev(node.test, st):
            if isinstance(v, Raised):
                out.append((s, v))
                continue
            for s2, t in self.branch(s, self.truth(s, v)):
                if t:
                    out.append((s2, None))
                else:
                    out.append(self.raised(s2, "AssertionError"))
        return out

    def s_FunctionDef(self, node, st):
        frame = st.locals.get("__frame__")
        mod = frame.py["module"] if frame else None
        f = VFunc(node, mod, st.locals, node.name, frame.py.get("cls") if frame else None)
        # decorators on nested functions: only @wraps(...) is accepted (no run-time effect
        # on behaviour); anything else is outside the subset
        for d in node.decorator_list:
            txt = ast.unparse(d)
            if not txt.startswith("wraps("):
                raise Unsupported(f"decorator {txt} on nested function")
        st.locals[node.name] = f
        return [(st, None)]

    s_AsyncFunctionDef = s_FunctionDef

    def s_Assign(self, node, st):
        out = []
        for s, v in self.ev(node.value, st):
            if isinstance(v, Raised):
                out.append((s, v))
                continue
            results = [(s, None)]
            for tgt in node.targets:
                nxt = []
                for s2, o in results:
                    if o is not None:
                        nxt.append((s2, o))
                    else:
                        nxt.extend(self.assign(tgt, v, s2))
                results = nxt
            out.extend(results)
        return out

    def s_AnnAssign(self, node, st):
        if node.value is None:
            return [(st, None)]
        out = []
        for s, v in self.ev(node.value, st):
            if isinstance(v, Raised):
                out.append((s, v))
            else:
                out.extend(self.assign(node.target, v, s))
        return out

    def s_AugAssign(self, node, st):
        load_t = ast.copy_location(_as_load(node.target), node.target)
        # the operands are evaluated exactly once (a call on the right-hand side may have effects)
        out = []
        for s, vals in self.ev_list([load_t, node.value], st):
            if isinstance(vals, Raised):
                out.append((s, vals))
                continue
            tv, rv = vals
            if isinstance(node.op, ast.Add) and isinstance(tv, VRef) and isinstance(s.deref(tv), HList):
                # `xs += ys` on a list extends it IN PLACE (every alias sees the change); only then is
                # the name rebound to the same object
                for s2, r in self.call_value(s, VBuiltin("HList.extend", tv), [rv], {}):
                    out.extend([(s2, r)] if isinstance(r, Raised) else self.assign(node.target, tv, s2))
                continue
            for s2, v in self.binop(s, node.op, tv, rv, node):
                if isinstance(v, Raised):
                    out.append((s2, v))
                else:
                    out.extend(self.assign(node.target, v, s2))
        return out

    def assign(self, tgt, v: Val, st: State):
        """-> [(st, None|Raised)]"""
        if isinstance(tgt, ast.Name):
            st.locals[tgt.id] = v
            return [(st, None)]
        if isinstance(tgt, (ast.Tuple, ast.List)):
            if isinstance(v, VTuple):
                items = list(v.items)
            elif isinstance(v, VRef) and isinstance(st.deref(v), HList) and st.deref(v).items is not None:
                items = list(st.deref(v).items)
            elif isinstance(v, VRef) and isinstance(st.deref(v), HObj) and self._namedtuple_fields(st.deref(v)) is not None and all(n in st.deref(v).fields for n in self._namedtuple_fields(st.deref(v))):
                # a NamedTuple instance of the repo (Token) unpacks into its fields, in declaration order
                items = [st.deref(v).fields[n] for n in self._namedtuple_fields(st.deref(v))]
            else:
                raise Unsupported(f"unpacking of {type(v).__name__} at line {tgt.lineno}")
            if len(items) != len(tgt.elts):
                return [self.raised(st, "ValueError", "unpack")]
            results = [(st, None)]
            for t, item in zip(tgt.elts, items):
                nxt = []
                for s2, o in results:
                    if o is not None:
                        nxt.append((s2, o))
                    else:
                        nxt.extend(self.assign(t, item, s2))
                results = nxt
            return results
        if isinstance(tgt, ast.Attribute):
            out = []
            for s, obj in self.ev(tgt.value, st):
                if isinstance(obj, Raised):
                    out.append((s, obj))
                else:
                    out.extend(self.set_attr(s, obj, tgt.attr, v))
            return out
        if isinstance(tgt, ast.Subscript):
            out = []
            for s, vals in self.ev_list([tgt.value, tgt.slice], st):
                if isinstance(vals, Raised):
                    out.append((s, vals))
                else:
                    out.extend(self.set_item(s, vals[0], vals[1], v))
            return out
        raise Unsupported(f"assignment target {type(tgt).__name__}")

    def _namedtuple_fields(self, h):
        if not h.cls[0].startswith("liquid"):
            return None
        cnode = load.get_module(h.cls[0]).classes.get(h.cls[1])
        if cnode is None or not any(ast.unparse(b) in ("NamedTuple", "typing.NamedTuple") for b in cnode.bases):
            return None
        return [st_.target.id for st_ in cnode.body if isinstance(st_, ast.AnnAssign) and isinstance(st_.target, ast.Name)]

    def s_Delete(self, node, st):
        results = [(st, None)]
        for tgt in node.targets:
            nxt = []
            for s, o in results:
                if o is not None:
                    nxt.append((s, o))
                    continue
                if isinstance(tgt, ast.Subscript):
                    for s2, vals in self.ev_list([tgt.value, tgt.slice], s):
                        if isinstance(vals, Raised):
                            nxt.append((s2, vals))
                        else:
                            nxt.extend(self.del_item(s2, vals[0], vals[1]))
                elif isinstance(tgt, ast.Name):
                    s.locals.pop(tgt.id, None)
                    nxt.append((s, None))
                else:
                    raise Unsupported("del target")
            results = nxt
        return results

    def s_If(self, node, st):
        out = []
        for s, v in self.ev(node.test, st):
            if isinstance(v, Raised):
                out.append((s, v))
                continue
            for s2, t in self.branch(s, self.truth(s, v)):
                self.refine_after_test(node.test, t, s2)
                out.extend(self.exec_block(node.body if t else node.orelse, s2))
        return out

    PRIM_TYPES = {"str": "str", "bool": "bool", "float": "flt"}

    def refine_after_test(self, test, outcome, st):
        """`if isinstance(x, str)` / `if not isinstance(x, str)`: once the branch is taken the
        local is rebound to its typed form (sound: the path condition already carries the tag)."""
        neg = False
        while isinstance(test, ast.UnaryOp) and isinstance(test.op, ast.Not):
            test = test.operand
            neg = not neg
        if not (isinstance(test, ast.Call) and isinstance(test.func, ast.Name) and test.func.id == "isinstance" and len(test.args) == 2):
            return
        x, ty = test.args
        if not (isinstance(x, ast.Name) and isinstance(ty, ast.Name) and ty.id in self.PRIM_TYPES):
            return
        holds = outcome != neg
        v = st.locals.get(x.id)
        if holds and isinstance(v, (VU, VOpaque)):
            st.locals[x.id] = tag_val(v.t, self.PRIM_TYPES[ty.id])

    def s_Raise(self, node, st):
        if node.exc is None:
            if st.handling is None:
                return [self.raised(st, "RuntimeError", "No active exception to reraise")]
            return [(st, Raised(st.handling))]
        out = []
        for s, v in self.ev(node.exc, st):
            if isinstance(v, Raised):
                out.append((s, v))
                continue
            if isinstance(v, VExcClass):
                v = VExc(v.name, ())
            if not isinstance(v, VExc):
                raise Unsupported(f"raise of non-exception value {v!r} line {node.lineno}")
            out.append((s, Raised(v)))
        return out

    def exc_matches(self, exc: VExc, typ: Val) -> bool:
        if isinstance(typ, VExcClass):
            return self.is_subclass(exc.cls, typ.name)
        if isinstance(typ, VTuple):
            return any(self.exc_matches(exc, t) for t in typ.items)
        raise Unsupported(f"except clause type {typ!r}")

    def s_Try(self, node, st):
        out = []
        for s, o in self.exec_block(node.body, st):
            if isinstance(o, Raised):
                handled = False
                for h in node.handlers:
                    if h.type is None:
                        match = True
                    else:
                        tv = self.ev(h.type, s)
                        if len(tv) != 1 or isinstance(tv[0][1], Raised):
                            raise Unsupported("except type expression")
                        match = self.exc_matches(o.exc, tv[0][1])
                    if match:
                        handled = True
                        if h.name:
                            s.locals[h.name] = o.exc
                        prev = s.handling
                        s.handling = o.exc
                        for s2, o2 in self.exec_block(h.body, s):
                            s2.handling = prev
                            if isinstance(o2, Raised) and o2.exc.cause is None and o2.exc is not o.exc:
                                o2 = Raised(VExc(o2.exc.cls, o2.exc.args, o.exc, o2.exc.uid, o2.exc.kw))
                            out.append((s2, o2))
                        break
                if not handled:
                    out.append((s, o))
            elif o is None and node.orelse:
                out.extend(self.exec_block(node.orelse, s))
            else:
                out.append((s, o))
        if node.finalbody:
            fin = []
            for s, o in out:
                for s2, o2 in self.exec_block(node.finalbody, s):
                    fin.append((s2, o2 if o2 is not None else o))
            out = fin
        return out

    # with: inlined @contextmanager generator functions of the repo, Lock, and opaque
    def s_With(self, node, st):
        if len(node.items) != 1:
            # nest them
            inner = ast.With(items=node.items[1:], body=node.body)
            ast.copy_location(inner, node)
            outer = ast.With(items=node.items[:1], body=[inner])
            ast.copy_location(outer, node)
            return self.s_With(outer, st)
        item = node.items[0]
        out = []
        for s, cm in self.ev(item.context_expr, st):
            if isinstance(cm, Raised):
                out.append((s, cm))
                continue
            out.extend(self.run_with(s, cm, item.optional_vars, node.body, node))
        return out

    s_AsyncWith = s_With

    def run_with(self, st, cm, target, body, node):
        from .lib import ContextManagerCall

        if isinstance(cm, ContextManagerCall):
            return self.inline_contextmanager(st, cm, target, body)
        if isinstance(cm, VRef) and isinstance(st.deref(cm), HCell) and st.deref(cm).kind == "Lock":
            return self.with_lock(st, cm, target, body)
        if isinstance(cm, VConst) and isinstance(cm.py, tuple) and cm.py and cm.py[0] == "suppress":
            out = []
            for s, o in self.exec_block(body, st):
                if isinstance(o, Raised) and any(self.exc_matches(o.exc, t) for t in cm.py[1]):
                    out.append((s, None))
                else:
                    out.append((s, o))
            return out
        raise Unsupported(f"with-statement over {cm!r} at line {node.lineno}")

    def with_lock(self, st, cm, target, body):
        cell = st.deref(cm)
        if cell.data.get("held"):
            # re-acquiring a non-reentrant Lock: deadlock
            self.obligations.append(
                Obligation("lock", "no-self-deadlock", st.pc, z3.BoolVal(False), "Lock re-acquired while held")
            )
        cell.data["held"] = True
        st.log.append(("acquire", cm.addr))
        out = []
        for s, o in self.exec_block(body, st):
            s.deref(cm).data["held"] = False
            s.log.append(("release", cm.addr))
            out.append((s, o))
        return out

    def inline_contextmanager(self, st, cm, target, body):
        """cm.func is a repo generator function decorated with @contextmanager.

        Its body is split at the single `yield`: the code before runs, the with-body runs
        in place of the yield (inside any enclosing try/finally/with of the generator), and
        the code after runs on exit.  Implemented by executing the generator function's own
        AST with a hook that runs `body` at the Yield statement.
        """
        fnode = cm.func.node
        ys = [n for n in ast.walk(fnode) if isinstance(n, (ast.Yield, ast.YieldFrom))]
        if len(ys) != 1 or isinstance(ys[0], ast.YieldFrom):
            raise Unsupported("contextmanager with != 1 yield")
        caller_locals = st.locals
        hook = {"target": target, "body": body, "caller_locals": caller_locals}
        results = self.call_function(st, cm.func, cm.args, cm.kwargs, self_val=cm.self_val, yield_hook=hook)
        out = []
        for s, r in results:
            if isinstance(r, Raised):
                out.append((s, r))
                continue
            # body outcome recorded by the hook travels in s.ghost
            o = s.ghost.pop("__with_outcome__", None)
            out.append((s, o))
        return out

    # loops ------------------------------------------------------------------

    def loop_spec(self, node) -> Optional[LoopSpec]:
        if self.config is None:
            return None
        return self.config.loop_spec_for(node)

    def s_While(self, node, st):
        spec = self.loop_spec(node)
        if spec is not None and spec.invariant is not None:
            return self.loop_with_invariant(node, st, spec, kind="while")
        bound = spec.bounded if spec is not None and spec.bounded else None
        if bound is None:
            return self.while_concrete(node, st)
        note_ix = len(self.bounded_loops)
        self.bounded_loops.append(f"while@{node.lineno} unrolled<= {bound}")
        out = []
        frontier = [st]
        for _ in range(bound + 1):
            nxt = []
            for s0 in frontier:
                for s, v in self.ev(node.test, s0):
                    if isinstance(v, Raised):
                        out.append((s, v))
                        continue
                    for s2, t in self.branch(s, self.truth(s, v)):
                        if not t:
                            out.extend(self.exec_block(node.orelse, s2))
                            continue
                        for s3, o in self.exec_block(node.body, s2):
                            if o is None or o is CONT:
                                nxt.append(s3)
                            elif o is BRK:
                                out.append((s3, None))
                            else:
                                out.append((s3, o))
            frontier = nxt
        # paths still in the loop after `bound` iterations are cut (bounded!)
        if not frontier:
            self.bounded_loops[note_ix] += " (every path left the loop within the bound: exact for the contract's concrete heap shape)"
        return out

    def while_concrete(self, node, st, cap=64):
        """a while loop without a contract is executed as is when every evaluation of its test
        is decided by the path condition alone (e.g. a pointer walk over the concrete part of
        the heap): no abstraction, no bound -- anything else needs a loop contract"""
        out = []
        frontier = [st]
        for _ in range(cap):
            nxt = []
            for s0 in frontier:
                for s, v in self.ev(node.test, s0):
                    if isinstance(v, Raised):
                        out.append((s, v))
                        continue
                    outcomes = self.branch(s, self.truth(s, v))
                    if len(outcomes) != 1:
                        raise Unsupported(f"while loop at line {node.lineno} has no loop contract")
                    s2, t = outcomes[0]
                    if not t:
                        out.extend(self.exec_block(node.orelse, s2))
                        continue
                    for s3, o in self.exec_block(node.body, s2):
                        if o is None or o is CONT:
                            nxt.append(s3)
                        elif o is BRK:
                            out.append((s3, None))
                        else:
                            out.append((s3, o))
            frontier = nxt
            if not frontier:
                return out
        raise Unsupported(f"while loop at line {node.lineno} has no loop contract (not finished after {cap} concrete iterations)")

    def s_For(self, node, st):
        out = []
        for s, itv in self.ev(node.iter, st):
            if isinstance(itv, Raised):
                out.append((s, itv))
                continue
            out.extend(self.for_over(node, s, itv))
        return out

    s_AsyncFor = s_For

    def for_over(self, node, st, itv):
        enum = False
        if isinstance(itv, VConst) and isinstance(itv.py, tuple) and itv.py and itv.py[0] == "enumerate":
            enum, itv = True, itv.py[1]
            spec = self.loop_spec(node)
            if spec is None or spec.invariant is None:
                raise Unsupported(f"for loop over enumerate(symbolic) at line {node.lineno} has no loop contract")
            return self.loop_with_invariant(node, st, spec, kind="for", seq=self.as_seq(st, itv), itv=itv, enum=True)
        items = self.concrete_items(st, itv)
        if items is not None:
            # finite concrete spine: unroll completely (exact, not a bound)
            return self.for_unrolled(node, st, items)
        spec = self.loop_spec(node)
        seq = self.as_seq(st, itv)
        if spec is None and self.config is not None and getattr(self.config, "unroll_iterators", None) and isinstance(itv, VRef) and isinstance(st.deref(itv), HObj):
            # contract-wide policy (not tied to a loop ordinal): iterator objects of the repo are
            # driven through their real __next__ until StopIteration, at most k steps
            spec = LoopSpec(bounded=self.config.unroll_iterators)
        if seq is None and isinstance(itv, VRef) and isinstance(st.deref(itv), HObj) and spec is not None and spec.invariant is not None:
            h = st.deref(itv)
            if load.find_method(h.cls[0], h.cls[1], "__next__") is not None:
                return self.loop_with_invariant(node, st, spec, kind="iter", itv=itv)
        if seq is None and isinstance(itv, VRef) and isinstance(st.deref(itv), HObj) and spec is not None and spec.bounded:
            h = st.deref(itv)
            nx = load.find_method(h.cls[0], h.cls[1], "__next__")
            if nx is not None:
                # an iterator object of the repo driven through its real __next__; exact when every
                # path reaches StopIteration within the stated number of steps (else: unsupported)
                f = VFunc(nx[2], load.get_module(nx[0]), None, f"{nx[1]}.__next__", (nx[0], nx[1]))
                out, frontier = [], [st]
                for _step in range(spec.bounded + 1):
                    nxt = []
                    for s0 in frontier:
                        for s1, r in self.call_function(s0, f, [], {}, self_val=itv):
                            if isinstance(r, Raised):
                                if r.exc.cls == "StopIteration":
                                    out.extend(self.exec_block(node.orelse, s1))
                                else:
                                    out.append((s1, r))
                                continue
                            for s2, o1 in self.assign(node.target, r, s1):
                                if o1 is not None:
                                    out.append((s2, o1))
                                    continue
                                for s3, o in self.exec_block(node.body, s2):
                                    if o is None or o is CONT:
                                        nxt.append(s3)
                                    elif o is BRK:
                                        out.append((s3, None))
                                    else:
                                        out.append((s3, o))
                    frontier = nxt
                    if not frontier:
                        break
                if frontier:
                    raise Unsupported(f"iterator at line {node.lineno} not exhausted within {spec.bounded} steps")
                return out
        if seq is None and isinstance(itv, (VU, VOpaque)) and spec is not None and spec.invariant is not None:
            # unknown iterable: its items are an uninterpreted sequence
            seq = z3.Function("items_of", U, I, SeqU)(itv.t, z3.IntVal(st.world))
        if seq is None:
            raise Unsupported(f"for loop over {itv!r} at line {node.lineno}")
        if spec is None or spec.invariant is None:
            raise Unsupported(f"for loop at line {node.lineno} over a symbolic sequence has no loop contract")
        return self.loop_with_invariant(node, st, spec, kind="for", seq=seq, itv=itv)

    def for_unrolled(self, node, st, items):
        out = []
        frontier = [st]
        for item in items:
            nxt = []
            for s0 in frontier:
                for s1, o1 in self.assign(node.target, item, s0):
                    if o1 is not None:
                        out.append((s1, o1))
                        continue
                    for s2, o in self.exec_block(node.body, s1):
                        if o is None or o is CONT:
                            nxt.append(s2)
                        elif o is BRK:
                            out.append((s2, None))
                        else:
                            out.append((s2, o))
            frontier = nxt
        for s in frontier:
            out.extend(self.exec_block(node.orelse, s))
        return out

    def assigned_names(self, stmts) -> set[str]:
        names = set()
        for stmt in stmts:
            for n in ast.walk(stmt):
                if isinstance(n, ast.Name) and isinstance(n.ctx, (ast.Store, ast.Del)):
                    names.add(n.id)
                elif isinstance(n, ast.ExceptHandler) and n.name:
                    names.add(n.name)
        return names

    def loop_with_invariant(self, node, st, spec: LoopSpec, kind, seq=None, itv=None, enum=False):
        """Classic three obligations; returns the post-loop states."""
        where = f"loop@{node.lineno}"
        idx0 = z3.IntVal(0) if kind == "for" else None
        # for-loops over a live iterator start from the iterator's position
        it_ref = None
        if kind == "for" and isinstance(itv, VRef) and isinstance(st.deref(itv), HIter):
            it_ref = itv
            idx0 = st.deref(itv).pos
        # 1. invariant holds initially
        env0 = LoopEnv(st, idx0, seq)
        self.obligations.append(Obligation("inv-init", f"{where}:init", st.pc, spec.invariant(env0), where))
        # 2. havoc
        mod_names = self.assigned_names(node.body) | (self.assigned_names([node.target]) if kind == "for" else set())
        hst = st.fork()
        for name in sorted(mod_names):
            old = hst.locals.get(name)
            hst.locals[name] = self.havoc_like(old, name)
        hh = spec.havoc_heap(hst) if callable(spec.havoc_heap) else spec.havoc_heap
        for ref, fld in hh:
            self.havoc_heap_loc(hst, ref, fld)
        idx = fresh("k", I) if kind == "for" else None
        if kind == "for":
            hst.assume(idx >= idx0)
            hst.assume(idx <= z3.Length(seq))
            if it_ref is not None:
                hst.deref(it_ref).pos = idx
        env = LoopEnv(hst, idx, seq)
        hst.assume(spec.invariant(env))
        out = []
        # 3. one arbitrary iteration
        body_st = hst.fork()
        iter_items = {}
        if kind == "for":
            guard_results = [(body_st.assume(idx < z3.Length(seq)), True)] if feasible(body_st.pc + [idx < z3.Length(seq)]) else []
            exit_st = hst.fork().assume(idx == z3.Length(seq))
            exits = [exit_st] if feasible(exit_st.pc) else []
        elif kind == "iter":
            guard_results = []
            exits = []
            h = body_st.deref(itv)
            m = load.find_method(h.cls[0], h.cls[1], "__next__")
            f = VFunc(m[2], load.get_module(m[0]), None, f"{m[1]}.__next__", (m[0], m[1]))
            for s, v in self.call_function(body_st, f, [], {}, self_val=itv):
                if isinstance(v, Raised):
                    if self.is_subclass(v.exc.cls, "StopIteration"):
                        exits.append(s)
                    else:
                        out.append((s, v))
                else:
                    iter_items[id(s)] = v
                    guard_results.append((s, True))
        else:
            guard_results = []
            exits = []
            for s, v in self.ev(node.test, body_st):
                if isinstance(v, Raised):
                    out.append((s, v))
                    continue
                for s2, t in self.branch(s, self.truth(s, v)):
                    if t:
                        guard_results.append((s2, True))
                    else:
                        exits.append(s2)
        var_before = None
        for s, _ in guard_results:
            if spec.variant is not None:
                var_before = spec.variant(LoopEnv(s, idx, seq))
                self.obligations.append(Obligation("variant", f"{where}:variant>=0", s.pc, var_before >= 0, where))
            starts = [(s, None)]
            if kind == "iter":
                starts = self.assign(node.target, iter_items[id(s)], s)
            if kind == "for":
                item = spec.elem(s, seq[idx]) if getattr(spec, "elem", None) else unbox(seq[idx])
                if enum:
                    item = VTuple((VInt(idx), item))
                if it_ref is not None:
                    s.deref(it_ref).pos = idx + 1
                starts = self.assign(node.target, item, s)
            for s1, o1 in starts:
                if o1 is not None:
                    out.append((s1, o1))
                    continue
                for s2, o in self.exec_block(node.body, s1):
                    if o is None or o is CONT:
                        nidx = idx + 1 if kind == "for" else None
                        env2 = LoopEnv(s2, nidx, seq)
                        self.obligations.append(
                            Obligation("inv-step", f"{where}:preserved", s2.pc, spec.invariant(env2), where)
                        )
                        if spec.variant is not None:
                            self.obligations.append(
                                Obligation(
                                    "variant", f"{where}:variant-decreases", s2.pc, spec.variant(env2) < var_before, where
                                )
                            )
                    elif o is BRK:
                        out.append((s2, None))
                    else:
                        out.append((s2, o))
        for s in exits:
            out.extend(self.exec_block(node.orelse, s))
        return out

    def havoc_like(self, old: Optional[Val], name: str) -> Val:
        if isinstance(old, VInt):
            return VInt(fresh(name, I))
        if isinstance(old, VBool):
            return VBool(fresh(name, B))
        if isinstance(old, VStr):
            return VStr(fresh(name, S))
        if isinstance(old, VSeq):
            return VSeq(fresh(name, SeqU), old.kind)
        if isinstance(old, (VRef, VFunc, VConst, VTuple, VClass, VExcClass, VBuiltin)):
            # mutable objects keep their identity; their contents are havocked via havoc_heap
            return old
        return VU(fresh(name, U))

    def havoc_heap_loc(self, st, ref: VRef, fld):
        h = st.deref(ref)
        if isinstance(h, HObj):
            old = h.fields.get(fld)
            h.fields[fld] = self.havoc_like(old, f"{h.name or 'o'}.{fld}")
        elif isinstance(h, HList):
            h.items = None
            h.tail = []
            h.seq = fresh("lst", SeqU)
        elif isinstance(h, HDict):
            h.items = {}
            h.present = fresh("dpres", z3.ArraySort(U, B))
            h.val = fresh("dval", z3.ArraySort(U, U))
        elif isinstance(h, HIter):
            h.pos = fresh("pos", I)
            st.assume(h.pos >= 0)
        else:
            raise Unsupported(f"havoc of {type(h).__name__}")

    # ---------------------------------------------------------------- function entry

    def run(self, func: VFunc, st: State, args: list, kwargs: dict, self_val=None):
        """Top-level entry: execute `func` on `st`; -> [(State, Ret|Raised)]"""
        res = self.call_function(st, func, args, kwargs, self_val=self_val)
        return [(s, r if isinstance(r, Raised) else Ret(r)) for s, r in res]


def _as_load(node):
    node = ast.parse(ast.unparse(node), mode="eval").body
    return node
