"""Calls, attribute/subscript protocols and assumed contracts of builtins and library
functions (DESIGN section 3).  Mixin for the executor."""
from __future__ import annotations

import ast
import itertools

import z3

from . import load
from .expr import _Frozen
from .state import *  # noqa: F403
from .u import *  # noqa: F403

_hook_ids = itertools.count()


class ContextManagerCall(Val):
    def __init__(self, func, args, kwargs, self_val):
        self.func = func
        self.args = args
        self.kwargs = kwargs
        self.self_val = self_val


ABC_TABLE = {
    # abc name -> which value kinds are instances
    "Mapping": {"dict"},
    "MutableMapping": {"dict"},
    "Sequence": {"str", "list", "tuple", "range"},
    "Sized": {"str", "list", "tuple", "dict", "range", "set"},
    "Iterable": {"str", "list", "tuple", "dict", "range", "set", "iter"},
    "Iterator": {"iter"},
    "Collection": {"str", "list", "tuple", "dict", "range", "set"},
    "Hashable": {"str", "int", "bool", "float", "none", "tuple", "range"},
}

PRIM_ATTRS = {
    # attributes that exist on builtin primitive types (for hasattr on VU)
    "__len__": {"str"},
    "__iter__": {"str"},
    "__getitem__": {"str"},
    "__int__": {"int", "bool", "flt"},
}


class LibMixin:
    # ---------------------------------------------------------------- calls

    def e_Call(self, node, st):
        # super().m(...)  /  super().__init__(...)
        if (
            isinstance(node.func, ast.Attribute)
            and isinstance(node.func.value, ast.Call)
            and isinstance(node.func.value.func, ast.Name)
            and node.func.value.func.id == "super"
        ):
            return self.super_call(node, st)
        if (isinstance(node.func, ast.Name) and node.func.id in ("any", "all", "next") and node.args and isinstance(node.args[0], ast.GeneratorExp)
                and len(node.args[0].generators) == 1 and not node.keywords and node.func.id not in st.locals
                and len(node.args) <= (2 if node.func.id == "next" else 1)):
            r = self.lazy_genexp_consumer(node, st)
            if r is not None:
                return r
        pos = []
        star_idx = set()
        for i, a in enumerate(node.args):
            if isinstance(a, ast.Starred):
                star_idx.add(i)
                pos.append(a.value)
            else:
                pos.append(a)
        kw_nodes = [k.value for k in node.keywords]

        def f(s, vals):
            fv = vals[0]
            argv = vals[1 : 1 + len(pos)]
            kwv = vals[1 + len(pos) :]
            args = []
            for i, v in enumerate(argv):
                if i in star_idx:
                    items = self.concrete_items(s, v)
                    if items is None:
                        raise Unsupported(f"*args of symbolic length at line {node.lineno}")
                    args.extend(items)
                else:
                    args.append(v)
            kwargs = {}
            for k, v in zip(node.keywords, kwv):
                if k.arg is None:
                    if isinstance(v, VRef) and isinstance(s.deref(v), HDict) and s.deref(v).present is None:
                        for kk, vv in s.deref(v).items.items():
                            kwargs[kk] = vv
                    else:
                        raise Unsupported(f"**kwargs of symbolic dict at line {node.lineno}")
                else:
                    kwargs[k.arg] = v
            return self.call_value(s, fv, args, kwargs, node)

        return self.bind(self.ev_list([node.func] + pos + kw_nodes, st), f)

    def lazy_genexp_consumer(self, node, st):
        """any(<genexp>) / all(<genexp>) / next(<genexp>[, default]) over a concrete spine, with
        Python's laziness: items after the deciding one are NOT evaluated (so their exceptions
        and effects do not happen).  None = not applicable (symbolic iterable): generic path."""
        from .expr import _target_names

        what = node.func.id
        ge = node.args[0]
        gen = ge.generators[0]
        out = []
        for s0, itv in self.ev(gen.iter, st):
            if isinstance(itv, Raised):
                out.append((s0, itv))
                continue
            items = self.concrete_items(s0, itv)
            if items is None:
                return None
            names = _target_names(gen.target)
            saved = {n: s0.locals.get(n) for n in names}

            def finish(s, v):
                for n, old in saved.items():
                    if old is None:
                        s.locals.pop(n, None)
                    else:
                        s.locals[n] = old
                out.append((s, v))

            pending = [s0]
            for item in items:
                nxt = []
                for s in pending:
                    for s1, o in self.assign(gen.target, item, s):
                        if o is not None:
                            finish(s1, o)
                            continue
                        conds = [(s1, True)]
                        for cnd in gen.ifs:
                            cn = []
                            for s2, keep in conds:
                                if keep is not True:
                                    cn.append((s2, keep))
                                    continue
                                for s3, cv in self.ev(cnd, s2):
                                    if isinstance(cv, Raised):
                                        cn.append((s3, cv))
                                    else:
                                        cn.extend((s4, bool(t)) for s4, t in self.branch(s3, self.truth(s3, cv)))
                            conds = cn
                        for s2, keep in conds:
                            if isinstance(keep, Raised):
                                finish(s2, keep)
                            elif keep is False:
                                nxt.append(s2)
                            else:
                                for s3, ev in self.ev(ge.elt, s2):
                                    if isinstance(ev, Raised):
                                        finish(s3, ev)
                                    elif what == "next":
                                        finish(s3, ev)
                                    else:
                                        for s4, t in self.branch(s3, self.truth(s3, ev)):
                                            if (what == "any" and t) or (what == "all" and not t):
                                                finish(s4, VBool(z3.BoolVal(what == "any")))
                                            else:
                                                nxt.append(s4)
                pending = nxt
            for s in pending:
                if what == "next":
                    if len(node.args) == 2:
                        for s2, dv in self.ev(node.args[1], s):
                            finish(s2, dv)
                    else:
                        for n, old in saved.items():
                            if old is None:
                                s.locals.pop(n, None)
                            else:
                                s.locals[n] = old
                        out.append(self.raised(s, "StopIteration"))
                else:
                    finish(s, VBool(z3.BoolVal(what == "all")))
        return out

    def super_call(self, node, st):
        frame = st.locals.get("__frame__")
        cls = frame.py.get("cls") if frame else None
        self_val = st.locals.get(frame.py.get("self_name", "self")) if frame else None
        if cls is None or self_val is None:
            raise Unsupported("super() outside a method")
        name = node.func.attr
        # runtime class of self decides the MRO
        h = st.deref(self_val) if isinstance(self_val, VRef) else None
        rt_cls = h.cls if isinstance(h, HObj) else cls
        chain = load.mro(rt_cls[0], rt_cls[1])
        if tuple(cls) in chain:
            rest = chain[chain.index(tuple(cls)) + 1 :]
        else:
            rest = load.mro(cls[0], cls[1])[1:]

        def f(s, vals):
            n = len(node.args)
            args, kwv = vals[:n], vals[n:]
            kwargs = {k.arg: v for k, v in zip(node.keywords, kwv)}
            for m, c in rest:
                if m.startswith("liquid"):
                    mod = load.get_module(m)
                    cn = mod.classes.get(c)
                    if cn is None:
                        continue
                    fn = load._last_def(cn.body, name)
                    if fn is not None:
                        return self.call_value(s, VBound(self_val, VFunc(fn, mod, None, f"{c}.{name}", (m, c))), args, kwargs, node)
                else:
                    return self.external_super(s, (m, c), name, self_val, args, kwargs, node)
            if name == "__init__":
                return [(s, NONE)]
            raise Unsupported(f"super().{name} not found")

        if any(isinstance(a, ast.Starred) for a in node.args):
            raise Unsupported("starred args in super() call")
        return self.bind(self.ev_list(list(node.args) + [k.value for k in node.keywords], st), f)

    def external_super(self, st, base, name, self_val, args, kwargs, node):
        """super() reaching a library base class: StringIO, Mapping, Exception, object."""
        bname = base[1]
        h = st.deref(self_val)
        if name == "__init__":
            if bname == "StringIO":
                h.fields["__text__"] = VStr(z3.StringVal(""))
            return [(st, NONE)]
        if bname == "StringIO" and name == "write":
            (sv,) = args
            if not isinstance(sv, VStr):
                raise Unsupported("StringIO.write of non-str")
            old = h.fields.get("__text__", VStr(z3.StringVal("")))
            h.fields["__text__"] = VStr(z3.Concat(old.t, sv.t))
            st.log.append(("write", self_val.addr, sv.t))
            return [(st, VInt(z3.Length(sv.t)))]
        raise Unsupported(f"super().{name} into library base {bname}")

    def call_value(self, st, fv, args, kwargs, node=None):
        if isinstance(fv, VBound):
            return self.call_function(st, fv.func, args, kwargs, self_val=fv.self)
        if isinstance(fv, VFunc):
            return self.call_function(st, fv, args, kwargs)
        if isinstance(fv, VBuiltin):
            return self.builtin_call(st, fv, args, kwargs, node)
        if isinstance(fv, VExcClass):
            return [(st, VExc(fv.name, tuple(args), None, kw=tuple(kwargs.items())))]
        if isinstance(fv, VClass):
            return self.instantiate(st, fv, args, kwargs)
        if isinstance(fv, VConst) and isinstance(fv.py, tuple) and fv.py and fv.py[0] == "partial":
            kw = dict(fv.py[3])
            kw.update(kwargs)
            return self.call_value(st, fv.py[1], list(fv.py[2]) + list(args), kw, node)
        if isinstance(fv, (VU, VOpaque, VConst)):
            return self.opaque_call(st, f"call:{getattr(fv, 'desc', '') or 'value'}", [fv] + list(args) + list(kwargs.values()))
        raise Unsupported(f"call of {fv!r} at line {getattr(node, 'lineno', '?')}")

    def opaque_call(self, st, name, args, may_raise=(), sort="U", pure=False):
        """Uninterpreted call: result is a function of (name, boxed args, world).

        `may_raise`: exception classes the callee may raise (each becomes a guarded outcome
        under an uninterpreted condition).  The world token advances unless `pure`.
        """
        self.opaque_used[name] = self.opaque_used.get(name, 0) + 1
        boxed = []
        for a in args:
            try:
                boxed.append(box(a))
            except Unsupported:
                boxed.append(U.ref(z3.IntVal(-abs(hash(repr(a))) % 10**9)))
        f = z3.Function("opq$" + name, *[U] * len(boxed), I, U)
        w = z3.IntVal(st.world)
        res = f(*boxed, w)
        st.log.append(("call", name, tuple(boxed), st.world))
        out = []
        for i, exc in enumerate(may_raise):
            cond = z3.Function(f"opq_raises${name}${exc}", *[U] * len(boxed), I, B)(*boxed, w)
            s = st.fork().assume(cond)
            if feasible(s.pc):
                out.append(self.raised(s, exc, f"from {name}"))
            st.assume(z3.Not(cond))
        if not pure:
            st.world += 1
        out.append((st, VOpaque(res, name)))
        return out

    def instantiate(self, st, cls: VClass, args, kwargs):
        if self.config is not None:
            summ = self.config.summary_for(f"{cls.module}:{cls.name}")
            if summ is not None:
                return summ(self, st, args, kwargs)
        obj = HObj((cls.module, cls.name))
        ref = st.alloc(obj)
        init = load.find_method(cls.module, cls.name, "__init__")
        cnode = load.get_module(cls.module).classes.get(cls.name) if cls.module.startswith("liquid") else None
        is_nt = cnode is not None and any(ast.unparse(b) in ("NamedTuple", "typing.NamedTuple") for b in cnode.bases)
        if init is None and cnode is not None and (is_nt or any(ast.unparse(d).split("(")[0].endswith("dataclass") for d in cnode.decorator_list)):
            names = [st_.target.id for st_ in cnode.body if isinstance(st_, ast.AnnAssign) and isinstance(st_.target, ast.Name)]
            vals = dict(zip(names, args))
            vals.update(kwargs)
            for st_ in cnode.body:
                if isinstance(st_, ast.AnnAssign) and isinstance(st_.target, ast.Name) and st_.value is not None and st_.target.id not in vals:
                    vals[st_.target.id] = self.eval_default(st, st_.value, VConst({"module": load.get_module(cls.module), "cls": None, "closure": None, "qual": cls.name}))
            missing = [n for n in names if n not in vals]
            if missing or len(args) > len(names) or any(k not in names for k in kwargs):
                return [self.raised(st, "TypeError", f"{cls.name}.__init__() arguments")]
            obj.fields.update(vals)
            return [(st, ref)]
        if init is None:
            chain = load.mro(cls.module, cls.name)
            ext = [c for c in chain if not c[0].startswith("liquid")]
            if any(c[1] == "StringIO" for c in ext):
                obj.fields["__text__"] = VStr(z3.StringVal(""))
            return [(st, ref)]
        mod = load.get_module(init[0])
        f = VFunc(init[2], mod, None, f"{init[1]}.__init__", (init[0], init[1]))
        out = []
        for s, r in self.call_function(st, f, args, kwargs, self_val=ref):
            out.append((s, r if isinstance(r, Raised) else ref))
        return out

    def bind_params(self, st, func: VFunc, args, kwargs, self_val):
        a = func.node.args
        params = [p.arg for p in a.posonlyargs + a.args]
        locs = {}
        args = list(args)
        if self_val is not None and not _is_static(func.node):
            args = [self_val] + args
        n_pos = len(params)
        if len(args) > n_pos and a.vararg is None:
            return None, ("TypeError", f"{func.qual}() takes {n_pos} positional arguments but {len(args)} were given")
        for p, v in zip(params, args):
            locs[p] = v
        if a.vararg is not None:
            locs[a.vararg.arg] = VTuple(tuple(args[n_pos:]))
        kwargs = dict(kwargs)
        for p in params[len(args) :] if len(args) < n_pos else []:
            if p in kwargs:
                locs[p] = kwargs.pop(p)
        for p in list(kwargs):
            if p in params and p in locs and p not in [x for x in params[len(args):]]:
                return None, ("TypeError", f"multiple values for argument {p}")
        kwonly = [p.arg for p in a.kwonlyargs]
        for p in kwonly:
            if p in kwargs:
                locs[p] = kwargs.pop(p)
        # defaults
        defaults = a.defaults
        dparams = params[len(params) - len(defaults) :] if defaults else []
        frame0 = VConst({"module": func.module, "cls": func.cls, "closure": func.closure, "qual": func.qual})
        for p, d in zip(dparams, defaults):
            if p not in locs:
                locs[p] = self.eval_default(st, d, frame0)
        for p, d in zip(kwonly, a.kw_defaults):
            if p not in locs and d is not None:
                locs[p] = self.eval_default(st, d, frame0)
        missing = [p for p in params + kwonly if p not in locs]
        if missing:
            return None, ("TypeError", f"{func.qual}() missing arguments {missing}")
        if kwargs:
            if a.kwarg is not None:
                d = HDict(items=dict(kwargs))
                locs[a.kwarg.arg] = st.alloc(d)
            else:
                return None, ("TypeError", f"{func.qual}() got unexpected keyword {list(kwargs)}")
        elif a.kwarg is not None:
            locs[a.kwarg.arg] = st.alloc(HDict())
        return locs, None

    def eval_default(self, st, node, frame0):
        tmp = State()
        tmp.locals["__frame__"] = frame0
        tmp.heap = st.heap
        r = self.ev(node, tmp)
        if len(r) != 1 or isinstance(r[0][1], Raised):
            raise Unsupported("non-trivial default argument")
        return r[0][1]

    def call_function(self, st, func: VFunc, args, kwargs, self_val=None, yield_hook=None):
        qual = func.qual
        full = f"{func.module.name}:{qual}" if func.module is not None else qual
        if self.config is not None and yield_hook is None:
            summ = self.config.summary_for(full)
            if summ is not None:
                # a summary may decline (return None): the real body is executed (used when the
                # contract's target calls itself: the top-level call runs, nested calls are summarised)
                r_ = summ(self, st, ([self_val] if self_val is not None else []) + list(args), kwargs)
                if r_ is not None:
                    return r_
        node = func.node
        if isinstance(node, ast.Lambda):
            locs, err = self.bind_params(st, func, args, kwargs, None)
            if err:
                return [self.raised(st, err[0], err[1])]
            saved = st.locals
            st.locals = locs
            st.locals["__frame__"] = VConst({"module": func.module, "cls": None, "closure": func.closure, "qual": "<lambda>"})
            out = []
            for s, v in self.ev(node.body, st):
                s.locals = saved if len(out) == 0 else dict(saved)
                out.append((s, v))
            return out
        decos = [ast.unparse(d) for d in node.decorator_list]
        if any(d.endswith("contextmanager") for d in decos) and yield_hook is None:
            return [(st, ContextManagerCall(func, args, kwargs, self_val))]
        has_yield = any(isinstance(n, (ast.Yield, ast.YieldFrom)) for n in _walk_own(node))
        collect = False
        if has_yield and yield_hook is None:
            if self.config is not None and getattr(self.config, "eager_generators", False):
                collect = True  # generator run eagerly: its result is the list of yielded values
            else:
                raise Unsupported(f"generator function {qual}")
        for d in ([] if func.decorated else decos):
            base = d.split("(")[0]
            if base in ("staticmethod", "classmethod", "contextmanager", "property", "abstractmethod", "overload", "wraps",
                        "functools.wraps", "override"):
                continue
            if self.config is not None and self.config.decorator_ok(full, d):
                continue
            raise Unsupported(f"decorator @{d} on {qual} is not modelled")
        if self.depth >= self.MAX_DEPTH:
            raise Unsupported(f"inlining depth exceeded at {qual}")
        self.inlined[full] = self.inlined.get(full, 0) + 1
        locs, err = self.bind_params(st, func, args, kwargs, self_val)
        if err:
            return [self.raised(st, err[0], err[1])]
        _number_loops(node, full)
        saved = st.locals
        st.locals = locs
        a = node.args
        self_name = (a.posonlyargs + a.args)[0].arg if (self_val is not None and (a.posonlyargs + a.args)) else "self"
        st.locals["__frame__"] = VConst(
            {"module": func.module, "cls": func.cls, "closure": func.closure, "qual": qual, "self_name": self_name}
        )
        hid = None
        if yield_hook is not None:
            hid = next(_hook_ids)
            yield_hook = dict(yield_hook)
            yield_hook["id"] = hid
            st.ghost["__hooks__"] = st.ghost.get("__hooks__", ()) + (yield_hook,)
        if collect:
            st.ghost["__gen__"] = st.ghost.get("__gen__", ()) + ((),)
        self.depth += 1
        try:
            results = self.exec_block(node.body, st)
        finally:
            self.depth -= 1
        if collect:
            fixed = []
            for s, o in results:
                stack = s.ghost.get("__gen__", ((),))
                items = list(stack[-1])
                s.ghost["__gen__"] = stack[:-1]
                if isinstance(o, Raised):
                    fixed.append((s, o))
                else:
                    fixed.append((s, Ret(s.alloc(HList(items=items)))))
            results = fixed
        out = []
        for s, o in results:
            s.locals = dict(saved)
            if hid is not None:
                after = s.ghost.pop(("after", hid), None)
                if after is not None:
                    s.locals = after[0]
                    if not isinstance(o, Raised):
                        s.ghost["__with_outcome__"] = after[1]
                else:
                    # generator finished/raised before reaching its yield
                    hooks = s.ghost.get("__hooks__", ())
                    s.ghost["__hooks__"] = tuple(h for h in hooks if h.get("id") != hid)
                    if not isinstance(o, Raised):
                        raise Unsupported(f"context manager {qual} did not yield")
            if o is None:
                out.append((s, NONE))
            elif isinstance(o, Ret):
                out.append((s, o.val))
            elif isinstance(o, Raised):
                out.append((s, o))
            else:
                raise Unsupported("break/continue escaped a function body")
        return out

    def run_yield_hook(self, st, hook_unused, val):
        hooks = st.ghost.get("__hooks__", ())
        if not hooks:
            raise Unsupported("yield outside an inlined context manager")
        hook = hooks[-1]
        st.ghost["__hooks__"] = hooks[:-1]
        gen_locals = st.locals
        st.locals = hook["caller_locals"]
        if hook["target"] is not None:
            results = self.assign(hook["target"], val, st)
        else:
            results = [(st, None)]
        out = []
        for s, o in results:
            outcomes = [(s, o)] if o is not None else self.exec_block(hook["body"], s)
            for s2, o2 in outcomes:
                caller_after = s2.locals
                s2.locals = dict(gen_locals)
                if isinstance(o2, Raised):
                    s2.ghost[("after", hook["id"])] = (caller_after, None)
                    out.append((s2, o2))
                else:
                    s2.ghost[("after", hook["id"])] = (caller_after, o2)
                    out.append((s2, NONE))
        return out

    def gen_emit(self, st, v):
        stack = st.ghost.get("__gen__")
        st.ghost["__gen__"] = stack[:-1] + (stack[-1] + (v,),)
        return [(st, NONE)]

    def e_Yield(self, node, st):
        if st.ghost.get("__gen__") and not st.ghost.get("__hooks__"):
            if node.value is None:
                return self.gen_emit(st, NONE)
            return self.bind(self.ev(node.value, st), lambda s, v: self.gen_emit(s, v))
        if node.value is None:
            return self.run_yield_hook(st, None, NONE)
        return self.bind(self.ev(node.value, st), lambda s, v: self.run_yield_hook(s, None, v))

    def e_YieldFrom(self, node, st):
        if not st.ghost.get("__gen__"):
            raise Unsupported("yield from outside an eager generator")

        def f(s, v):
            items = self.concrete_items(s, v)
            if items is None:
                raise Unsupported("yield from a symbolic iterable")
            for x in items:
                self.gen_emit(s, x)
            return [(s, NONE)]

        return self.bind(self.ev(node.value, st), f)

    # ---------------------------------------------------------------- attributes

    def class_attr(self, module, cls, name):
        """class-level attribute (constant or function) through the MRO, or None"""
        for m, c in load.mro(module, cls):
            if not m.startswith("liquid"):
                continue
            mod = load.get_module(m)
            cn = mod.classes.get(c)
            if cn is None:
                continue
            for stmt in cn.body:
                if isinstance(stmt, (ast.FunctionDef, ast.AsyncFunctionDef)) and stmt.name == name:
                    return ("func", mod, (m, c), stmt)
                if isinstance(stmt, ast.Assign):
                    for t in stmt.targets:
                        if isinstance(t, ast.Name) and t.id == name:
                            return ("const", mod, (m, c), stmt.value)
                if isinstance(stmt, ast.AnnAssign) and isinstance(stmt.target, ast.Name) and stmt.target.id == name and stmt.value is not None:
                    return ("const", mod, (m, c), stmt.value)
        return None

    def get_attr(self, st, v, name, node=None, raw=False):
        if isinstance(v, VRef):
            h = st.deref(v)
            if isinstance(h, HObj) and not raw and h.cls[0].startswith("liquid"):
                ga = load.find_method(h.cls[0], h.cls[1], "__getattribute__")
                if ga is not None:
                    f = VFunc(ga[2], load.get_module(ga[0]), None, f"{ga[1]}.__getattribute__", (ga[0], ga[1]))
                    return self.call_function(st, f, [const(name)], {}, self_val=v)
            if isinstance(h, HObj):
                if name in h.fields:
                    return [(st, h.fields[name])]
                if name == "__class__":
                    return [(st, VClass(h.cls[0], h.cls[1]))]
                ca = self.class_attr(h.cls[0], h.cls[1], name) if h.cls[0].startswith("liquid") else None
                if ca is not None:
                    kind, mod, owner, item = ca
                    if kind == "func":
                        decos = [ast.unparse(d) for d in item.decorator_list]
                        f = VFunc(item, mod, None, f"{owner[1]}.{name}", owner)
                        if "property" in decos:
                            return self.call_function(st, f, [], {}, self_val=v)
                        if "staticmethod" in decos:
                            return [(st, f)]
                        return [(st, VBound(v, f))]
                    if name in h.field_sorts or (self.config and self.config.open_fields(h, name)):
                        pass
                    else:
                        return [(st, self.module_const(mod, name, item))]
                if not h.cls[0].startswith("liquid"):
                    # instance of a library class (StringIO ...): methods are modelled builtins
                    if h.cls[1] == "StringIO" and name not in ("write", "getvalue", "read", "seek", "tell", "close", "truncate", "flush", "writelines"):
                        return [self.raised(st, "AttributeError", f"'_io.StringIO' object has no attribute '{name}'")]
                    return [(st, VBuiltin(f"{h.cls[1]}.{name}", v))]
                if any(c_[1] == "StringIO" for c_ in load.mro(h.cls[0], h.cls[1])) and self.class_attr(h.cls[0], h.cls[1], name) is None and name not in ("getvalue", "read", "seek", "tell", "close"):
                    return [self.raised(st, "AttributeError", f"'{h.cls[1]}' object has no attribute '{name}'")]
                if any(c_[1] == "StringIO" for c_ in load.mro(h.cls[0], h.cls[1])) and name in ("getvalue", "read", "seek", "tell", "close", "write", "truncate", "flush"):
                    # a repo subclass of io.StringIO (LimitedStringIO): inherited library methods
                    return [(st, VBuiltin(f"StringIO.{name}", v))]
                if name in h.field_sorts or h.field_sorts.get("*"):
                    val = _fresh_of_sort(h.field_sorts.get(name, h.field_sorts.get("*")), f"{h.name or h.cls[1]}.{name}")
                    h.fields[name] = val
                    return [(st, val)]
                if name in ("items", "keys", "values") and "Mapping" in [c_[1] for c_ in load.mro(h.cls[0], h.cls[1])]:
                    # collections.abc.Mapping mixin methods of a repo class: views built from the
                    # class's own __iter__ / __getitem__ (trusted data model)
                    return [(st, VBuiltin(f"MappingMixin.{name}", v))]
                return [self.raised(st, "AttributeError", f"{h.cls[1]} has no attribute {name}")]
            return [(st, VBuiltin(f"{type(h).__name__}.{name}", v))]
        if isinstance(v, VStr):
            return [(st, VBuiltin(f"str.{name}", v))]
        if isinstance(v, (VU, VOpaque)) and self.is_path(v):
            return self.path_attr(st, v, name)
        if isinstance(v, (VU, VOpaque)):
            if name == "__class__":
                return [(st, VConst(("classof", v)))]
            out = []
            for s, tv in self.split_tags(st, v):
                if isinstance(tv, (VU, VOpaque)):
                    f = z3.Function("attr$" + name, U, I, U)
                    out.append((s, VU(f(tv.t, z3.IntVal(s.world)))))
                else:
                    out.extend(self.get_attr(s, tv, name, node))
            return out
        if isinstance(v, VConst):
            if isinstance(v.py, tuple) and v.py and v.py[0] == "module":
                r = self.module_name(load.get_module(v.py[1]), name)
                if r is None:
                    return [self.raised(st, "AttributeError", name)]
                return [(st, r)]
            if isinstance(v.py, tuple) and v.py and v.py[0] == "classof" and name == "__name__":
                return [(st, VStr(z3.Function("class_name", U, S)(box(v.py[1]))))]
            if isinstance(v.py, tuple) and v.py and v.py[0] == "instance":
                # module-level instance of a repo class: attribute reads are uninterpreted
                return self.opaque_call(st, f"getattr:{v.py[2]}.{name}", [], pure=True)
            if isinstance(v.py, tuple) and v.py and v.py[0] == "regex":
                return [(st, VBuiltin(f"regex.{name}", v))]
            if isinstance(v.py, _Frozen):
                return [(st, VBuiltin(f"frozen.{name}", v))]
            return [(st, VBuiltin(f"const.{name}", v))]
        if isinstance(v, VBuiltin) and v.self is None:
            full = f"{v.name}.{name}"
            if full == "os.path.pardir":
                return [(st, const(".."))]
            if full == "os.path.sep":
                return [(st, const("/"))]
            if full in self.exc_h:
                return [(st, VExcClass(full))]
            if name in self.exc_h and name[:1].isupper():
                return [(st, VExcClass(name))]
            return [(st, VBuiltin(full))]
        if isinstance(v, VClass):
            if name == "__name__":
                return [(st, const(v.name))]
            ca = self.class_attr(v.module, v.name, name)
            if ca is None:
                return [self.raised(st, "AttributeError", name)]
            kind, mod, owner, item = ca
            if kind == "func":
                return [(st, VFunc(item, mod, None, f"{owner[1]}.{name}", owner))]
            bases = [b[1] for b in load.class_bases(owner[0], owner[1])]
            if any(b in ("Enum", "IntEnum") for b in bases):
                return [(st, VConst(("enum", owner[1], name)))]
            return [(st, self.module_const(mod, name, item))]
        if isinstance(v, VExc):
            if name == "args":
                return [(st, VTuple(v.args))]
            if name == "__class__":
                return [(st, VExcClass(v.cls))]
            attrs = st.ghost.get("exc_attrs", {})
            if (v.uid, name) in attrs:
                return [(st, attrs[(v.uid, name)])]
            for k, val in v.kw:
                if k == name:
                    return [(st, val)]
            if name in ("token", "template_name", "__cause__"):
                return [(st, NONE)]
            return self.opaque_call(st, f"exc.{name}", [], pure=True)
        if isinstance(v, VExcClass) and name == "__name__":
            return [(st, const(v.name))]
        if isinstance(v, VExcClass) and name == "__mro__":
            # linearisation of a single-inheritance exception class (repo classes and builtins)
            return [(st, VTuple(tuple(VExcClass(n) for n in [v.name] + list(self.exc_h.get(v.name, [])))))]
        if isinstance(v, VNone):
            if name == "__class__":
                return [(st, VConst(("classof", v)))]
            return [self.raised(st, "AttributeError", f"'NoneType' object has no attribute '{name}'")]
        if isinstance(v, (VInt, VBool, VFlt)):
            if name == "__class__":
                return [(st, VConst(("classof", v)))]
            return [self.raised(st, "AttributeError", name)]
        if isinstance(v, VTuple):
            return [(st, VBuiltin(f"tuple.{name}", v))]
        if isinstance(v, VSeq):
            return [(st, VBuiltin(f"seq.{name}", v))]
        if isinstance(v, VFunc):
            attrs = self.__dict__.setdefault("_func_attrs", {})
            if (id(v.node), name) in attrs:
                return [(st, attrs[(id(v.node), name)])]
            return [self.raised(st, "AttributeError", f"function has no attribute {name}")]
        if isinstance(v, VRange) and name in ("start", "stop", "step"):
            return [(st, VInt({"start": v.start, "stop": v.stop, "step": z3.IntVal(1)}[name]))]
        raise Unsupported(f"attribute {name} of {type(v).__name__}")

    def set_attr(self, st, obj, name, val):
        if isinstance(obj, VRef) and isinstance(st.deref(obj), HObj):
            h = st.deref(obj)
            h.fields[name] = val
            st.log.append(("setattr", obj.addr, name))
            return [(st, None)]
        if isinstance(obj, VFunc):
            self.__dict__.setdefault("_func_attrs", {})[(id(obj.node), name)] = val
            return [(st, None)]
        if isinstance(obj, VExc):
            attrs = dict(st.ghost.get("exc_attrs", {}))
            attrs[(obj.uid, name)] = val
            st.ghost["exc_attrs"] = attrs
            return [(st, None)]
        if isinstance(obj, (VU, VOpaque)):
            st.log.append(("setattr-opaque", name))
            st.world += 1
            return [(st, None)]
        raise Unsupported(f"attribute store on {type(obj).__name__}")

    # ---------------------------------------------------------------- sequences helpers

    def concrete_items(self, st, v):
        """list of Vals if `v` has a concrete spine, else None"""
        if isinstance(v, VTuple):
            return list(v.items)
        if isinstance(v, VRef):
            h = st.deref(v)
            if isinstance(h, HList) and h.items is not None:
                return list(h.items)
            if isinstance(h, HDeque):
                return list(h.items)
            if isinstance(h, HCIter):
                rest = list(h.items[h.pos :])
                h.pos = len(h.items)  # consumed
                return rest
            if isinstance(h, HDict) and h.present is None:
                return [const(k) if not isinstance(k, Val) else k for k in h.items]
        if isinstance(v, VConst) and isinstance(v.py, _Frozen) and isinstance(v.py.data, (list, tuple)):
            return [const(x) for x in v.py.data]
        if isinstance(v, VConst) and isinstance(v.py, tuple) and v.py and v.py[0] == "concrete-list":
            return list(v.py[1])
        return None

    def list_seq(self, st, ref: VRef):
        h = st.deref(ref)
        if h.items is not None:
            if not h.items:
                return z3.Empty(SeqU)
            units = [z3.Unit(box(x)) for x in h.items]
            return units[0] if len(units) == 1 else z3.Concat(*units)
        if h.tail:
            return z3.Concat(h.seq, *[z3.Unit(box(x)) for x in h.tail])
        return h.seq

    def as_seq(self, st, v):
        """Seq(U) term for an iterable with symbolic spine (None if not iterable that way)"""
        if isinstance(v, VSeq):
            return v.t
        if isinstance(v, VRef):
            h = st.deref(v)
            if isinstance(h, HList):
                return self.list_seq(st, v)
            if isinstance(h, HIter):
                return h.seq
            if isinstance(h, HCIter):
                rest = h.items[h.pos :]
                if not rest:
                    return z3.Empty(SeqU)
                units = [z3.Unit(box(x)) for x in rest]
                return units[0] if len(units) == 1 else z3.Concat(*units)
            if isinstance(h, HDict) and h.present is not None and not h.items:
                # the keys of a dict with unknown contents: an uninterpreted sequence (per dict and
                # world) of keys that are present
                seq = z3.Function("dict_keys", I, I, SeqU)(z3.IntVal(v.addr), z3.IntVal(st.world))
                i = z3.Int("k!dictkeys")
                st.assume(z3.ForAll([i], z3.Implies(z3.And(i >= 0, i < z3.Length(seq)), z3.Select(h.present, seq[i]))))
                return seq
        return None

    # ---------------------------------------------------------------- subscripts

    def get_item(self, st, obj, key):
        if isinstance(obj, VTuple):
            ok, k = concrete(key)
            if ok and isinstance(k, int) and not isinstance(k, bool):
                if -len(obj.items) <= k < len(obj.items):
                    return [(st, obj.items[k])]
                return [self.raised(st, "IndexError", "tuple index out of range")]
            raise Unsupported("tuple index not concrete")
        if isinstance(obj, VStr):
            kt = self.num_term(key)
            if kt is None:
                if isinstance(key, (VU, VOpaque)):
                    out = []
                    for s, kv in self.split_tags(st, key):
                        if isinstance(kv, (VU, VOpaque)):
                            out.extend(self.opaque_call(s, "str.__getitem__(ref)", [obj, kv], may_raise=("TypeError",)))
                        else:
                            out.extend(self.get_item(s, obj, kv))
                    return out
                return [self.raised(st, "TypeError", "string indices must be integers")]
            n = z3.Length(obj.t)
            out = []
            for s, ok in self.branch(st, z3.And(kt >= -n, kt < n)):
                if ok:
                    i = z3.If(kt < 0, kt + n, kt)
                    out.append((s, VStr(z3.SubString(obj.t, i, 1))))
                else:
                    out.append(self.raised(s, "IndexError", "string index out of range"))
            return out
        if isinstance(obj, VSeq):
            return self.seq_index(st, obj.t, key)
        if isinstance(obj, VRef):
            h = st.deref(obj)
            if isinstance(h, HList):
                ok, k = concrete(key)
                if h.items is not None:
                    if ok and isinstance(k, int):
                        if -len(h.items) <= k < len(h.items):
                            return [(st, h.items[k])]
                        return [self.raised(st, "IndexError", "list index out of range")]
                elif ok and isinstance(k, int) and k < 0 and -k <= len(h.tail):
                    return [(st, h.tail[k])]
                return self.seq_index(st, self.list_seq(st, obj), key)
            if isinstance(h, HDict):
                return self.dict_get(st, obj, key)
            if isinstance(h, HODict):
                return self.odict_get(st, obj, key)
            if isinstance(h, HObj):
                m = load.find_method(h.cls[0], h.cls[1], "__getitem__")
                if m is not None:
                    f = VFunc(m[2], load.get_module(m[0]), None, f"{m[1]}.__getitem__", (m[0], m[1]))
                    return self.call_function(st, f, [key], {}, self_val=obj)
                return [self.raised(st, "TypeError", "object is not subscriptable")]
            if isinstance(h, HDeque):
                ok, k = concrete(key)
                if ok:
                    if -len(h.items) <= k < len(h.items):
                        return [(st, h.items[k])]
                    return [self.raised(st, "IndexError", "deque index out of range")]
        if isinstance(obj, (VU, VOpaque)):
            out = []
            for s, ov in self.split_tags(st, obj):
                if isinstance(ov, (VU, VOpaque)):
                    # a reference: list / dict / user object -- governed by the data model:
                    # may raise KeyError / IndexError / TypeError
                    out.extend(self.opaque_call(s, "getitem", [ov, key], may_raise=("KeyError", "IndexError", "TypeError"), pure=True))
                elif isinstance(ov, VStr):
                    out.extend(self.get_item(s, ov, key))
                else:
                    out.append(self.raised(s, "TypeError", "object is not subscriptable"))
            return out
        if isinstance(obj, (VInt, VBool, VNone, VFlt)):
            return [self.raised(st, "TypeError", "object is not subscriptable")]
        if isinstance(obj, VConst) and isinstance(obj.py, _Frozen) and isinstance(obj.py.data, dict):
            ok, k = concrete(key)
            if ok:
                if k in obj.py.data:
                    return [(st, const(obj.py.data[k]))]
                return [self.raised(st, "KeyError", str(k))]
            if isinstance(key, VStr):
                # symbolic key into a constant table: the result is an uninterpreted function
                # of the key on the hit side (one path, not one per entry)
                keys = [kk for kk in obj.py.data if isinstance(kk, str)]
                hit = z3.Or(*[key.t == z3.StringVal(kk) for kk in keys]) if keys else z3.BoolVal(False)
                out = []
                for s, h in self.branch(st, hit):
                    if h:
                        val = z3.StringVal("")
                        allstr = all(isinstance(obj.py.data[kk], str) for kk in keys)
                        if not allstr:
                            raise Unsupported("symbolic key into a constant table with non-string values")
                        for kk in keys:
                            val = z3.If(key.t == z3.StringVal(kk), z3.StringVal(obj.py.data[kk]), val)
                        out.append((s, VStr(val)))
                    else:
                        out.append(self.raised(s, "KeyError", "key"))
                return out
        if isinstance(obj, VConst) and isinstance(obj.py, tuple) and obj.py and obj.py[0] == "global" and isinstance(key, (VClass, VExcClass)):
            # module-level dict literal keyed by classes (e.g. exceptions.WARNINGS)
            from . import load as _load
            mod = _load.get_module(obj.py[1])
            lit = mod.consts.get(obj.py[2])
            if isinstance(lit, ast.Dict):
                hit = self.class_table_lookup(mod, lit, key)
                if hit is not None:
                    return [(st, hit)]
                return [self.raised(st, "KeyError", key.name)]
        if isinstance(obj, VConst) and isinstance(obj.py, tuple) and obj.py and obj.py[0] == "path-parts":
            # one component of Path.parts: an uninterpreted string (only `'..' in parts` is related
            # to the path model; nothing follows from a single component), IndexError when empty
            idx = key.t if isinstance(key, VInt) else None
            if idx is None:
                raise Unsupported("non-integer subscript of Path.parts")
            part = z3.Function("path_part", U, I, S)(obj.py[1].t, idx)
            has = z3.Function("path_has_part", U, I, B)(obj.py[1].t, idx)
            out = []
            for s, ok in self.branch(st, has):
                out.append((s, VStr(part)) if ok else self.raised(s, "IndexError", "tuple index out of range"))
            return out
        if isinstance(obj, VBuiltin) and obj.name.rsplit(".", 1)[-1] in ("Optional", "Union", "List", "Dict", "Tuple", "Sequence", "Mapping", "Iterable", "Iterator", "Type", "Callable", "list", "dict", "tuple", "set", "frozenset", "type") and obj.self is None:
            # a typing form (Optional[int], dict[str, object]) used as a runtime value (typing.cast):
            # an opaque constant
            return [(st, VConst(("typing-form", obj.name)))]
        raise Unsupported(f"subscript of {type(obj).__name__} {obj!r}")

    def class_table_lookup(self, mod, lit, key):
        """value of a module-level dict literal keyed by classes, for a class key (or None)"""
        for k, v in zip(lit.keys, lit.values):
            kn = k.id if isinstance(k, ast.Name) else (k.attr if isinstance(k, ast.Attribute) else None)
            if kn == key.name:
                return self.module_expr(mod, v)
        return None

    def module_expr(self, mod, node):
        """a constant-like expression in a module's top-level scope: names, constants, tuples"""
        if isinstance(node, ast.Constant):
            return const(node.value)
        if isinstance(node, ast.Name):
            r = self.module_name(mod, node.id)
            if r is None:
                raise Unsupported(f"module-level name {node.id}")
            return r
        if isinstance(node, ast.Tuple):
            return VTuple(tuple(self.module_expr(mod, e) for e in node.elts))
        return VConst(("table-value", ast.unparse(node)))

    def seq_index(self, st, seq, key):
        kt = self.num_term(key)
        if kt is None:
            if isinstance(key, (VU, VOpaque)):
                out = []
                for s, kv in self.split_tags(st, key, tags=("bool", "int", "none", "str", "flt", "ref")):
                    if isinstance(kv, (VInt, VBool)):
                        out.extend(self.seq_index(s, seq, kv))
                    else:
                        out.append(self.raised(s, "TypeError", "list indices must be integers"))
                return out
            return [self.raised(st, "TypeError", "list indices must be integers")]
        n = z3.Length(seq)
        out = []
        for s, ok in self.branch(st, z3.And(kt >= -n, kt < n)):
            if ok:
                i = z3.If(kt < 0, kt + n, kt)
                out.append((s, unbox(seq[i])))
            else:
                out.append(self.raised(s, "IndexError", "index out of range"))
        return out

    def get_slice(self, st, obj, lo, hi, step):
        if step is not None:
            raise Unsupported("slice step")
        def b(x):
            if x is None or isinstance(x, VNone):
                return None
            t = self.num_term(x)
            if t is None:
                raise Unsupported("non-int slice bound")
            return t
        lo_t, hi_t = b(lo), b(hi)
        if isinstance(obj, VStr):
            a, ln = py_slice_bounds(z3.Length(obj.t), lo_t, hi_t)
            return [(st, VStr(z3.SubString(obj.t, a, ln)))]
        seq = self.as_seq(st, obj)
        if seq is not None:
            items = self.concrete_items(st, obj)
            clo = z3.simplify(lo_t) if lo_t is not None else None
            chi = z3.simplify(hi_t) if hi_t is not None else None
            if items is not None and (clo is None or z3.is_int_value(clo)) and (chi is None or z3.is_int_value(chi)):
                sl = items[(clo.as_long() if clo is not None else None) : (chi.as_long() if chi is not None else None)]
                if isinstance(obj, VTuple):
                    return [(st, VTuple(tuple(sl)))]
                return [(st, st.alloc(HList(items=sl)))]
            a, ln = py_slice_bounds(z3.Length(seq), lo_t, hi_t)
            return [(st, st.alloc(HList(seq=z3.SubSeq(seq, a, ln))))]
        if isinstance(obj, VTuple):
            items = list(obj.items)
            clo = z3.simplify(lo_t) if lo_t is not None else None
            chi = z3.simplify(hi_t) if hi_t is not None else None
            if (clo is None or z3.is_int_value(clo)) and (chi is None or z3.is_int_value(chi)):
                return [(st, VTuple(tuple(items[(clo.as_long() if clo is not None else None) : (chi.as_long() if chi is not None else None)])))]
        if isinstance(obj, (VU, VOpaque)):
            out = []
            for s, ov in self.split_tags(st, obj):
                if isinstance(ov, VStr):
                    out.extend(self.get_slice(s, ov, lo, hi, step))
                elif isinstance(ov, (VU, VOpaque)):
                    args = [ov] + [x for x in (lo, hi) if x is not None]
                    out.extend(self.opaque_call(s, "getslice", args, may_raise=("TypeError",), pure=True))
                else:
                    out.append(self.raised(s, "TypeError", "object is not subscriptable"))
            return out
        raise Unsupported(f"slice of {type(obj).__name__}")

    # dict with concrete keys + optional symbolic remainder
    def dict_key(self, key):
        ok, k = concrete(key)
        if ok:
            return True, k
        return False, None

    def dict_get(self, st, ref, key):
        h = st.deref(ref)
        ok, k = self.dict_key(key)
        if h.present is None:
            if ok:
                try:
                    hash(k)
                except TypeError:
                    return [self.raised(st, "TypeError", "unhashable")]
                if k in h.items:
                    return [(st, h.items[k])]
                return [self.raised(st, "KeyError", repr(k))]
            # symbolic key into a concrete-key dict: compare with each key
            out = []
            cur = st
            kb = box(key)
            for ck, cv in h.items.items():
                eq = kb == box(const(ck))
                s_hit = cur.fork().assume(eq)
                if feasible(s_hit.pc):
                    out.append((s_hit, cv))
                cur = cur.assume(z3.Not(eq))
            if feasible(cur.pc):
                out.append(self.raised(cur, "KeyError", "key"))
            return out
        kb = box(key)
        # keys written concretely after the symbolic part was created shadow it
        out = []
        cur = st
        for ck, cv in h.items.items():
            eq = kb == box(const(ck))
            s_hit = cur.fork().assume(eq)
            if feasible(s_hit.pc):
                out.append((s_hit, cv))
            cur = cur.assume(z3.Not(eq))
        for s, pres in self.branch(cur, z3.Select(h.present, kb)):
            if pres:
                out.append((s, unbox(z3.Select(h.val, kb))))
            else:
                out.append(self.raised(s, "KeyError", "key"))
        return out

    def set_item(self, st, obj, key, val):
        if isinstance(obj, VRef):
            h = st.deref(obj)
            if isinstance(h, HDict):
                ok, k = self.dict_key(key)
                st.log.append(("setitem", obj.addr))
                if ok and h.present is None:
                    h.items[k] = val
                    return [(st, None)]
                kb = box(key)
                if h.present is None:
                    # convert to symbolic representation
                    pres = z3.K(U, z3.BoolVal(False))
                    vals = z3.K(U, U.none)
                    for ck, cv in h.items.items():
                        pres = z3.Store(pres, box(const(ck)), True)
                        vals = z3.Store(vals, box(const(ck)), box(cv))
                    h.items = {}
                    h.present, h.val = pres, vals
                elif h.items:
                    for ck, cv in h.items.items():
                        h.present = z3.Store(h.present, box(const(ck)), True)
                        h.val = z3.Store(h.val, box(const(ck)), box(cv))
                    h.items = {}
                h.present = z3.Store(h.present, kb, True)
                h.val = z3.Store(h.val, kb, box(val))
                return [(st, None)]
            if isinstance(h, HODict):
                return self.odict_set(st, obj, key, val)
            if isinstance(h, HList):
                # xs[i] = v on a list with a concrete spine and a concrete index
                ok_i, i_ = concrete(key)
                if h.items is not None and ok_i and isinstance(i_, int) and not isinstance(i_, bool):
                    n_ = len(h.items)
                    if -n_ <= i_ < n_:
                        h.items[i_] = val
                        st.log.append(("setitem", obj.addr))
                        return [(st, None)]
                    return [self.raised(st, "IndexError", "list assignment index out of range")]
                raise Unsupported("list item assignment")
            if isinstance(h, HObj):
                m = load.find_method(h.cls[0], h.cls[1], "__setitem__")
                if m is not None:
                    f = VFunc(m[2], load.get_module(m[0]), None, f"{m[1]}.__setitem__", (m[0], m[1]))
                    return [(s, r if isinstance(r, Raised) else None) for s, r in self.call_function(st, f, [key, val], {}, self_val=obj)]
        if isinstance(obj, (VU, VOpaque)):
            st.log.append(("setitem-opaque", box(obj), box(key), box(val)))
            st.world += 1
            return [(st, None)]
        raise Unsupported(f"item assignment on {type(obj).__name__}")

    def del_item(self, st, obj, key):
        if isinstance(obj, VRef):
            h = st.deref(obj)
            if isinstance(h, HODict):
                return self.odict_del(st, obj, key)
            if isinstance(h, HDict) and h.present is None:
                ok, k = self.dict_key(key)
                if ok:
                    if k in h.items:
                        del h.items[k]
                        return [(st, None)]
                    return [self.raised(st, "KeyError", repr(k))]
            if isinstance(h, HDict) and h.present is not None:
                # symbolic part: del d[k] raises KeyError when k is absent, else clears presence
                if h.items:
                    for ck, cv in h.items.items():
                        h.present = z3.Store(h.present, box(const(ck)), True)
                        h.val = z3.Store(h.val, box(const(ck)), box(cv))
                    h.items = {}
                kb = box(key)
                out = []
                for s, pres in self.branch(st, z3.Select(h.present, kb)):
                    if pres:
                        hh = s.deref(obj)
                        hh.present = z3.Store(hh.present, kb, False)
                        s.log.append(("delitem", obj.addr))
                        out.append((s, None))
                    else:
                        out.append(self.raised(s, "KeyError", "key"))
                return out
        raise Unsupported(f"del item on {type(obj).__name__}")

    def container_contains(self, st, ref, item):
        h = st.deref(ref)
        if isinstance(h, HODict):
            self.od_access(st, ref)
            return [(st, z3.Select(h.present, box(item)))]
        if isinstance(h, HDict):
            if h.present is None:
                ok, k = concrete(item)
                if ok:
                    return [(st, z3.BoolVal(k in h.items))]
                kb = box(item)
                return [(st, z3.Or(*[kb == box(const(ck)) for ck in h.items]) if h.items else z3.BoolVal(False))]
            kb = box(item)
            return [(st, z3.Or(z3.Select(h.present, kb), *[kb == box(const(ck)) for ck in h.items]))]
        if isinstance(h, HSet):
            return self.py_in(st, item, VTuple(tuple(h.items)))
        if isinstance(h, HList):
            if h.items is not None:
                return self.py_in(st, item, VTuple(tuple(h.items)))
            return [(st, z3.Contains(self.list_seq(st, ref), z3.Unit(box(item))))]
        if isinstance(h, HObj):
            m = load.find_method(h.cls[0], h.cls[1], "__contains__")
            if m is not None:
                f = VFunc(m[2], load.get_module(m[0]), None, f"{m[1]}.__contains__", (m[0], m[1]))
                return [(s, r if isinstance(r, Raised) else self.truth(s, r)) for s, r in self.call_function(st, f, [item], {}, self_val=ref)]
            gi = load.find_method(h.cls[0], h.cls[1], "__getitem__") if h.cls[0].startswith("liquid") else None
            if gi is not None:
                # collections.abc.Mapping.__contains__ (mixin): `try: self[key]` / `except KeyError: False`
                f = VFunc(gi[2], load.get_module(gi[0]), None, f"{gi[1]}.__getitem__", (gi[0], gi[1]))
                out = []
                for s, r in self.call_function(st, f, [item], {}, self_val=ref):
                    if isinstance(r, Raised):
                        out.append((s, z3.BoolVal(False)) if r.exc.cls == "KeyError" else (s, r))
                    else:
                        out.append((s, z3.BoolVal(True)))
                return out
        raise Unsupported(f"`in` on {type(h).__name__}")


def _is_static(node):
    return any(ast.unparse(d) == "staticmethod" for d in getattr(node, "decorator_list", []))


def _walk_own(fnode):
    """walk a function body without descending into nested defs/lambdas"""
    stack = list(fnode.body)
    while stack:
        n = stack.pop()
        yield n
        if isinstance(n, (ast.FunctionDef, ast.AsyncFunctionDef, ast.Lambda, ast.ClassDef)):
            continue
        for c in ast.iter_child_nodes(n):
            if isinstance(c, (ast.FunctionDef, ast.AsyncFunctionDef, ast.Lambda, ast.ClassDef)):
                continue
            stack.append(c)


def _number_loops(fnode, full):
    if getattr(fnode, "_loops_numbered", False):
        return
    k = 0
    for n in ast.walk(fnode):
        if isinstance(n, (ast.For, ast.AsyncFor, ast.While)):
            pass
    # source order
    loops = [n for n in ast.walk(fnode) if isinstance(n, (ast.For, ast.AsyncFor, ast.While))]
    loops.sort(key=lambda n: (n.lineno, n.col_offset))
    for k, n in enumerate(loops):
        n._loop_id = (full, k)
    fnode._loops_numbered = True
    fnode._loop_count = len(loops)


def _fresh_of_sort(sort, name):
    if sort == "int":
        return VInt(fresh(name, I))
    if sort == "bool":
        return VBool(fresh(name, B))
    if sort == "str":
        return VStr(fresh(name, S))
    if sort == "optint":
        return VU(fresh(name, U))
    return VU(fresh(name, U))
