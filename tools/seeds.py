"""Evaluate seeded changes: python3 tools/seeds.py <src_root> [prop ...]
For each <src_root>/<prop>/<k>/{patch.diff,demo.py,notes.md}: apply to /repo, run the demo
(must fail), the baseline tests (must pass), the property's check (VERIF_NO_EVIDENCE=1), undo;
run the demo on the clean tree (must pass).  Kept changes are copied to /verif/seeded/."""
import json
import os
import shutil
import subprocess
import sys

VERIF = os.path.dirname(os.path.dirname(os.path.abspath(__file__)))
REPO = os.environ.get("VERIF_REPO", "/repo")  # the tree the change is applied to (default: /repo itself)


def sh(cmd, cwd=REPO, env=None, timeout=1800):
    e = dict(os.environ)
    e.update(env or {})
    try:
        p = subprocess.run(cmd, shell=True, cwd=cwd, capture_output=True, text=True, env=e, timeout=timeout)
    except subprocess.TimeoutExpired as ex:
        return 124, "CHECKER-ERROR timeout: " + cmd + "\n" + ((ex.stdout or b"").decode("utf8", "replace") if isinstance(ex.stdout, bytes) else (ex.stdout or ""))
    return p.returncode, (p.stdout + p.stderr)


def main():
    root = sys.argv[1]
    summary = []
    if root == "--recheck":
        # re-validate every kept change in /verif/seeded against the current tree
        items = []
        for name in sorted(os.listdir(os.path.join(VERIF, "seeded"))):
            if os.environ.get("VERIF_SEED_FILTER") and not __import__("re").search(os.environ["VERIF_SEED_FILTER"], name):
                continue
            if "-" in name and os.path.isdir(os.path.join(VERIF, "seeded", name)) and (not sys.argv[2:] or name.split("-")[0] in sys.argv[2:]):
                items.append((name.split("-")[0], name.split("-")[1], os.path.join(VERIF, "seeded", name)))
    else:
        props = sys.argv[2:] or sorted(os.listdir(root))
        items = []
        for prop in props:
            pdir = os.path.join(root, prop)
            if not os.path.isdir(pdir):
                continue
            for k in sorted(os.listdir(pdir)):
                items.append((prop, k, os.path.join(pdir, k)))
    baseline = {}
    for prop, k, d in items:
        if prop not in baseline:
            # a detection only means something if the property's check is clean on the tree the
            # change is applied to (an open defect of the same obligation would "detect" anything)
            brc, bout = sh(f"./check {prop}", cwd=VERIF, env={"VERIF_NO_EVIDENCE": "1", "VERIF_REPO": REPO})
            baseline[prop] = (brc == 0 and not any(l.startswith(("VIOLATION", "CHECKER-ERROR", "UNDECIDED")) for l in bout.splitlines()))
        if not baseline[prop]:
            summary.append((prop, k, "BASELINE-NOT-CLEAN", "", ""))
            continue
        if True:
            if not os.path.exists(os.path.join(d, "patch.diff")):
                continue
            rc, _ = sh("git diff --quiet")
            if rc != 0:
                print("repo dirty; abort")
                return 3
            rc, out = sh(f"git apply --check {d}/patch.diff")
            if rc != 0:
                summary.append((prop, k, "patch-does-not-apply", "", ""))
                continue
            sh(f"git apply {d}/patch.diff")
            try:
                drc, dout = sh(f"PYTHONPATH={REPO} timeout 300 /venv/bin/python {d}/demo.py")
                sh(f"rm -rf {REPO}/.hypothesis"); trc, tout = sh("/venv/bin/python -m pytest -q -p no:cacheprovider --continue-on-collection-errors 2>&1 | tail -1")
                crc, cout = sh(f"./check {prop}", cwd=VERIF, env={"VERIF_NO_EVIDENCE": "1", "VERIF_REPO": REPO})
            finally:
                sh("git checkout -- .")
            crc0, dout0 = sh(f"PYTHONPATH={REPO} timeout 300 /venv/bin/python {d}/demo.py")
            viol = [l for l in cout.splitlines() if l.startswith("VIOLATION")]
            errs = [l for l in cout.splitlines() if l.startswith("CHECKER-ERROR")]
            tests_ok = "1385 passed" in tout
            valid = drc != 0 and crc0 == 0 and tests_ok
            detected = bool(viol)
            status = ("DETECTED" if detected else ("CHECKER-ERROR" if errs else "MISSED")) if valid else f"INVALID(demo_with={drc},demo_without={crc0},tests_ok={tests_ok})"
            summary.append((prop, k, status, viol[0][:200] if viol else (errs[0][:200] if errs else ""), tout.strip()))
            if root == "--recheck" and not valid:
                with open(os.path.join(d, "STALE.txt"), "w") as fd:
                    fd.write(status + "\n")
            if valid:
                if os.path.exists(os.path.join(d, "STALE.txt")):
                    os.remove(os.path.join(d, "STALE.txt"))
                dest = os.path.join(VERIF, "seeded", f"{prop}-{k}")
                os.makedirs(dest, exist_ok=True)
                for f in ("patch.diff", "demo.py", "notes.md"):
                    if os.path.exists(os.path.join(d, f)) and os.path.abspath(d) != os.path.abspath(dest):
                        shutil.copy(os.path.join(d, f), os.path.join(dest, f))
                meta = {"property": prop, "source": "independent sub-agent given only the property text and a scratch worktree", "needs_to_manifest": "see notes.md",
                        "confirmed": {"demo_exit_with_patch": drc, "demo_exit_without_patch": crc0, "baseline_tests_with_patch": tout.strip()},
                        "check": {"cmd": f"./check {prop}", "exit": crc, "detected": detected, "first_violation": viol[0] if viol else None, "violations": len(viol), "checker_errors": errs[:3]}}
                with open(os.path.join(dest, "meta.json"), "w") as fd:
                    json.dump(meta, fd, indent=1)
    for row in summary:
        print(" | ".join(str(x) for x in row))


if __name__ == "__main__":
    sys.exit(main())
