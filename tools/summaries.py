"""callee summaries used by contracts vs. functions that are themselves under contract:
python3-vt tools/summaries.py  -- lists every summarised target without a contract of its own"""
import importlib, os, re, sys, glob, collections
sys.path.insert(0, os.path.dirname(os.path.dirname(os.path.abspath(__file__))))
from pyvc.contract import REGISTRY
for f in sorted(glob.glob(os.path.join(os.path.dirname(__file__), "..", "contracts", "C[0-9][0-9].py"))):
    importlib.import_module("contracts." + os.path.basename(f)[:-3])
targets = collections.defaultdict(set)
for prop, cds in REGISTRY.items():
    for cd in cds:
        targets[cd.target].add(prop)
CONST = {"CTX": "liquid.context:RenderContext", "ENV": "liquid.environment:Environment", "TEMPLATE": "liquid.template:BoundTemplate", "CHAIN": "liquid.utils.chain_map:ReadOnlyChainMap",
         "LOOP": "liquid.builtin.expressions.loop:LoopExpression", "LOOPEXPR": "liquid.builtin.expressions.loop:LoopExpression", "LOOPX": "liquid.builtin.expressions.loop:LoopExpression", "EXP": "liquid.expression:Expression", "EXPR": "liquid.expression:Expression",
         "FILTER": "liquid.builtin.expressions.filtered:Filter", "SA": "liquid.static_analysis", "MIXIN": "liquid.builtin.loaders.mixins:CachingLoaderMixin", "LSIO": "liquid.output:LimitedStringIO"}
used = collections.defaultdict(set)
for f in sorted(glob.glob(os.path.join(os.path.dirname(__file__), "..", "contracts", "*.py"))):
    src = open(f).read()
    for m in re.finditer(r'c\.summary\(\s*(f?"[^"]*"|[A-Z_]+)(\s*\+\s*(f?"[^"]*"|sfx|n_))*', src):
        expr = m.group(0)[len("c.summary("):]
        parts = [p.strip() for p in expr.split("+")]
        out = ""
        for p in parts:
            if p.startswith(('f"', '"')):
                out += re.sub(r"\{[^}]*\}", "*", p.lstrip("f").strip('"'))
            elif p in CONST:
                out += CONST[p]
            elif p in ("sfx", "n_"):
                out += ""
            else:
                out += "<" + p + ">"
        used[out].add(os.path.basename(f)[:-3])
for t in sorted(used):
    base = t
    has = [k for k in targets if k == base or k == base + "_async" or (("*" in base) and re.fullmatch(re.escape(base).replace("\\*", ".*"), k))]
    print(("verified  " if has else "ASSUMED   ") + t, sorted(used[t]), "<-", sorted({p for k in has for p in targets[k]}))
