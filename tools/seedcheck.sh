#!/bin/sh
# tools/seedcheck.sh <prop> <dir-with-patch.diff-and-demo.py> : apply to /repo, run demo, tests, check; revert.
prop=$1; d=$2
cd /repo || exit 3
git diff --quiet || { echo "repo dirty"; exit 3; }
if ! git apply --check "$d/patch.diff" 2>/dev/null; then echo "PATCH-DOES-NOT-APPLY"; exit 2; fi
git apply "$d/patch.diff"
echo "--- demo with patch:"; (cd /repo && PYTHONPATH=/repo timeout 120 /venv/bin/python "$d/demo.py" >/tmp/seed_demo.out 2>&1; echo "exit=$?"; tail -2 /tmp/seed_demo.out)
echo "--- tests with patch:"; /venv/bin/python -m pytest -q -p no:cacheprovider --continue-on-collection-errors 2>&1 | tail -1
echo "--- check with patch:"; (cd /verif && VERIF_NO_EVIDENCE=1 ./check "$prop" 2>&1 | cut -c1-230 | grep -v "^KNOWN" | head -6)
git checkout -- .
echo "--- demo without patch:"; (PYTHONPATH=/repo timeout 120 /venv/bin/python "$d/demo.py" >/tmp/seed_demo.out 2>&1; echo "exit=$?"; tail -1 /tmp/seed_demo.out)
