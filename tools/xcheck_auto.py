"""List the contracts whose call shape admits the CPython cross-check (scalar inputs, plain
function): python3-vt tools/xcheck_auto.py C25 C02 ...  (discovery aid; not a check)"""
import importlib, os, sys
sys.path.insert(0, os.path.dirname(os.path.dirname(os.path.abspath(__file__))))
from pyvc.contract import REGISTRY, verify_contract
import multiprocessing as mp

def run(a):
    prop, i = a
    r = verify_contract(REGISTRY[prop][i], "quick")
    return r["contract"], r.get("crosscheck_auto"), r.get("crosscheck"), r.get("error")

if __name__ == "__main__":
    jobs = []
    for prop in sys.argv[1:]:
        importlib.import_module(f"contracts.{prop}")
        jobs += [(prop, i) for i in range(len(REGISTRY.get(prop, [])))]
    with mp.get_context("fork").Pool(12) as pool:
        for name, auto, xc, err in pool.imap_unordered(run, jobs, chunksize=1):
            if xc and not xc.get("error"):
                print("ON  ", name, {k: v for k, v in xc.items() if k != "mismatches"}, (xc.get("mismatches") or [])[:2])
            elif xc:
                print("no  ", name, xc.get("error")[:100])
            else:
                print("off ", name)
