#!/bin/sh
# run every claimed check on the current tree (quick tier), in sequence
cd "$(dirname "$0")/.." || exit 3
rc=0
for p in $(python3 -c "import json; print(' '.join(c['property_id'] for c in json.load(open('MANIFEST.json'))['checks']))"); do
  ./check "$p" --tier "${1:-quick}" | tail -1 | cut -c1-170 || rc=1
done
exit $rc
