"""Regenerate MANIFEST.json from the table below (python3 tools/manifest.py)."""
import json
import os

HERE = os.path.dirname(os.path.dirname(os.path.abspath(__file__)))

BASE_NOTE = (
    "Trusted: the pyvc VC generator itself (ast->SMT encoding of the accepted Python subset, DESIGN 2.2-2.3), z3 5.1 / cvc5, "
    "the assumed contracts of CPython builtins and library functions (DESIGN 3, listed per run in evidence.assumptions), "
    "uninterpreted callees named in the evidence, single-threaded single-task execution. Bounded stand-ins are labelled bounded and never counted as discharged."
)

# property -> (category, text, technique, design_ref, extra note)
CLAIMS = {
    "C04": (
        "other",
        "Contracts on the real printers: StringLiteral.__str__ (for every value: quoted with a quote that does not occur in it, no escapes -- z3/cvc5 string theory); "
        "BooleanExpression.__str__ executed symbolically by pyvc on an instance of every (class, parent class, side, right-edge) combination the printer's parenthesisation decision depends on (501 trees over the real expression classes), "
        "each printed condition regrouped by the parser's grouping function (lemma L-Pratt, contracts/C04_lemma.md, real PRECEDENCES table) and compared with the tree; "
        "Path.__str__ prints a segment bare only if it is a property name and not in the expression tokenizer's real keyword table (const-evaluated from the source each run), else bracketed with a quote that does not occur in it; "
        "container nodes (case/if/unless/block) print exactly their tag markup around their children's texts in list order (70 obligations over child-kind sequences up to length 3); "
        "tag printers (pyvc-flow): open/close with their own tag's name, print every field the render method uses through that field's printer, add no stray braces. "
        "The round trip through the regular-expression lexers (parses, renders identically on 5 data sets, second serialisation identical) is a bounded run-time contract over ~1000 (quick) / ~5000 (thorough) generated templates.",
        "deductive contracts on printers (pyvc symbolic execution, z3/cvc5) + structural printer obligations (pyvc-flow) + bounded round-trip contract",
        "DESIGN.md section 4 C04; contracts/C04_lemma.md",
        "Lemma L-Pratt is pen-and-paper; the lexers are not modelled; float literal printing is bounded only. Known finding: nil prints as the empty string (pinned by the test suite).",
    ),
    "C11": (
        "proof",
        "Contracts on the real compile_liquid_rules, get_lexer, Environment.tokenizer and LiquidTag.__init__, executed symbolically by pyvc over six arbitrary delimiter strings with re.escape uninterpreted: every pattern handed to re.compile contains a delimiter only under re.escape, "
        "no literal pattern fragment spells a default delimiter, every configured delimiter reaches the rules, each rule is opened/closed by its own kind of delimiter, and the chain Environment -> get_lexer -> compile_liquid_rules passes each delimiter to the parameter of the same name. "
        "Memo tables (get_lexer, get_parser, get_implicit_environment): key-completeness and identity-key obligations; environment isolation: frame obligations over registration, tag constructors and Parser (pyvc-flow). "
        "That the compiled regular expressions delimit markup as intended is not modelled: bounded delimiter-rewrite and interleaving check (16 delimiter sets x <=591 templates, 9 configurations interleaved).",
        "deductive contracts over pattern terms (pyvc symbolic execution, z3) + frame/memo-key obligations (pyvc-flow) + bounded rewrite-equivalence check",
        "DESIGN.md section 4 C11",
        "re.escape(s) matches exactly s (DESIGN 3); functools.lru_cache keys on all arguments.",
    ),
    "C05": (
        "other",
        "Provenance (taint) obligations over the real source, enumerated on every run: every construction of Markup in liquid/** (21 sites) has an argument of an admitted provenance (template literal, buffer of already-escaped writes, escaped earlier in the same function, derived from a value tested to be Markup, percent-/js-encoded, immediately unescaped, or exempt by the statement); "
        "the translate filters, which mark their left value as markup, are registered with autoescape_message=env.autoescape; every buffer.write in a node's render method writes to_liquid_string(..., autoescape), template text or a nested buffer. "
        "to_liquid_string(val, True) is verified to return escape(text) for every non-safe value. The clause 'every & begins an escape sequence' is not a provenance fact and is decided by a bounded check (4 hostile values x filter chains of length <= 2 over 46 filters, 14 tag frames).",
        "taint/provenance contract obligations (pyvc-flow) + deductive contract on to_liquid_string + bounded contract check",
        "DESIGN.md section 4 C05",
        "markupsafe's contracts are assumed (DESIGN 3). Known finding: cut escape sequences.",
    ),
    "C09": (
        "other",
        "Depth ghost contracts on the real RenderContext.copy (every copy is exactly one level deeper and is cut off with ContextDepthError exactly beyond the limit) and RenderContext.extend (the block runs one scope deeper, cut off beyond the limit); "
        "a structural obligation that every place a node renders another template / macro / parent block does so through copy or extend; loop-variant obligations (every iteration consumes a token or exits) on all 30+ token-stream while loops of the parser, tags and expression parsers; the extends chain walk grows `seen` at every step (C18). "
        "A bounded check parses every 1-2 piece (thorough 3) sequence of 28 block-tag pieces under a time budget and runs 7 recursive families at block depths 0..29.",
        "contract-based deductive verification (depth ghost) + structural variant / call-site obligations + bounded contract check",
        "DESIGN.md section 4 C09",
        "Known finding: the Python stack is exhausted before the depth limit when the recursive call sits inside nested blocks. Regex backtracking time is not covered.",
    ),
    "C19": (
        "other",
        "Local completeness obligations per Node subclass (enumerated mechanically): every expression-valued field a render method may evaluate is produced by expressions() (or belongs to a child node that reports it), every node field it may render is produced by children(); "
        "the traversal may skip a partial only when its scope cannot differ from the first visit (isolated scope, same key) or it is being visited. These are structural (field-level) obligations over the real ASTs. "
        "The traversal's global/local bookkeeping is decided by a bounded dynamic contract check: 1100+ templates over nested loops, captures, assignments, macros, with blocks and partials used twice from different scopes are rendered with a tracking mapping at the globals level; every root name that reaches it, every filter applied and every tag must be in the report.",
        "structural completeness obligations (pyvc-flow) + bounded dynamic contract check (labelled bounded)",
        "DESIGN.md section 4 C19",
        "No symbolic contract on analyze._visit (closures over mutable maps, recursive traversal).",
    ),
    "C18": (
        "other",
        "Contracts on the real inheritance kernels: _store_blocks (for stacks of 0..2 more-derived definitions: the new definition is appended below them, becomes the parent of the previous one, parent links above are untouched, only an un-overridden required block is effectively required) and "
        "BlockNode.render_to_output (for stacks of 0..3 definitions: renders the most-derived definition -- stack[0] -- in a copy that shares the block stacks so nested blocks resolve again, hands it a block drop whose super is the next definition up, "
        "RequiredBlockError iff the effective definition is required, own body when rendered stand-alone). Structural obligations: ExtendsNode ends with StopRender and render_with_context breaks on it, circular extends / too many extends / duplicate blocks / mismatched endblock raise TemplateInheritanceError, every chain step grows `seen`. "
        "A bounded check renders every chain of length 1..3 (thorough 4) over two block names against a reference resolver written from the statement.",
        "contract-based deductive verification (heap-shape contracts on the block-stack kernels) + structural obligations + bounded contract check",
        "DESIGN.md section 4 C18",
        "One known finding (stand-alone template with duplicate block names is not rejected) keeps the level at 'other'.",
    ),
    "C17": (
        "proof",
        "Frame (write-set) obligations over the real ASTs, enumerated mechanically on every run: none of the render / evaluate / children / scope methods of any Node or Expression subclass stores into or mutates its own object (150+ methods); "
        "no filter function mutates (or stores into) an object reachable from its parameters (80+ filters); every memoised function (lru_cache) reads no clock/environment and its key does not conflate arguments it treats by type; "
        "no function of liquid/** writes a module-level mutable container. A bounded history check deep-compares render data before/after every array filter and replays all ordered pairs of history-sensitive templates against a fresh environment.",
        "frame / write-set contract obligations discharged syntactically over the real ASTs (pyvc-flow) + bounded history contract check",
        "DESIGN.md section 4 C17",
        "Write sets are syntactic (receiver rooted at self / at a parameter); aliasing through other locals is covered by the bounded deep-copy comparison only.",
    ),
    "C15": (
        "proof",
        "RenderContext.copy(block_scope=False) is verified with a frame/alias obligation on the symbolic heap: the new context has fresh empty locals, its scope is [its locals, chain(namespace, caller globals), builtin, its counters], "
        "and nothing reachable from it aliases the caller's locals, counters, tag namespace, loop stack or any open block namespace; the caller's context is untouched. Node.render raises DisabledTagError iff the node's tag is disabled. "
        "Call-site obligations (structural) on RenderNode and CallNode, sync and async: the partial/macro is rendered with that copy (never the caller's context), render disables include and renders with block_scope=True, and neither writes the caller's context. "
        "A bounded check renders 5 caller binders x 4 wrappers x 5 partial bodies through render / render with argument / call.",
        "contract-based deductive verification (heap alias/frame obligation) + structural call-site obligations + bounded contract check",
        "DESIGN.md section 4 C15",
        "",
    ),
    "C20": (
        "proof",
        "Span.line_col and LiquidError._error_context are verified total and correct for every position inside the source (loop invariant: cumulative length == total length of the lines seen so far, over the assumed splitlines partition): "
        "the returned line/column locate the index inside its line and no ValueError is possible. The expression tokenizer's loop body is verified for every match kind: each emitted token and each error token carries start_index == parent offset + match offset and the template's source. "
        "That every Token(...) built by the three tokenizers takes its offset from a match offset is a structural obligation. That parsed nodes keep the token of the reported name is checked by a bounded sweep over every span reported for 19 templates and every error raised for malformed sources (position inside source, str(err) succeeds).",
        "contract-based deductive verification (loop invariant with a prefix-sum ghost function; lexer loop body over an abstract match record) + structural obligations + bounded contract check",
        "DESIGN.md section 4 C20",
        "",
    ),
    "C10": (
        "proof",
        "The body of the template lexer's loop (the real AST of _tokenize_template, executed in place as an eagerly collected generator) is verified branch by branch against an abstract match record (kind, group texts, offsets; optional-hyphen groups are '' or '-'): "
        "for output, tag, raw, doc and shorthand-comment matches the emitted tokens carry the group texts verbatim at the group offsets and the strip flag for the following text equals the hyphen group that immediately precedes the closing delimiter of that rule's pattern "
        "(that group is computed from the real pattern strings on every run); for content, the emitted text is the match with exactly the requested left/right stripping, nothing is emitted when that is empty, and LiquidSyntaxError only for text starting with a default delimiter. "
        "Comment/doc/inline-comment nodes write nothing and ContentNode writes exactly its text (structural). Which text the regular expressions match is not modelled: a bounded reference-renderer check over all hyphen combinations stands in.",
        "contract-based deductive verification of the lexer loop body over an abstract regex-match record (z3 strings) + bounded reference-tokenizer contract check",
        "DESIGN.md section 4 C10",
        "re semantics trusted (DESIGN 3).",
    ),
    "C22": (
        "proof",
        "Over an explicit pathlib model (a path has a name, a suffix, is absolute or not, may have a '..' part; base.joinpath(q) stays inside base iff q is relative and '..'-free; exists/is_file/resolve/read may raise OSError; with_suffix raises ValueError on an empty name), "
        "FileSystemLoader.resolve_path (with and without symlink rejection), PackageLoader._resolve_path and PackageLoader.get_source are verified for every template name: a returned/read path is join(base, q) with q relative and '..'-free, "
        "symlink rejection resolves before accepting, and nothing but TemplateNotFoundError escapes. A bounded sandbox check (decoy files and symlinks outside the search path, 6 loader configurations, sync/async) stands in for the real file system.",
        "contract-based deductive verification over an assumed pathlib model (z3, uninterpreted path attributes) + bounded contract check",
        "DESIGN.md section 4 C22",
        "The file system itself is opaque; two search paths per loader (the loop is uniform).",
    ),
    "C23": (
        "other",
        "Contracts on the real CachingLoaderMixin: cache_key injectivity on (namespace, name) as a two-run obligation over all strings (z3 strings); _check_cache against the cache invariant with the LRU map replaced by its (C24-verified) contract: "
        "a miss loads exactly once and stores under the key, a hit returns the cached template unless it is stale under auto-reload (then reloads once), the freshness check happens iff auto_reload, and the returned template carries the globals of THIS request. "
        "That load/load_async check the cache under cache_key(...) and load the same request, and that built-in uptodate callables work from both sync and async requests, are structural wiring obligations (the async twins are C01's). "
        "A bounded check replays all request sequences of length 2 (thorough 3) over 16 request kinds against a non-caching loader.",
        "contract-based deductive verification (two-run injectivity over strings; cache-invariant contract with callee contracts) + structural wiring + bounded contract check",
        "DESIGN.md section 4 C23",
        "One known finding (cache_key not injective around '/') keeps the level at 'other'.",
    ),
    "C26": (
        "other",
        "The plural count kernel _count is verified for all values (integers incl. 0 and 1 are their own count; None/booleans/non-numeric text mean no count). "
        "Filters: the t filter's plural/context wiring and message escaping, format_message on constant texts with arbitrary values (real re semantics on constants), keyword arguments shadow the context. "
        "Tag: validate_message_block builds exactly literal text with % doubled and one %(name)s per variable with no parenthesis in a name (7 node shapes, z3 strings); _format_message formats ANY wellformed text exactly once and never lacks a variable (abstract printf model; mapping __getitem__ executed for an arbitrary key); gettext picks the plural text exactly when there is a plural block and count != 1; resolve_count is total; both render twins wire count -> resolve_count -> gettext -> _format_message -> output. "
        "That the filters substitute only %(name)s placeholders and that the tag doubles % in literal text are also structural obligations. Regular-expression and printf semantics on arbitrary texts are decided by a bounded exhaustive contract check (all filter messages of <= 2, thorough 3, pieces over a 17-piece alphabet x 5 filters; all tag messages of <= 2, thorough 3, adjacent pieces over 13 pieces, sync and async; plural forms x counts) against references written from the statement.",
        "contract-based deductive verification (count kernel, tag text lemma, abstract printf model, render wiring; z3 strings) + structural obligations + bounded exhaustive contract check (labelled bounded)",
        "DESIGN.md section 4 C26",
        "",
    ),
    "C08": (
        "proof",
        "Two-run (relational) contracts on every limit-reading kernel of the render context (raise_for_loop_limit, assign, copy, get_buffer, _get_buffer, extend, LimitedStringIO.write): "
        "a run under any limit value that returns agrees with the unlimited run on its result and on the whole reachable heap modulo the limit bookkeeping fields, and a limit only ever raises its own ResourceLimitError; "
        "monotonicity (success under L1 implies success under L2 > L1) per kernel. That limits cannot steer rendering elsewhere is a structural obligation over every read of a limit attribute (it only guards a raise, sizes a buffer or short-circuits the measurement). "
        "A bounded sweep of all five limits over 9 templates stands in for the tag layer.",
        "relational (two-run) contract verification on real source (z3) + structural guard-only obligations + bounded contract check",
        "DESIGN.md section 4 C08",
        "",
    ),
    "C03": (
        "other",
        "Routing contracts on the real Environment.error and RenderContext.error per mode (STRICT raises and warns nothing; WARN emits exactly one warning and returns; LAX returns silently); "
        "Tag.get_node for an arbitrary parse() that returns or raises a LiquidError (LAX/WARN never raise and return the node or an IllegalNode, warning exactly when parse failed); "
        "BoundTemplate.render_with_context for an arbitrary node sequence whose nodes return or raise any handled exception kind, in all (mode, partial, block_scope) combinations: escape set empty in LAX/WARN except interrupts re-raised to an enclosing partial. "
        "Non-interference is a structural obligation over every read of the tolerance mode (it only guards a raise) and every warnings.warn call site. "
        "lookup_warning is proved total on every Liquid error class (the callee contract Environment.error relies on); Parser.parse_block's nesting guard aborts in every mode; no handler swallows a LiquidSyntaxError (one listed finding). "
        "A bounded check runs all 1-2 piece (thorough: 3) sequences of 40 well-formed/malformed pieces in the three modes.",
        "contract-based deductive verification (escape-set contracts with callee summaries, loop invariant) + structural guard-only obligations + bounded contract check",
        "DESIGN.md section 4 C03",
        "One known finding (a `when` alternative dropped only in strict mode) keeps the level at 'other'.",
    ),
    "C01": (
        "proof",
        "One relational obligation per sync/async pair found mechanically in liquid/** (79 pairs incl. nested traversal functions): the async body after await-erasure IS the sync body (57 pairs), "
        "or is congruent to it modulo a fixed list of justified rewrite rules (delegation to the sync method, generator vs list consumed at once, run_in_executor(None,f,*a)==f(*a), keyword==positional argument, "
        "single-use temporaries, is_undefined==isinstance, pruning of tests that are constant under the stated preconditions, order of mutually exclusive if/elif arms, and the lemmas L-strlit and A-elsif). "
        "Each rule's structural precondition (no built-in defines filter_async/__getitem_async__, macros namespace holds Macro objects, shapes of is_undefined / StringLiteral.evaluate / ConditionalBlockNode / Node.render, children() results only iterated) is itself an obligation. "
        "Callees are paired by name, so the induction hypothesis is the callee's own obligation (partial correctness). A bounded relational check renders/loads/analyses a template family both ways.",
        "relational contracts discharged by await-erasure congruence modulo justified rewrite rules (pyvc-flow) + bounded relational contract check",
        "DESIGN.md section 4 C01",
        "Single-task execution; JSON-like data; built-in loaders whose sync uptodate callables return bool.",
    ),
    "C02": (
        "other",
        "raises-set contracts, for all argument values of the tagged union (JSON-like data incl. inf/nan floats, huge ints, arbitrary strings), on the conversion helpers (to_int, int_arg, num_arg, decimal_arg), "
        "on 47 registered filters as the composition decorator-wrapper(inner) built by executing the real decorators (string, math, misc, extra), and on RangeLiteral._make_range, LoopExpression._to_int, TablerowNode._int_or_zero and to_liquid_string: "
        "no exception outside the LiquidError hierarchy escapes; builtins raise per the stated CPython contracts (int(inf) OverflowError, ceil(nan) ValueError, Decimal text InvalidOperation, bytes.decode UnicodeDecodeError ...). "
        "Node layer (escape lemma): render_to_output and render_to_output_async of 25 node classes executed symbolically with sub-expressions, child blocks and template loading as arbitrary callees (any value or any LiquidError) and the real RenderContext helpers inlined: only LiquidError/LiquidInterrupt leave the method; RenderContext.get/get_async/get_item(_async), lookup_warning for every error class, the translate tag's argument helpers. "
        "CPython's int->str digit limit is modelled for every C02 contract (ValueError for |n| >= a symbolic INT_STR_LIMIT >= 2**64), which found and led to the repair of five escapes of ValueError. "
        "Array filters have raises-set contracts on their kernels; date, the parser layer, extends/block/call nodes and the babel filters are outside the executor's reach and are covered by a bounded fuzz (every registered filter x 29 hostile values x 0..2 arguments, 21 tag templates x pool^2 x 3 modes, malformed sources).",
        "contract-based deductive verification (raises-set contracts over a tagged union, z3/cvc5) + bounded contract check",
        "DESIGN.md section 4 C02",
        "One known finding (babel-backed filters) keeps the level at 'other'.",
    ),
    "C16": (
        "proof",
        "Class-refinement contracts: for every method the engine calls on undefined values and each strict class (resolved through the MRO, with the real __getattribute__ executed), S.m either raises UndefinedError or returns what Undefined.m returns; "
        "Undefined's own methods never raise. Two-run consumer contracts on is_truthy, _eq (both operand positions), _lt, _contains, default and size show that a strict run that returns gives the default run's result. "
        "RenderContext uses env.undefined only as a constructor (structural). A bounded check renders 30 uses x 5 missing paths under all four undefined types.",
        "contract-based deductive verification (refinement / two-run relational contracts over the real class hierarchy) + bounded contract check",
        "DESIGN.md section 4 C16",
        "FalsyStrictUndefined.__eq__ deliberately differs; shown unobservable at the verified consumers.",
    ),
    "C12": (
        "proof",
        "The value-level kernels is_truthy, _eq, _lt, _contains, Nil/Empty/Blank.__eq__ and the evaluate methods of the comparison and and/or expression classes are verified, for all operand values of the tagged union "
        "(none/bool/int/float/str/reference), against spec functions written from the statement (only false/nil/undefined falsy; true != 1; ordering only str x str and number x number; booleans never order; "
        "LiquidTypeError iff incomparable; contains on falsy operands false, on strings uses str(right)). Grouping is a table obligation on PRECEDENCES and the Pratt loop's stop test, plus a bounded enumeration of all and/or chains; "
        "a bounded operator-table check (22x22 operand pairs x 8 operators) exercises the real tags.",
        "contract-based deductive verification (spec functions over a tagged union, z3 datatypes/strings) + table obligations + bounded contract check",
        "DESIGN.md section 4 C12",
        "Float comparisons are abstract (uninterpreted); drops with __liquid__ are excluded by precondition.",
    ),
    "C21": (
        "other",
        "Totality is carried by a structural precondition obligation (every list.pop() in TagAnalysis is guarded by a non-emptiness test of the same list) and 'no false alarms' by a derived-table obligation: "
        "the inner tags that the real Tag.parse methods accept inside a block (constants read from the parser sources on every run) must be admitted by DEFAULT_INNER_TAG_MAP. "
        "The main loop of _audit_tags is not under a symbolic contract; an exhaustive bounded contract check (all tag sequences up to length 4, thorough 5, over 18 pieces: >100k sources) stands in and is labelled bounded.",
        "structural contract obligations (guarded partial operations; constant table vs parser-derived table) + bounded exhaustive contract check",
        "DESIGN.md section 4 C21",
        "One known finding (orphan break/continue reported as unexpected although the source parses) keeps the level at 'other'.",
    ),
    "C27": (
        "proof",
        "CallNode.macro_args is verified against the binding specification (positional in order, then keyword by name overriding, then parameter default; surplus positional arguments in order; surplus keyword arguments by name, last wins) "
        "for every arity 0..3 parameters x 0..4 positional x 0..3 keyword arguments, with arbitrary (symbolic) keyword names and values, i.e. matching, non-matching and duplicate names are all covered per arity. "
        "A bounded contract check renders macros/calls and nested with blocks through the real tags.",
        "contract-based deductive verification (per-arity contracts over map views, z3 strings/arrays) + bounded contract check",
        "DESIGN.md section 4 C27",
        "",
    ),
    "C14": (
        "proof",
        "Contracts on the real scope machinery: ReadOnlyChainMap.__getitem__ returns the first map's binding (KeyError iff unbound everywhere; chain lengths 1..5 with arbitrary maps), push/pop; "
        "RenderContext.__init__ builds the chain [locals, globals, builtin, counters]; extend() makes its namespace innermost inside the block and restores the scope on normal, raising and depth-error exits; "
        "assign() writes exactly locals[key] whatever block namespaces are open (frame over locals/globals/counters/block namespaces); BoundTemplate.make_globals orders render args > front matter > template globals; "
        "Environment.make_globals lets template globals override environment globals in a new dict; increment/decrement touch only the counters namespace; BuiltIn knows exactly now/today. "
        "The isolated copy made for a rendered partial has exactly [its arguments, the ROOT context's globals] as its chain from calling contexts of depth 0..2 (root, partial, block, partial-in-block, partial-in-partial); the include and render tags evaluate their own expressions (bound variable, arguments) in the caller's context (both twins). "
        "A bounded contract check over all 128 binder subsets and 28 path forms stands in for the rest of the tag layer.",
        "contract-based deductive verification (frame conditions over map views, z3 arrays/lambdas) + bounded contract check",
        "DESIGN.md section 4 C14",
        "",
    ),
    "C06": (
        "proof",
        "The iteration product M(ctx)=prod(loop.length)*carry is carried by contracts on the real RenderContext.raise_for_loop_limit (returns only if M*n<=limit, raises iff over), "
        "loop()/iterations() (inside the block M'=M*length and within the limit; restored on every exit path, including when extend() raises) and copy() (partial inherits M iff carry_loop_iterations). "
        "The coupling 'every repeating construct pushes its length' is a call-site obligation over all render_to_output* methods (found mechanically: a loop that renders a loop-invariant block), discharged structurally; "
        "a bounded contract check over all depth-2 (thorough: depth-3) nests of for/tablerow/render-for/include-for/for+render/for+include/macro-in-for stands in for the interpretive layer.",
        "contract-based deductive verification (ghost iteration product; z3 nonlinear) + structural call-site obligations + bounded contract check",
        "DESIGN.md section 4 C06",
        "",
    ),
    "C07": (
        "proof",
        "LimitedStringIO.write is verified against the abstract view (text,size,limit): appends exactly s, size == UTF-8 bytes of the contents, contents never exceed the limit, raises OutputStreamLimitError iff the write would exceed and then writes nothing; "
        "get_buffer/_get_buffer give nested buffers the budget limit - bytes already counted; assign keeps the measured local-namespace size (including the carried size, shown additive by a two-run obligation) within the limit; copy carries the caller's measured size.",
        "contract-based deductive verification (ast->SMT VCs on real source, z3/cvc5)",
        "DESIGN.md section 4 C07",
        "utf8len additivity and sys.getsizeof>=0 are assumed (listed in evidence).",
    ),
    "C24": (
        "proof",
        "Every public operation of LRUCache and ThreadSafeLRUCache (resolved through the MRO, so inherited methods are included) is verified against an abstract recency map "
        "(present/value/rank arrays, DESIGN 3 OrderedDict model): postconditions over the whole view (exactly the LRU key evicted on overflow, all other keys/values/order kept, "
        "listing most-to-least recent, size <= capacity, well-formedness preserved). For the thread-safe variant the lock-discipline obligations (every dict access under the lock, "
        "no live view returned, lock released) are discharged for every public method; linearizability then follows by a stated pen-and-paper argument. Schedules are not explored.",
        "contract-based deductive verification (abstract-view contracts + lock-ownership ghost state, z3 with quantified frame conditions)",
        "DESIGN.md section 4 C24",
        "The concurrent part of the quantifier (schedules) is outside this technique and is covered only by the lock-discipline proof plus assumed mutual exclusion of threading.Lock.",
    ),
    "C13": (
        "proof",
        "Contracts on the real LoopExpression._slice (visited items == seq[from:to] per the reference slice semantics, reported length, continue index, no exception), "
        "ForLoop.__next__/__getitem__ (all forloop helpers as functions of the visit count) and TableRow.__init__/__next__ (row/column structure via the representation invariant) "
        "are discharged for all lengths, limits, offsets and column counts >= 1.",
        "contract-based deductive verification (ast->SMT VCs on real source, z3/cvc5) + bounded contract check",
        "DESIGN.md section 4 C13",
        "",
    ),
    "C25": (
        "other",
        "Contracts with postconditions taken from the property statement, discharged for all argument values on the real kernels by symbolic execution of their current source: truncate_chars (unchanged when short, else ends in the ellipsis and bounded), "
        "plus/minus/times/divided_by/modulo/abs/at_least/at_most/ceil/floor/round on arbitrary (unbounded) integers against exact integer arithmetic incl. floor division and the zero-divisor error. "
        "Every other clause (size, case/whitespace, split/join, array filters, slice/first/last, truncatewords, decimal arithmetic, default) is decided by a bounded exhaustive contract check against references written from the statement over typed value pools, labelled bounded.",
        "contract-based deductive verification (ast->SMT VCs on real source, z3/cvc5) + bounded contract check",
        "DESIGN.md section 4 C25",
        "Known finding: split/join round trip for the whitespace separator and for a value equal to the separator (Ruby-compatible by design).",
    ),
}

NOT_APPLICABLE_REASON = "contracts for this property are not built yet in this revision (see DESIGN.md section 9); no claim is made"


# contracts added in the second and third build sessions (DESIGN 9.7-9.9), per property
LATER = {
    "C03": "LiquidError._error_context (the message WARN mode formats) is total for every position inside the source (C20's contract, instantiated here); Parser.parse_block never lowers the depth counter when it refuses a block; the bounded sweep also lays every piece out at the end of a CRLF source and reports non-Liquid exceptions in lax/warn mode. No parse function calls int() on source text (to_int only).",
    "C07": "a refused assignment leaves the namespace as it was; LimitedStringIO keeps size <= limit as a class invariant (only `write` counts or writes to the base stream; nothing outside the class sets a buffer's size). write() returns the number of characters written for every string. Nothing outside liquid/context.py stores into a context's locals (the limit lives in assign).",
    "C09": "every token-stream loop leaves from a state at EOF in one step; parse_block's guard aborts in every mode, never lowers the depth counter and restores it when a block completes; the bounded check times adversarial unterminated markup followed by 2.5-8 KB of whitespace (the lexer's patterns used to backtrack polynomially: repaired).",
    "C10": "every opening and every closing delimiter placeholder of every lexer rule may carry a hyphen; the liquid tag's line tokenizer never leaves its loop on a comment or skip line; str.strip(chars) is modelled as a different function from str.strip(). The body group of every verbatim block may be empty; empty raw/comment/doc bodies under all hyphen combinations in the bounded sweep.",
    "C11": "the liquid tag's line rule accepts `#` and a whole word as a tag name with and without configured comment delimiters, the word alternative before the marker (a genuine defect with custom comment delimiters was repaired). The text rule's whitespace-control group follows the alternation of exactly the configured opening delimiters, with and without comment delimiters.",
    "C15": "BlockNode renders every child once, in order, through Node.render / render_async (which check disabled tags), both twins, blank-suppressed or not; structurally, only Node.render calls render_to_output; a block-scoped copy keeps the disabled tags; isolated copies from calling contexts of depth 0..2 incl. partial-in-partial.",
    "C16": "is_undefined per undefined class (strict classes raise through the ABC instance check's read of __class__, default and falsy-strict answer True); get/get_async with the int->str digit limit modelled; array filters with a value argument (where, reject, find, find_index, has) give the default type's result whenever the strict run returns. repr of an undefined depends on its name only (per class); get_implicit_environment is keyed on `undefined`.",
    "C17": "evaluating any expression class never writes the parsed expression (VC per class and presence configuration); interpreter-wide settings (decimal context, locale, warning filters, recursion limit, cwd, environment variables) are never changed; no module-level instance of a stateful class is shared by functions; an Environment is written by its constructor and registration API only. No non-caching loader method stores to the loader; RenderContext.copy/extend/loop/iterations never mutate their arguments in place; alias-following for mutator calls.",
    "C18": "copy(block_scope=True) chains the block's namespace to the caller's live scope; _find_inheritance_nodes returns every block and extends node of a three-level tree with arbitrary blank flags in document order; both ExtendsNode twins render the base of this chain and leave no block stacks behind; BlockDrop super. Isolated copies share no per-tag namespace with their caller; the cycle guard tests, records and loads the same name.",
    "C19": "children() covers evaluate() for every expression class (VC); _analyze_variables; _VariableMap.add keeps a reference unless the same segments at the same template and offset are recorded (real constructor, dataclass equality); the visit key of a rendered partial is computed from every name put in scope (a genuine defect was repaired). No return between pushing and popping a partial's scope; children()/children_async() load partials with the render method's keywords.",
    "C20": "the liquid tag's line tokenizer (token offsets compose: linear post + lemma); Path.parse gives every path, nested or not, the token of its first segment; the analysis visit never reads the root template and names every span by the visited template. Tag-analysis spans of unbalanced sources start at the reported name (bounded).",
    "C22": "constructor forwarding; the only path handed to _read is what resolve_path returned (sync and async); the bounded sweep also runs the symlink-rejecting loaders asynchronously.",
    "C05": "no class of the library defines __html__ without escaping; get_implicit_environment is keyed on autoescape and Template() sets nothing on the shared environment; the bounded plain-output sweep covers tags that key state on their arguments (cycle groups, ifchanged, case/when).",
    "C06": "loop()/iterations() with a RAISING block restore the loop stack and the iteration measure.",
    "C13": "a node's blank flag consults every block it can render; loop() with a raising block; the _slice contracts assume ints under every stop-index key.",
    "C14": "a refused assignment leaves locals[key] bound as before; xs.first / xs.last of arrays of 0 and 2 items; both get_template twins hand the loader the merged globals.",
    "C08": "each resource-limit error raised while a path is resolved propagates through get/get_async; the render tag under a loop limit raises only its own limit errors.",
    "C23": "every answer of load/load_async comes from the cache check; the environment hands the loader the merged globals; cache_key prefers the request argument over the context variable.",
    "C25": "decimal arithmetic shape; array filters (reverse, compact, uniq, concat, first, last, slice, size, default ...) on lists with a concrete spine of 0..3 arbitrary items and with a hash / empty hash / string / number as the left value; sort and sort_natural on records with constant keys (records without the key last); slice against the window-of-positions spec (a genuine defect with negative lengths was repaired). default with allow_false: true (scalars, empty array and hash).",
    "C12": "BooleanExpression.evaluate is true unless its operand is false, nil or undefined; every if/unless/elsif/ternary condition is built by BooleanExpression.parse; CaseNode renders an else iff every earlier when returned -1 (a match that writes nothing is a match), for every layout of up to 3 blocks; MultiExpressionBlockNode returns -1 iff no when value matched.",
    "C21": "the bounded verbatim-block sweep also gives the comment tag text after its name.",
    "C27": "RenderContext.copy gives a macro body globals of exactly [bound arguments, global data], in that order (C15's isolation contract instantiated).",
}


def main():
    props = [json.loads(l) for l in open(os.path.join(HERE, "properties.jsonl"))]
    checks = []
    na = []
    for p in props:
        pid = p["id"]
        if pid in CLAIMS:
            cat, text, tech, ref, note = CLAIMS[pid]
            if pid in LATER:
                text = text + " Added later (DESIGN 9.7-9.12): " + LATER[pid]
                ref = ref + "; 9.7-9.12"
            checks.append(
                {
                    "property_id": pid,
                    "quick_cmd": f"./check {pid} --tier quick",
                    "thorough_cmd": f"./check {pid} --tier thorough",
                    "evidence_file": f"evidence/{pid}.json",
                    "replay_cmd_template": f"./check {pid} --replay {{path}}",
                    "engine": "pyvc",
                    "level_claimed": {"category": cat, "text": text, "design_ref": ref},
                    "level_note": (note + " " if note else "") + BASE_NOTE,
                    "technique": tech,
                }
            )
        else:
            na.append({"property_id": pid, "reason": NA.get(pid, NOT_APPLICABLE_REASON)})
    man = {
        "version": 1,
        "setup_cmd": "python3-vt -c 'import z3' && /venv/bin/python -c 'import sys; sys.path.insert(0, \"/repo\"); import liquid'",
        "hooks": {
            "guard": "LIQUID_VERIF",
            "enable": "none needed: contracts are sidecars under /verif/contracts, replay uses the public API; LIQUID_VERIF=1 is exported by the checks but no code in /repo reads it",
            "baseline_off_cmd": "cd /repo && /venv/bin/python -m pytest -ra -q -p no:cacheprovider --timeout=900 --continue-on-collection-errors",
            "source_commits": [],
            "add_only": True,
        },
        "engines": [
            {
                "name": "pyvc",
                "path": "pyvc/",
                "serves_properties": sorted(CLAIMS),
                "kind_free_text": "home-built deductive verifier for a Python subset: re-reads function ASTs from /repo on every run, symbolic execution to per-path verification conditions against sidecar contracts (pre/post, loop invariants+variants, raises sets, frame/structural obligations), discharged by z3 with cvc5 as second solver; refuted obligations are replayed natively under /venv/bin/python",
            }
        ],
        "checks": checks,
        "not_applicable": na,
        "notes": "Exit codes: 0 held, 1 violation, 2 undecided (solver unknown), 3 checker error. known_findings.json lists genuine defects (finding) and repaired ones (fixed).",
    }
    with open(os.path.join(HERE, "MANIFEST.json"), "w") as fd:
        json.dump(man, fd, indent=1)
    print("claimed:", sorted(CLAIMS), "n/a:", len(na))


NA = {}

if __name__ == "__main__":
    main()
