"""per-obligation timing/back ends of the contracts matching a substring: python3-vt tools/obl.py C20 substring"""
import importlib, os, sys, time
sys.path.insert(0, os.path.dirname(os.path.dirname(os.path.abspath(__file__))))
from pyvc.contract import REGISTRY, verify_contract
prop, pat = sys.argv[1], (sys.argv[2] if len(sys.argv) > 2 else "")
importlib.import_module(f"contracts.{prop}")
for cd in REGISTRY[prop]:
    if pat in cd.ident:
        t0 = time.time()
        r = verify_contract(cd, os.environ.get("VERIF_TIER", "quick"))
        print(f"== {cd.ident}  wall={time.time()-t0:.1f}s paths={r.get('paths')} err={r.get('error')}")
        for o in r["obligations"]:
            print(f"   {o['status']:10s} {o['time_s']:7.2f}s {o['backends']} canary={o.get('canary')} paths={o['paths']} {o['label'][:90]}")
        if r.get("crosscheck"): print("   xcheck:", {k: v for k, v in r["crosscheck"].items() if k != "mismatches"})
