"""Evaluate CONTROL changes (behaviour-preserving refactorings): python3 tools/controls.py <root>
For each <root>/<group>/<k>/patch.diff: apply to /repo, run the test suite and the checks of
the group's properties (VERIF_NO_EVIDENCE=1), undo.  A VIOLATION line on a control is a false
alarm of the machinery; a CHECKER-ERROR (exit 3) is a brittle contract."""
import os
import subprocess
import sys

VERIF = os.path.dirname(os.path.dirname(os.path.abspath(__file__)))
REPO = os.environ.get("VERIF_REPO", "/repo")  # the tree the change is applied to (default: /repo itself)
GROUPS = {"G1": ["C06", "C07", "C08", "C13"], "G2": ["C10", "C11", "C20", "C21"], "G3": ["C14", "C15", "C16", "C27"], "G4": ["C22", "C23", "C24", "C17"], "G5": ["C02", "C03", "C05", "C25"], "G6": ["C04", "C12", "C18", "C19", "C26"]}
EXTRA = ["C01", "C09", "C17", "C19"]  # cross-cutting checks run for every control


def props_for_files(files):
    """properties whose anchor files include a touched file (properties.jsonl)"""
    import json
    out = []
    with open(os.path.join(VERIF, "properties.jsonl")) as fd:
        for line in fd:
            p = json.loads(line)
            if any(f in p.get("anchors", {}).get("files", []) for f in files):
                out.append(p["id"])
    return out


def sh(cmd, cwd=REPO, env=None, timeout=1800):
    e = dict(os.environ)
    e.update(env or {})
    p = subprocess.run(cmd, shell=True, cwd=cwd, capture_output=True, text=True, env=e, timeout=timeout)
    return p.returncode, p.stdout + p.stderr


def main():
    root = sys.argv[1]
    only = sys.argv[2:]
    for g in sorted(os.listdir(root)):
        if g not in GROUPS or (only and g not in only):
            continue
        for k in sorted(os.listdir(os.path.join(root, g))):
            d = os.path.join(root, g, k)
            if not os.path.exists(os.path.join(d, "patch.diff")):
                continue
            if sh("git diff --quiet")[0] != 0:
                print("repo dirty; abort")
                return 3
            if sh(f"git apply --check {d}/patch.diff")[0] != 0:
                print(f"{g}/{k} | patch-does-not-apply")
                continue
            sh(f"git apply {d}/patch.diff")
            try:
                sh(f"rm -rf {REPO}/.hypothesis")
                _rc, tout = sh("/venv/bin/python -m pytest -q -p no:cacheprovider --continue-on-collection-errors 2>&1 | tail -1")
                res = []
                touched = sorted({l[6:].strip() for l in open(os.path.join(d, "patch.diff")) if l.startswith("+++ b/")})
                for p in sorted(set(GROUPS[g] + EXTRA + props_for_files(touched))):
                    rc, out = sh(f"./check {p}", cwd=VERIF, env={"VERIF_NO_EVIDENCE": "1", "VERIF_REPO": REPO})
                    bad = [l[:230] for l in out.splitlines() if l.startswith(("VIOLATION", "CHECKER-ERROR"))]
                    res.append((p, rc, bad))
            finally:
                sh("git checkout -- .")
            files = sorted({l[6:] for l in open(os.path.join(d, "patch.diff")) if l.startswith("+++ b/")})
            flag = "OK" if all(rc == 0 for _p, rc, _b in res) else "ALARM" if any(any(x.startswith("VIOLATION") for x in b) for _p, _rc, b in res) else "BRITTLE"
            print(f"{g}/{k} | {flag} | tests: {tout.strip()[:40]} | {' '.join(f.strip() for f in files)}")
            for p, rc, bad in res:
                if rc != 0:
                    print(f"    {p} exit={rc}")
                    for b in bad[:4]:
                        print("       ", b)
            sys.stdout.flush()


if __name__ == "__main__":
    sys.exit(main())
