"""obligations whose solver time exceeds a threshold (flake risk): python3-vt tools/slow.py [seconds] [Cnn ...]"""
import importlib, os, sys
sys.path.insert(0, os.path.dirname(os.path.dirname(os.path.abspath(__file__))))
os.environ.setdefault("VERIF_NO_XCHECK", "1")
import multiprocessing as mp
from pyvc.contract import REGISTRY, verify_contract

def run(a):
    prop, i = a
    r = verify_contract(REGISTRY[prop][i], "quick")
    return [(o["id"], o.get("max_query_s", o["time_s"]), o["backends"], o["status"]) for o in r["obligations"]], r["contract"], r.get("wall_s")

if __name__ == "__main__":
    thr = float(sys.argv[1]) if len(sys.argv) > 1 else 1.5
    props = sys.argv[2:] or ["C%02d" % i for i in range(1, 28)]
    jobs = []
    for p in props:
        importlib.import_module(f"contracts.{p}")
        jobs += [(p, i) for i in range(len(REGISTRY.get(p, [])))]
    with mp.get_context("fork").Pool(8) as pool:
        for obs, ident, wall in pool.imap_unordered(run, jobs, chunksize=1):
            for oid, t, be, stt in obs:
                if t >= thr or "cvc5" in " ".join(be):
                    print(f"{t:6.2f}s {be} {stt} {oid[:150]}")
            if wall and wall > 10:
                print(f"   contract wall {wall:.1f}s: {ident[:120]}")
