#!/bin/sh
# tools/try_seed.sh <dir-with-patch.diff> <Cnn> [--only X]: apply to the private worktree $WT (default /tmp/wt_mine, reset to main), run the check, undo
WT=${WT:-/tmp/wt_mine}
d=$1; p=$2; shift 2
cd "$WT" && git checkout -q --detach main && git checkout -q -- . && git apply "$d/patch.diff" || { echo "patch does not apply"; exit 3; }
cd /verif && VERIF_REPO=$WT VERIF_NO_EVIDENCE=1 ./check "$p" "$@" 2>&1 | grep -v "conda\|KNOWN-FINDING" | cut -c1-330 | head -${LINES_MAX:-6}
cd "$WT" && git checkout -q -- .
