"""Write seeded/INDEX.md: one row per kept seeded change -- what it touches, what it needs to
manifest (first line of notes.md) and which obligation of which check reports it."""
import json
import os
import re

V = os.path.dirname(os.path.dirname(os.path.abspath(__file__)))
rows = []
for name in sorted(os.listdir(os.path.join(V, "seeded"))):
    d = os.path.join(V, "seeded", name)
    if not os.path.isdir(d) or not os.path.exists(os.path.join(d, "meta.json")):
        continue
    meta = json.load(open(os.path.join(d, "meta.json")))
    patch = open(os.path.join(d, "patch.diff")).read()
    files = sorted(set(re.findall(r"^\+\+\+ b/(.*)$", patch, re.M)))
    first = (meta["check"].get("first_violation") or "")
    ob = re.search(r"obligation=(\S+)", first)
    ob = ob.group(1) if ob else ""
    kind = "bounded check" if "/bounded:" in ob else ("structural (pyvc-flow)" if ob.count("/") >= 2 and ":" not in ob.split("/")[1] else "contract VC")
    stale = os.path.exists(os.path.join(d, "STALE.txt"))
    rows.append((name, ", ".join(f.replace("liquid/", "") for f in files), "yes" if meta["check"]["detected"] else "NO", kind if meta["check"]["detected"] else "-", ob[:110], "stale on the current tree" if stale else ""))
with open(os.path.join(V, "seeded", "INDEX.md"), "w") as fd:
    fd.write("# Seeded changes (each: patch.diff, demo.py, notes.md, meta.json)\n\nEvery change was written by a fresh sub-agent that saw only the property text and a scratch worktree, compiles, passes the 1385 tests, and was confirmed here: its demo fails with the patch and passes without. `tools/seeds.py --recheck` re-validates all of them against the current tree.\n\n")
    fd.write("| id | files | detected | by | first obligation reported | note |\n|---|---|---|---|---|---|\n")
    for r in rows:
        fd.write("| " + " | ".join(r) + " |\n")
det = sum(1 for r in rows if r[2] == "yes")
print(len(rows), "seeded changes,", det, "detected")
