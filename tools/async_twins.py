"""List contract targets whose `_async` twin exists in /repo but carries no contract of the
same property (C01's congruence covers sync/async drift for C01 only)."""
import glob
import importlib
import os
import sys

sys.path.insert(0, os.path.dirname(os.path.dirname(os.path.abspath(__file__))))
from pyvc import load  # noqa: E402
from pyvc.contract import REGISTRY  # noqa: E402

for f in sorted(glob.glob(os.path.join(os.path.dirname(__file__), "..", "contracts", "C*.py"))):
    importlib.import_module("contracts." + os.path.basename(f)[:-3])
targets = {}
for prop, cds in REGISTRY.items():
    for cd in cds:
        targets.setdefault(cd.target, set()).add(cd.prop)
for t, props in sorted(targets.items()):
    if t.endswith("_async"):
        continue
    tw = t + "_async"
    try:
        load.find(tw)
    except Exception:  # noqa: BLE001
        continue
    lack = sorted(props - targets.get(tw, set()))
    if lack:
        print(t, lack)
