"""Native side of the CPython cross-check (runs under /venv/bin/python).

stdin: {"func": "module:qual", "calls": [{"args": [...], "kwargs": {...}}], "self_code": str|None}
stdout: {"results": [{"v": value} | {"exc": class name, "mro": [names]}]}
Values cross as JSON: None/bool/int/str/list as themselves, tuples as {"$t": [...]}, floats
as {"$f": repr}, anything else as {"$o": type name}.
"""
import importlib
import json
import sys


def resolve(path):
    mod, _, qual = path.partition(":")
    obj = importlib.import_module(mod)
    for part in qual.split("."):
        obj = getattr(obj, part)
    return obj


def enc(v):
    if v is None or isinstance(v, (bool, int, str)):
        return v
    if isinstance(v, float):
        return {"$f": repr(v)}
    if isinstance(v, list):
        return [enc(x) for x in v]
    if isinstance(v, tuple):
        return {"$t": [enc(x) for x in v]}
    return {"$o": type(v).__name__}


def main():
    req = json.load(sys.stdin)
    f = resolve(req["func"])
    ns = {}
    if req.get("self_code"):
        exec(req["self_code"], ns)
    out = []
    for call in req["calls"]:
        try:
            args = [list(a) if isinstance(a, list) else a for a in call["args"]]
            if req.get("self_code"):
                self = ns["make_self"](call.get("sigma") or {})
                r = f(self, *args, **call.get("kwargs", {}))
                if "observe" in ns:
                    r = ns["observe"](self, r)
            else:
                r = f(*args, **call.get("kwargs", {}))
            out.append({"v": enc(r)})
        except Exception as e:  # noqa: BLE001
            out.append({"exc": type(e).__name__, "mro": [k.__name__ for k in type(e).__mro__]})
    print(json.dumps({"results": out}))


if __name__ == "__main__":
    main()
