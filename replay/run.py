"""Replay a solver counterexample against the real code (runs under /venv/bin/python).

stdin: {"schema": "call"|"code", "model": {...}, "extra": {...}, "obligation": id}
stdout (last line): {"failing": bool|null, "witness": str|null, "call": str, "result": str, "request": <stdin>}

schema "call": extra = {func: "module:qual", args: [model names | {"const": v}], kwargs: {...},
                        oracle: "<python expr over the argument names, r (result) and exc>",
                        witness: "<python expr -> short witness class string>"}
   The oracle is written from the property statement: True means the property HOLDS.
schema "code": extra = {code: "def run(m): ... return {'failing':..,'witness':..,'detail':..}"}
"""
import importlib
import json
import sys
import traceback


def resolve(path):
    mod, _, qual = path.partition(":")
    obj = importlib.import_module(mod)
    for part in qual.split("."):
        obj = getattr(obj, part)
    return obj


def main():
    req = json.load(sys.stdin)
    model = req.get("model") or {}
    extra = req.get("extra") or {}
    out = {"failing": None, "witness": None, "request": req}
    try:
        if req["schema"] == "call":
            f = resolve(extra["func"])
            def val(a):
                if isinstance(a, dict) and "const" in a:
                    return a["const"]
                return model.get(a)
            args = [val(a) for a in extra.get("args", [])]
            kwargs = {k: val(v) for k, v in extra.get("kwargs", {}).items()}
            env = {n: model.get(n) for n in model}
            env.update({"args": args})
            r = exc = None
            try:
                r = f(*args, **kwargs)
            except Exception as e:  # noqa: BLE001
                exc = e
            env.update({"r": r, "exc": exc})
            import liquid
            env["liquid"] = liquid
            holds = bool(eval(extra["oracle"], env))
            out["failing"] = not holds
            out["call"] = f"{extra['func']}(*{args!r}, **{kwargs!r})"
            out["result"] = repr(r) if exc is None else f"raised {type(exc).__name__}: {exc}"
            if extra.get("witness"):
                out["witness"] = str(eval(extra["witness"], env))
        elif req["schema"] == "code":
            ns = {}
            exec(extra["code"], ns)
            res = ns["run"](model)
            out.update(res)
            # accepted spelling: {"violated": bool, "observed": ...}
            if "violated" in res and res.get("failing") is None:
                out["failing"] = bool(res["violated"])
                out.setdefault("result", repr(res.get("observed")))
                if out["failing"] and not out.get("witness"):
                    out["witness"] = "replay:" + repr(res.get("observed"))[:80]
        else:
            out["error"] = f"unknown schema {req['schema']}"
    except Exception:
        out["error"] = traceback.format_exc()[-2000:]
    print(json.dumps(out, default=repr))


if __name__ == "__main__":
    main()
