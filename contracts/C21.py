"""C21 -- tag analysis is total and raises no false alarms."""
import ast

from pyvc import flow, load
from pyvc.run import bounded, not_covered, structural

ANALYZE = "liquid.analyze_tags"


@structural("C21", "totality")
def totality():
    """The only partial operations in TagAnalysis are list.pop() / indexing on lists that may
    be empty; each must be guarded by a test of the same list (or an IndexError handler)."""
    mod = load.get_module(ANALYZE)
    cls = mod.classes["TagAnalysis"]
    obs = []
    n = 0
    for fn in [s for s in cls.body if isinstance(s, ast.FunctionDef)]:
        pm = flow.parents(fn)
        for call in flow.calls(fn):
            if isinstance(call.func, ast.Attribute) and call.func.attr == "pop" and not call.args:
                n += 1
                recv = flow.dotted(call.func.value)
                guarded = False
                for anc in flow.enclosing(pm, call, (ast.If, ast.While, ast.Try, ast.IfExp)):
                    if isinstance(anc, ast.Try):
                        for h in anc.handlers:
                            if h.type is not None and "IndexError" in flow.dotted(h.type) and any(call in ast.walk(b) for b in anc.body):
                                guarded = True
                    else:
                        in_body = any(call in ast.walk(b) for b in (anc.body if isinstance(anc.body, list) else [anc.body]))
                        test = flow.dotted(anc.test)
                        if in_body and (test == recv or test.startswith(f"len({recv})") or test == f"{recv} and" or f"{recv}" == test.split(" and ")[0]):
                            guarded = True
                # early-exit guard:  `if not recv: ...; continue/return/raise` earlier in the same block
                blk = pm.get(pm.get(call)) if isinstance(pm.get(call), (ast.Assign, ast.Expr)) else pm.get(call)
                stmt = pm.get(call)
                while stmt is not None and not isinstance(stmt, ast.stmt):
                    stmt = pm.get(stmt)
                body = None
                par = pm.get(stmt)
                for fld in ("body", "orelse", "finalbody"):
                    if par is not None and stmt in getattr(par, fld, []):
                        body = getattr(par, fld)
                if body:
                    for prev in body[: body.index(stmt)]:
                        if isinstance(prev, ast.If) and flow.dotted(prev.test) in (f"not {recv}", f"len({recv}) == 0") and prev.body and isinstance(prev.body[-1], (ast.Continue, ast.Return, ast.Raise, ast.Break)):
                            guarded = True
                obs.append(flow.ob(f"{fn.name}:pop@{call.lineno - fn.lineno}:requires-non-empty", guarded,
                                   f"{ANALYZE}:TagAnalysis.{fn.name} line {call.lineno}: {recv}.pop() " + ("is guarded by a non-emptiness test" if guarded else "can run on an empty list (first token an end tag) -> IndexError"),
                                   replay_schema="code", replay_extra={"code": REPLAY}))
    obs.append(flow.ob("partial-operations-enumerated", n >= 1, f"{n} pop() sites"))
    return obs


def parser_inner_tags():
    """A(T): tag names that T.parse consumes inside its block, read from the real parse methods"""
    out = {}
    for m, cname, cnode in flow.tag_classes():
        try:
            name = flow.class_const(m, cname, "name")
        except ValueError:
            continue
        try:
            block = flow.class_const(m, cname, "block")
        except ValueError:
            block = True
        if not block or not isinstance(name, str) or not name:
            continue
        try:
            end = flow.class_const(m, cname, "end")
        except ValueError:
            end = "end" + name
        res = load.find_method(m, cname, "parse")
        if res is None:
            continue
        mod = load.get_module(res[0])
        names = set()
        for call in flow.calls(res[2]):
            cn = flow.call_name(call)
            cands = []
            if cn in ("parse_block", "eat_block") and len(call.args) >= 2:
                cands.append(call.args[1])
            if cn in ("parse_block", "eat_block") and flow.kwarg(call, "end") is not None:
                cands.append(flow.kwarg(call, "end"))
            if cn == "is_tag" and call.args:
                cands.append(call.args[0])
            for e in cands:
                try:
                    v = flow.const_eval(mod, e)
                except ValueError:
                    try:
                        if isinstance(e, ast.Attribute) and isinstance(e.value, ast.Name) and e.value.id == "self":
                            v = flow.class_const(m, cname, e.attr)
                        else:
                            continue
                    except ValueError:
                        continue
                if isinstance(v, str):
                    names.add(v)
                else:
                    names.update(x for x in v if isinstance(x, str))
        names -= {end, name, "", "eof"}
        names = {n for n in names if not n.startswith("end")}
        out[name] = (sorted(names), f"{m}:{cname}")
    return out


@structural("C21", "inner-tag-table")
def inner_tag_table():
    """DEFAULT_INNER_TAG_MAP (the code's constant contract) must admit every inner tag that
    the real parsers accept inside a block, else valid templates are reported 'unexpected';
    inner tags of tags that are not registered as tags themselves must be in the map of some
    block, else they are reported 'unknown'."""
    mod = load.get_module(ANALYZE)
    table = flow.const_eval(mod, mod.consts["DEFAULT_INNER_TAG_MAP"])
    A = parser_inner_tags()
    registered = set()
    for m, cname, _ in flow.tag_classes():
        try:
            registered.add(flow.class_const(m, cname, "name"))
        except ValueError:
            pass
    obs = []
    for tag, (inner, where) in sorted(A.items()):
        for it in inner:
            if it in registered and it not in ("else",):
                continue  # a real tag of its own (e.g. `block` inside `block`)
            ok = it in table.get(tag, ())
            obs.append(flow.ob(f"{tag}:admits:{it}", ok, f"{where}.parse accepts '{it}' inside '{tag}'; DEFAULT_INNER_TAG_MAP[{tag!r}] = {list(table.get(tag, ()))}",
                               replay_schema="code", replay_extra={"code": REPLAY}))
    obs.append(flow.ob("parsers-found", len(A) >= 3, f"block tags with parse methods: {sorted(A)}"))
    return obs


from contracts.common import *  # noqa: F403,E402
from pyvc.contract import contract  # noqa: E402
from pyvc.state import *  # noqa: F403,E402
from pyvc.u import *  # noqa: F403,E402
import z3  # noqa: E402


@contract(ANALYZE + ":TagAnalysis._valid_inner_tag", prop="C21")
def valid_inner(c):
    """an inner tag is in place when ANY open block (not just the innermost) admits it:
    `break` inside `if` inside `for` parses, so it must not be reported"""
    names = [c.str(f"open_block_{i}") for i in range(3)]
    stack = c.st.alloc(HList(items=[c.obj(ANALYZE + ":_BlockStackItem", f"item{i}", name=n, token=NONE) for i, n in enumerate(names)]))
    admits = [c.str("admitting_block_0"), c.str("admitting_block_1")]
    self = c.obj(ANALYZE + ":TagAnalysis", "analysis")
    c.call(c.st.alloc(HList(items=list(admits))), stack, self_val=self)
    want = z3.Or(*[a.t == n.t for a in admits for n in names])
    c.ensures("true-iff-some-open-block-at-any-depth-admits-the-tag", lambda r: r.truth() == want)
    c.raises()
    c.assume_note("a stack of three open blocks and two admitting block names stand for any number (the test is a membership over both)")
    c.replay("code", code=REPLAY_NESTED)


@structural("C21", "entry-points")
def entry_points():
    obs = []
    emod = load.get_module("liquid.environment")
    env_cls = emod.classes["Environment"]
    for fname in ("analyze_tags", "analyze_tags_async"):
        fn = load._last_def(env_cls.body, fname)
        calls = [cl for cl in flow.calls(fn) if flow.dotted(cl.func) == "self.analyze_tags_from_string"]
        ok = len(calls) == 1 and flow.dotted(flow.kwarg(calls[0], "inner_tags")) == "inner_tags" and flow.dotted(flow.kwarg(calls[0], "name")) == "template_source.name" and [flow.dotted(a) for a in calls[0].args] == ["template_source.text"]
        obs.append(flow.ob(f"Environment.{fname}:forwards-source-name-and-inner_tags", ok, flow.dotted(calls[0])[:120] if calls else "no call", replay_schema="code", replay_extra={"code": REPLAY_ASYNC}))
    fn = load._last_def(env_cls.body, "analyze_tags_from_string")
    calls = [cl for cl in flow.calls(fn) if flow.dotted(cl.func) == "TagAnalysis"]
    ok = len(calls) == 1 and flow.dotted(flow.kwarg(calls[0], "inner_tags")) == "inner_tags" and flow.dotted(flow.kwarg(calls[0], "env")) == "self" and flow.dotted(flow.kwarg(calls[0], "name")) == "name"
    obs.append(flow.ob("Environment.analyze_tags_from_string:analyses-with-this-environment-and-the-given-inner_tags", ok, flow.dotted(calls[0])[:120] if calls else "", replay_schema="code", replay_extra={"code": REPLAY_ASYNC}))
    # every block tag names its end tag ("end" + name): the analysis recognises end tags and
    # block tags through Tag.block / Tag.end
    for m, cname, cn in flow.tag_classes():
        parse = load._last_def(cn.body, "parse")
        if parse is None:
            continue
        blocks = [cl for cl in flow.calls(parse) if flow.call_name(cl) == "parse_block"]
        if not blocks:
            continue
        try:
            name = flow.class_const(m, cname, "name")
            block = flow.class_const(m, cname, "block")
        except ValueError:
            continue
        try:
            end = flow.class_const(m, cname, "end")
        except ValueError:
            end = None
        if name in ("liquid",):
            continue  # not a block tag: parses its own expression
        obs.append(flow.ob(f"{cname}:block-tag-declares-its-end-tag", block is True and end == "end" + str(name), f"name={name!r} block={block!r} end={end!r}", replay_schema="code", replay_extra={"code": REPLAY_ASYNC}))
    return obs


REPLAY_NESTED = r'''
def run(m):
    from liquid import Environment
    src = "{% for x in y %}{% if x %}{% break %}{% endif %}{% endfor %}"
    a = Environment().analyze_tags_from_string(src)
    return {"violated": bool(a.unexpected_tags or a.unknown_tags or a.unclosed_tags), "observed": [dict(a.unexpected_tags), dict(a.unknown_tags), dict(a.unclosed_tags)]}
'''

REPLAY_ASYNC = r'''
def run(m):
    import asyncio
    from liquid import DictLoader, Environment
    env = Environment(extra=True, loader=DictLoader({"t": "{% translate %}a{% plural %}b{% endtranslate %}{% macro m %}{% endmacro %}{% block b %}{% endblock %}", "u": "{% macro m %}x"}))
    inner = {"if": ["else", "elsif"], "translate": ["plural"]}
    a = env.analyze_tags("t", inner_tags=inner)
    b = asyncio.run(env.analyze_tags_async("t", inner_tags=inner))
    u = env.analyze_tags("u")
    out = [dict(a.unknown_tags), dict(b.unknown_tags), dict(a.unexpected_tags), dict(b.unexpected_tags), sorted(u.unclosed_tags)]
    return {"violated": out != [{}, {}, {}, {}, ["macro"]], "observed": out}
'''


@structural("C21", "analysis-state-is-per-instance")
def per_instance_state():
    """The result for a source depends on that source and environment only: every attribute a
    TagAnalysis method mutates through `self` is (re)bound to a fresh container by __init__, and
    the class body holds no mutable container that instances would share."""
    import ast as _ast
    mod = load.get_module("liquid.analyze_tags")
    cls = mod.classes["TagAnalysis"]
    obs = []
    init = load._last_def(cls.body, "__init__")
    assigned = set()
    for n in _ast.walk(init):
        if isinstance(n, (_ast.Assign, _ast.AnnAssign)):
            for t in (n.targets if isinstance(n, _ast.Assign) else [n.target]):
                if isinstance(t, _ast.Attribute) and isinstance(t.value, _ast.Name) and t.value.id == "self":
                    assigned.add(t.attr)
    MUT = {"append", "extend", "add", "update", "setdefault", "pop", "clear", "insert", "remove", "discard", "__setitem__"}
    mutated = set()
    for fn in [x for x in cls.body if isinstance(x, _ast.FunctionDef)]:
        for n in _ast.walk(fn):
            tgt = None
            if isinstance(n, _ast.Call) and isinstance(n.func, _ast.Attribute) and n.func.attr in MUT:
                tgt = n.func.value
            elif isinstance(n, _ast.Subscript) and isinstance(n.ctx, (_ast.Store, _ast.Del)):
                tgt = n.value
            while isinstance(tgt, (_ast.Subscript, _ast.Attribute)) and not (isinstance(tgt, _ast.Attribute) and isinstance(tgt.value, _ast.Name) and tgt.value.id == "self"):
                tgt = tgt.value
            if isinstance(tgt, _ast.Attribute) and isinstance(tgt.value, _ast.Name) and tgt.value.id == "self":
                mutated.add(tgt.attr)
    for a in sorted(mutated):
        obs.append(flow.ob(f"TagAnalysis.{a}:mutated-state-is-bound-afresh-by-__init__", a in assigned, f"assigned in __init__: {sorted(assigned)}", replay_schema="code", replay_extra={"code": REPLAY}))
    shared = []
    for st in cls.body:
        val = st.value if isinstance(st, (_ast.Assign, _ast.AnnAssign)) else None
        if val is not None and isinstance(val, (_ast.Dict, _ast.List, _ast.Set, _ast.Call, _ast.ListComp, _ast.DictComp, _ast.SetComp)):
            if not (isinstance(val, _ast.Call) and flow.dotted(val.func) in ("frozenset", "tuple", "re.compile", "property")):
                shared.append(_ast.unparse(st)[:80])
    obs.append(flow.ob("TagAnalysis:no-mutable-container-in-the-class-body", not shared, str(shared), replay_schema="code", replay_extra={"code": REPLAY}))
    obs.append(flow.ob("mutated-attributes-found", len(mutated) >= 1, f"{sorted(mutated)}"))
    return obs


not_covered("C21", "custom inner_tags maps supplied by the caller", "the main loop of _audit_tags is not under a symbolic contract (sets/defaultdicts over token lists); its totality is carried by the pop-guard obligation and the bounded exhaustive check")

bounded("C21", "bounded/C21.py")

REPLAY = r'''
def run(m):
    from bounded.C21 import run as brun
    r = brun("quick", 0)
    v = r["violations"]
    return {"failing": bool(v), "witness": v[0]["witness"] if v else "tag-analysis", "call": v[0]["source"] if v else "token sequences", "result": v[0]["got"] if v else "ok"}
'''
