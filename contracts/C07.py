"""C07 -- output and local-namespace limits bound what they measure."""
import ast

import z3

from contracts.common import *  # noqa: F403
from pyvc import flow, load
from pyvc.contract import contract
from pyvc.run import bounded, not_covered, structural
from pyvc.state import *  # noqa: F403
from pyvc.u import *  # noqa: F403

L = z3.Length
_a, _b = z3.String("a!s"), z3.String("b!s")
UTF8_ADD = z3.ForAll([_a, _b], utf8len(z3.Concat(_a, _b)) == utf8len(_a) + utf8len(_b))
UTF8_WHY = "utf8len (len(s.encode('utf-8'))) is additive over concatenation, utf8len('')=0, utf8len(s)>=len(s) (UTF-8 encodes code points independently)"


def _limited_write(prop):
    contract(LSIO + ".write", prop=prop)(limited_write)


def limited_write(c):
    text, s = c.str("text"), c.str("s")
    size, limit = c.int("size"), c.int("limit")
    # ground instances of additivity (quantifier-free keeps counterexamples reachable)
    c.assume_external(utf8len(z3.Concat(text.t, s.t)) == utf8len(text.t) + utf8len(s.t), UTF8_WHY)
    c.assume_external(z3.And(utf8len(z3.StringVal("")) == 0, utf8len(s.t) >= L(s.t), utf8len(text.t) >= L(text.t)), UTF8_WHY)
    c.requires(size.t == utf8len(text.t), "size counts the bytes written so far (no earlier write raised)")
    c.requires(z3.Or(text.t == z3.StringVal(""), utf8len(text.t) <= limit.t), "Inv: nothing written yet, or bytes <= limit")
    self = c.obj(LSIO, "buffer", limit=limit, size=size, __text__=text)
    c.call(s, self_val=self)
    txt = lambda r: r.st.deref(self).fields["__text__"].t  # noqa: E731
    sz = lambda r: r.st.deref(self).fields["size"].t  # noqa: E731
    c.ensures("appends-exactly-s", lambda r: txt(r) == z3.Concat(text.t, s.t))
    c.ensures("size-is-utf8-bytes-of-contents", lambda r: sz(r) == utf8len(txt(r)))
    c.ensures("contents-never-exceed-limit", lambda r: z3.Or(txt(r) == z3.StringVal(""), utf8len(txt(r)) <= limit.t))
    c.ensures("limit-unchanged", lambda r: r.st.deref(self).fields["limit"].t == limit.t)
    # TextIO.write returns the number of characters written: the render methods ADD these up, so an
    # int is returned for every string, the empty one included
    c.ensures("returns-the-number-of-characters-written", lambda r: z3.And(z3.BoolVal(isinstance(r.value, VInt)), (r.value.t == L(s.t)) if isinstance(r.value, VInt) else z3.BoolVal(False)))
    c.raises("OutputStreamLimitError")
    c.ensures_exc("raises-iff-would-exceed-and-nothing-written", lambda r: z3.And(s.t != z3.StringVal(""), size.t + utf8len(s.t) > limit.t, txt(r) == text.t))
    c.ensures("no-raise-means-within-limit", lambda r: z3.Or(s.t == z3.StringVal(""), size.t + utf8len(s.t) <= limit.t))
    c.cover("writes", lambda r: L(s.t) > 0 if r.exc is None else None)
    c.replay("code", code=REPLAY_OUTPUT)


_limited_write("C07")


@contract(CTX + ".get_buffer", prop="C07", name="get_buffer[nested]")
def get_buffer_nested(c):
    env = mk_env(c)
    ctx = mk_ctx(c, env)
    bsize, blimit = c.int("buf_size"), c.int("buf_limit")
    buf = c.obj(LSIO, "parent_buffer", limit=blimit, size=bsize, __text__=c.str("buf_text"))
    c.call(buf, self_val=ctx)
    Lm = c.st.deref(env).fields["output_stream_limit"].t
    def post(r):
        v = r.value
        h = r.st.deref(v)
        if U.is_none(Lm) is None:
            return z3.BoolVal(False)
        lim_set = U.is_int(Lm)
        if h.cls[1] == "LimitedStringIO":
            f = h.fields
            return z3.And(lim_set, box(f["limit"]) == U.int(U.i(Lm) - bsize.t), box(f["size"]) == U.int(0), f["__text__"].t == z3.StringVal(""))
        return z3.Not(lim_set)
    c.ensures("nested-buffer-budget-is-limit-minus-bytes-already-counted", post)
    c.raises()
    c.replay("code", code=REPLAY_OUTPUT)


@contract(CTX + ".get_buffer", prop="C07", name="get_buffer[top]")
def get_buffer_top(c):
    env = mk_env(c)
    ctx = mk_ctx(c, env)
    c.call(NONE, self_val=ctx)
    Lm = c.st.deref(env).fields["output_stream_limit"].t
    def post(r):
        h = r.st.deref(r.value)
        if h.cls[1] == "LimitedStringIO":
            f = h.fields
            return z3.And(U.is_int(Lm), box(f["limit"]) == Lm, box(f["size"]) == U.int(0), f["__text__"].t == z3.StringVal(""))
        return U.is_none(Lm)
    c.ensures("fresh-buffer-with-full-budget", post)
    c.raises()
    c.replay("code", code=REPLAY_OUTPUT)


@contract(TEMPLATE + "._get_buffer", prop="C07")
def template_get_buffer(c):
    env = mk_env(c)
    t = c.obj(TEMPLATE, "template", env=env)
    c.call(self_val=t)
    Lm = c.st.deref(env).fields["output_stream_limit"].t
    def post(r):
        h = r.st.deref(r.value)
        if h.cls[1] == "LimitedStringIO":
            f = h.fields
            return z3.And(U.is_int(Lm), box(f["limit"]) == Lm, f["size"].t == 0, f["__text__"].t == z3.StringVal(""))
        return U.is_none(Lm)
    c.ensures("render-buffer-is-limited-iff-limit-configured", post)
    c.raises()
    c.replay("code", code=REPLAY_OUTPUT)


for _suffix in ("", "_async"):
    def _mk(suffix):
        @contract(TEMPLATE + ".render" + suffix, prop="C07", name=f"BoundTemplate.render{suffix}[writes-into-the-limited-buffer]")
        def render_buffer(c):
            env = mk_env(c)
            t = c.obj(TEMPLATE, "template", env=env, context_class=VClass("liquid.context", "RenderContext"))
            def get_buffer(eng, st, a, k):
                b = st.alloc(HObj(("io", "StringIO"), {"__text__": VStr(z3.StringVal(""))}, {}, "the-limited-buffer"))
                st.ghost["buf"] = b
                return [(st, b)]
            def rwc(eng, st, a, k):
                st.log.append(("render-into", a[2] if len(a) > 2 else k.get("buffer")))
                # rendering appends some text to the buffer it is given
                h = st.deref(a[2])
                h.fields["__text__"] = VStr(z3.Concat(h.fields["__text__"].t, z3.String("rendered_text")))
                return [(st, NONE)]
            c.summary(TEMPLATE + "._get_buffer", get_buffer)
            c.summary(TEMPLATE + ".render_with_context" + suffix, rwc)
            c.summary(TEMPLATE + ".make_globals", lambda eng, st, a, k: [(st, st.alloc(HDict()))])
            c.summary("liquid.context:RenderContext", lambda eng, st, a, k: [(st, st.alloc(HObj(("liquid.context", "RenderContext"), {}, {}, "ctx")))])
            c.call(self_val=t)
            def post(r):
                into = [e[1] for e in r.st.log if e[0] == "render-into"]
                return z3.BoolVal(into == [r.st.ghost.get("buf")])
            c.ensures("top-level-output-goes-only-into-the-buffer-from-_get_buffer", post)
            c.ensures("returns-exactly-the-contents-of-that-buffer", lambda r: r.value.t == z3.String("rendered_text"))
            c.raises()
            c.replay("code", code=REPLAY_OUTPUT)
    _mk(_suffix)


@structural("C07", "buffer-sites")
def buffer_sites():
    """every text buffer of liquid/** is created by get_buffer/_get_buffer (which apply the
    limit and the carry); block tags that buffer output pass their parent buffer"""
    obs = []
    made = []
    for m in load.all_modules():
        mod = load.get_module(m)
        for cname, cnode in list(mod.classes.items()) + [(None, mod.tree)]:
            for fn in [n for n in cnode.body if isinstance(n, (ast.FunctionDef, ast.AsyncFunctionDef))]:
                for cl in flow.calls(fn):
                    if flow.dotted(cl.func) in ("StringIO", "io.StringIO", "LimitedStringIO"):
                        made.append(f"{m}:{cname + '.' if cname else ''}{fn.name}")
    allowed = {"liquid.context:RenderContext.get_buffer", "liquid.template:BoundTemplate._get_buffer"}
    extra = sorted(set(made) - allowed)
    obs.append(flow.ob("output-buffers-are-created-only-by-get_buffer-and-_get_buffer", not extra and allowed <= set(made), str(extra), replay_schema="code", replay_extra={"code": REPLAY_OUTPUT}))
    n = 0
    for m in load.all_modules():
        mod = load.get_module(m)
        for fn in [x for x in ast.walk(mod.tree) if isinstance(x, (ast.FunctionDef, ast.AsyncFunctionDef))]:
            for cl in flow.calls(fn):
                if isinstance(cl.func, ast.Attribute) and cl.func.attr == "get_buffer":
                    n += 1
                    args = [flow.dotted(a) for a in cl.args]
                    obs.append(flow.ob(f"{m.split('.')[-1]}.{fn.name}@{cl.lineno - fn.lineno}:nested-buffer-carries-the-parent-buffer", len(args) == 1 and args[0] in ("buffer", "self.buffer"), str(args), replay_schema="code", replay_extra={"code": REPLAY_OUTPUT}))
    obs.append(flow.ob("nested-buffer-sites-found", n >= 2, f"{n} get_buffer call sites"))
    return obs


@structural("C07", "local-names-are-bound-only-through-assign")
def locals_written_only_by_assign():
    """RenderContext.assign is the one place the namespace limit is applied (contract 'assign' above);
    so nothing outside liquid/context.py may store into a context's `locals` mapping directly."""
    bad, n_assign = [], 0
    for m in load.all_modules():
        mod = load.get_module(m)
        for fn in [x for x in ast.walk(mod.tree) if isinstance(x, (ast.FunctionDef, ast.AsyncFunctionDef))]:
            for n in ast.walk(fn):
                if isinstance(n, ast.Call) and isinstance(n.func, ast.Attribute) and n.func.attr == "assign" and flow.dotted(n.func.value).split(".")[-1].endswith("context"):
                    n_assign += 1
                if m == "liquid.context":
                    continue
                tgt = None
                if isinstance(n, ast.Subscript) and isinstance(n.ctx, (ast.Store, ast.Del)) and isinstance(n.value, ast.Attribute) and n.value.attr == "locals":
                    tgt = n
                elif (isinstance(n, ast.Call) and isinstance(n.func, ast.Attribute) and n.func.attr in ("update", "setdefault", "__setitem__", "pop", "popitem", "clear", "__delitem__", "__ior__")
                      and isinstance(n.func.value, ast.Attribute) and n.func.value.attr == "locals"):
                    tgt = n
                elif isinstance(n, (ast.Assign, ast.AugAssign, ast.AnnAssign)) and any(isinstance(t, ast.Attribute) and t.attr == "locals" for t in (n.targets if isinstance(n, ast.Assign) else [n.target])):
                    tgt = n
                if tgt is not None:
                    bad.append(f"{m}:{fn.name}@{tgt.lineno}: {ast.unparse(tgt)[:80]}")
    return [flow.ob("no-direct-store-into-context.locals-outside-liquid.context", not bad, "; ".join(bad)[:300], replay_schema="code", replay_extra={"code": REPLAY_NAMESPACE_ASYNC}),
            flow.ob("assign-call-sites-found", n_assign >= 2, f"{n_assign} context.assign call sites")]


REPLAY_NAMESPACE_ASYNC = r"""
def run(m):
    import asyncio, sys
    from liquid import Environment, DictLoader
    from liquid.exceptions import LocalNamespaceLimitError
    loader = DictLoader({"p": "{% capture r %}{% for i in (1..40) %}zzzz{% endfor %}{% endcapture %}"})
    big = sys.getsizeof("zzzz" * 40)
    bad = []
    class E(Environment):
        local_namespace_limit = big - 10
    env = E(loader=loader)
    for src in ("{% capture c %}{% for i in (1..40) %}zzzz{% endfor %}{% endcapture %}", "{% render 'p' %}", "{% assign a = 'zzzz' %}{% capture c %}{% for i in (1..40) %}{{ a }}{% endfor %}{% endcapture %}"):
        t = env.from_string(src)
        for mode, call in (("sync", lambda: t.render()), ("async", lambda: asyncio.run(t.render_async()))):
            try:
                call()
                bad.append((mode, src))
            except LocalNamespaceLimitError:
                pass
    return {"failing": bool(bad), "witness": "namespace-limit-not-applied-to-a-binding", "call": repr(bad[:2]) if bad else "capture over the limit, sync and async", "result": "render completed holding more than the limit" if bad else "ok"}
"""


def _size_after(eng, c, func, ctx):
    """call target, then measure get_size_of_locals() in the post-state"""
    outs = eng.run(func, c.st, c.args, c.kwargs, self_val=c.self_val)
    res = []
    for s, o in outs:
        if isinstance(o, Raised):
            res.append((s, o))
            continue
        for s2, m in eng.call_value(s, eng.get_attr(s, ctx, "get_size_of_locals")[0][1], [], {}):
            res.append((s2, Ret(VTuple((o.val, m)))))
    return res


@contract(CTX + ".assign", prop="C07")
def assign_limit(c):
    env = mk_env(c)
    ctx = mk_ctx(c, env)
    k, v = c.str("key"), c.any("val")
    c.call(k, v, self_val=ctx)
    c.entry = lambda eng, cc, func: _size_after(eng, cc, func, ctx)
    M = c.st.deref(env).fields["local_namespace_limit"].t
    limited = U.is_int(M)
    c.ensures("completed-assign-keeps-measured-size-within-limit", lambda r: z3.Implies(limited, r.value.items[1].t <= U.i(M)))
    c.raises("LocalNamespaceLimitError")
    c.ensures_exc("raises-only-when-limited", lambda r: limited)
    # In lax and warn mode the render goes on after the error, so "a completed render never
    # held more than M" needs the refused assignment to leave the namespace as it was (which
    # was within the limit by the clause above, inductively).
    loc0 = c.st.deref(c.st.deref(ctx).fields["locals"])
    pres0, val0 = loc0.present, loc0.val

    def unchanged(r):
        h = r.st.deref(r.st.deref(ctx).fields["locals"])
        j = z3.Const("j!key", U)
        return z3.And(z3.BoolVal(not h.items), h.present == pres0, z3.ForAll([j], z3.Implies(z3.Select(pres0, j), z3.Select(h.val, j) == z3.Select(val0, j))))
    c.ensures_exc("refused-assignment-leaves-the-namespace-as-it-was", unchanged)
    c.replay("code", code=REPLAY_NAMESPACE)


@contract(CTX + ".get_size_of_locals", prop="C07")
def size_includes_carry(c):
    """two runs that differ only in the carried size differ by exactly that amount"""
    env = mk_env(c)
    ctx = mk_ctx(c, env)
    c1 = c.st.deref(ctx).fields["local_namespace_size_carry"]
    c2 = c.int("other_carry")
    def entry(eng, cc, func):
        outs = []
        for s, o in eng.run(func, cc.st, [], {}, self_val=ctx):
            if isinstance(o, Raised):
                outs.append((s, o)); continue
            s.deref(ctx).fields["local_namespace_size_carry"] = c2
            for s2, o2 in eng.run(func, s, [], {}, self_val=ctx):
                outs.append((s2, o2 if isinstance(o2, Raised) else Ret(VTuple((o.val, o2.val)))))
        return outs
    c.entry = entry
    M = c.st.deref(env).fields["local_namespace_limit"].t
    limited = U.is_int(M)
    c.ensures("carry-is-added-to-the-measure", lambda r: z3.Implies(limited, r.value.items[1].t - r.value.items[0].t == c2.t - c1.t))
    c.ensures("measure-non-negative-given-non-negative-carry", lambda r: z3.Implies(z3.And(c1.t >= 0), r.value.items[0].t >= 0))
    c.assume_external(z3.ForAll([z3.Const("s!q", SeqU)], z3.Function("sum_ints", SeqU, I)(z3.Const("s!q", SeqU)) >= 0) , "sys.getsizeof is non-negative, so a sum of sizes is non-negative")
    c.raises()
    c.replay("code", code=REPLAY_NAMESPACE)


def _copy_carry(nested):
    contract(CTX + ".copy", prop="C07", name="copy[carries-namespace-size" + (", from a context that is itself a copy]" if nested else "]"))(lambda c: copy_carry(c, nested))


def copy_carry(c, nested=False):
    env = mk_env(c)
    if nested:
        # the copying context is a partial's context: its own locals and carry differ from the root's
        root = mk_ctx(c, env)
        ctx = mk_ctx(c, env, parent_context=root, locals=c.dict("partial_locals"), counters=c.dict("counters2"), loops=c.list("loops2"),
                     local_namespace_size_carry=c.int("partial_carry"), loop_iteration_carry=c.int("partial_loop_carry"))
    else:
        ctx = mk_ctx(c, env)
    ns = c.dict("namespace")
    bs = c.bool("block_scope")
    c.call(ns, self_val=ctx, block_scope=bs, carry_loop_iterations=c.bool("carry_loops"))
    def entry(eng, cc, func):
        outs = []
        for s, o in eng.run(func, cc.st, cc.args, cc.kwargs, self_val=ctx):
            if isinstance(o, Raised):
                outs.append((s, o)); continue
            for s2, m in eng.call_value(s, eng.get_attr(s, ctx, "get_size_of_locals")[0][1], [], {}):
                outs.append((s2, Ret(VTuple((o.val, m)))))
        return outs
    c.entry = entry
    def post(r):
        new, measured = r.value.items
        f = r.st.deref(new).fields
        return f["local_namespace_size_carry"].t == measured.t
    c.ensures("copy-carries-the-callers-measured-size", post)
    c.raises("ContextDepthError")
    c.replay("code", code=REPLAY_NAMESPACE)


for _nested in (False, True):
    _copy_carry(_nested)


not_covered("C07", "sys.getsizeof as a measure of memory (uninterpreted, non-negative)", "a user-overridden get_size_of_locals",
            "that every node writes only to the buffer it was given or one obtained from get_buffer is a structural (call-site) obligation, see structural 'buffers'")


REPLAY_OUTPUT = r'''
def run(m):
    from liquid import Environment, DictLoader
    from liquid.exceptions import OutputStreamLimitError
    bad = None
    srcs = ["héllo wörld {{ x }}", "{% capture y %}ééé{{ x }}{% endcapture %}{{ y }}{{ y }}", "{% for i in (1..3) %}{% render 'p' %}{% endfor %}", "{% ifchanged %}é{{ x }}{% endifchanged %}é"]
    for src in srcs:
        free = Environment(loader=DictLoader({"p": "pé{{ 'q' }}"})).from_string(src).render(x="žž")
        nbytes = len(free.encode())
        for lim in range(0, nbytes + 3):
            class E(Environment):
                output_stream_limit = lim
            env = E(loader=DictLoader({"p": "pé{{ 'q' }}"}))
            try:
                out = env.from_string(src).render(x="žž")
                ok = len(out.encode()) <= lim and out == free and nbytes <= lim
            except OutputStreamLimitError:
                ok = nbytes > lim
            except Exception as e:
                ok = False; out = repr(e)
            if not ok and bad is None:
                bad = (src, lim, nbytes)
    return {"failing": bad is not None, "witness": "output-limit", "call": repr(bad) if bad else "limit sweep 0..bytes+2 over 4 templates", "result": "limit not honoured" if bad else "ok"}
'''

REPLAY_NAMESPACE = r'''
def run(m):
    import sys
    from liquid import Environment, DictLoader
    from liquid.exceptions import LocalNamespaceLimitError
    src = "{% assign a = 'xxxxxxxx' %}{% assign b = 'yy' %}{% render 'p' %}{% assign a = 'z' %}"
    loader = DictLoader({"p": "{% assign q = 'inner' %}{% capture r %}zzz{% endcapture %}"})
    sizes = [sys.getsizeof(x) for x in ("xxxxxxxx", "yy", "inner", "zzz", "z")]
    need = max(sizes[0] + sizes[1] + sizes[2] + sizes[3], sizes[1] + sizes[4])
    bad = None
    for lim in list(range(1, need + 60, 7)) + [need - 1, need]:
        class E(Environment):
            local_namespace_limit = lim
        try:
            E(loader=loader).from_string(src).render()
            ok = lim >= need
        except LocalNamespaceLimitError:
            ok = lim < need
        if not ok and bad is None:
            bad = (lim, need)
    # lax mode: the render completes; at no point may it hold more than the limit
    from liquid import Mode
    class L(Environment):
        local_namespace_limit = sizes[1] + 10
    held = L(tolerance=Mode.LAX, loader=loader).from_string("{% assign a = 'xxxxxxxxxxxxxxxxxxxxxxxxxxxxxxxxxxxxxxxx' %}{% assign b = 'yy' %}[{{ a }}]").render()
    if held != "[]" and bad is None:
        bad = ("lax mode holds a refused value", held)
    return {"failing": bad is not None, "witness": "namespace-limit", "call": repr(bad) if bad else "limit sweep", "result": "ok" if bad is None else "limit not honoured"}
'''


@structural("C07", "limited-stream-invariant")
def limited_stream_invariant():
    """LimitedStringIO keeps `size <= limit` as a CLASS invariant: the counter and the underlying
    stream are written by `write` only (whose contract checks the limit before the text goes
    out); no other method of the class, and no code outside it, adds to `size` or writes to
    the base stream behind it"""
    import ast
    from pyvc import flow, load
    obs = []
    mod = load.get_module("liquid.output")
    cls = mod.classes["LimitedStringIO"]
    for fn in [f for f in cls.body if isinstance(f, (ast.FunctionDef, ast.AsyncFunctionDef))]:
        stores = [ast.unparse(st_)[:60] for st_ in ast.walk(fn) if isinstance(st_, (ast.Assign, ast.AugAssign)) and any(flow.dotted(t) == "self.size" for t in (st_.targets if isinstance(st_, ast.Assign) else [st_.target]))]
        base_writes = [ast.unparse(c_)[:60] for c_ in flow.calls(fn) if flow.dotted(c_.func) in ("super().write", "StringIO.write", "super().writelines", "StringIO.writelines")]
        if fn.name in ("__init__", "write"):
            continue
        obs.append(flow.ob(f"LimitedStringIO.{fn.name}:does-not-count-or-write-behind-the-limit-check", not stores and not base_writes, f"size stores: {stores}; base writes: {base_writes}", replay_schema="code", replay_extra={"code": REPLAY_NESTED_BUFFERS}))
    obs.append(flow.ob("LimitedStringIO.write:is-the-only-writer", load._last_def(cls.body, "write") is not None, "write defined"))
    # outside the class nothing assigns `.size` of a buffer
    outside = []
    for m in load.all_modules():
        if m == "liquid.output":
            continue
        for st_ in ast.walk(load.get_module(m).tree):
            if isinstance(st_, (ast.Assign, ast.AugAssign)):
                for t in (st_.targets if isinstance(st_, ast.Assign) else [st_.target]):
                    if isinstance(t, ast.Attribute) and t.attr == "size" and not flow.dotted(t).startswith("self."):
                        outside.append(f"{m}:{st_.lineno}")
    obs.append(flow.ob("no-code-outside-the-class-sets-a-buffers-size", not outside, str(outside)))
    return obs


REPLAY_NESTED_BUFFERS = r'''
def run(m):
    import asyncio
    from liquid import Environment
    from liquid.exceptions import OutputStreamLimitError
    src = "head {% for i in (1..3) %}{% ifchanged %}{% ifchanged %}{{ i }}xxxxxxxxxx{% endifchanged %}{% endifchanged %}{% endfor %}"
    full = len(Environment().from_string(src).render().encode())
    bad = []
    for limit in range(0, full + 3):
        class E(Environment):
            output_stream_limit = limit
        for a in (False, True):
            t = E().from_string(src)
            try:
                out = asyncio.run(t.render_async()) if a else t.render()
                if len(out.encode()) > limit:
                    bad.append((limit, a, len(out.encode())))
            except OutputStreamLimitError:
                pass
    return {"violated": bool(bad), "observed": bad[:4], "witness": "nested-buffer-output-exceeds-the-limit"}
'''
