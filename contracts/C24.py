"""C24 -- LRU caches behave as bounded least-recently-used maps.

Abstract view of the OrderedDict (DESIGN 3): (present, val, rank, n, next); larger rank =
more recently used.  Every postcondition is stated over the whole view.
"""
import ast

import z3

from pyvc import load
from pyvc.contract import contract
from pyvc.run import bounded, not_covered, structural
from pyvc.state import *  # noqa: F403
from pyvc.u import *  # noqa: F403

LRU = "liquid.utils.lru_cache:LRUCache"
TS = "liquid.utils.lru_cache:ThreadSafeLRUCache"
Sel = z3.Select
a, b_ = z3.Const("a!k", U), z3.Const("b!k", U)


def wf(h, cap):
    return z3.And(
        h.n >= 0, h.n <= cap, cap >= 1,
        z3.ForAll([a, b_], z3.Implies(z3.And(Sel(h.present, a), Sel(h.present, b_), a != b_), Sel(h.rank, a) != Sel(h.rank, b_))),
        z3.ForAll([a], z3.Implies(Sel(h.present, a), Sel(h.rank, a) < h.nxt)),
        z3.Implies(h.n == 0, z3.ForAll([a], z3.Not(Sel(h.present, a)))),
        z3.Implies(z3.Exists([a], Sel(h.present, a)), h.n >= 1),
    )


def setup(c, cls=LRU, locked=False):
    od = c.odict("od")
    h0 = c.st.deref(od).copy()
    cap = c.int("capacity")
    c.requires(wf(h0, cap.t), "well_formed(old)")
    fields = dict(capacity=cap, _cache=od)
    if locked:
        fields["_lock"] = c.st.alloc(HCell("Lock", {"held": False}))
    self = c.obj(cls, "cache", **fields)
    return self, od, h0, cap


def others_unchanged(h0, h1, k):
    """every key other than k keeps presence, value and rank"""
    return z3.ForAll([a], z3.Implies(a != k, z3.And(Sel(h1.present, a) == Sel(h0.present, a), z3.Implies(Sel(h0.present, a), z3.And(Sel(h1.val, a) == Sel(h0.val, a), Sel(h1.rank, a) == Sel(h0.rank, a))))))


def most_recent(h1, k):
    return z3.ForAll([a], z3.Implies(z3.And(Sel(h1.present, a), a != k), Sel(h1.rank, a) < Sel(h1.rank, k)))


def unchanged(h0, h1):
    return z3.And(h1.present == h0.present, h1.val == h0.val, h1.rank == h0.rank, h1.n == h0.n)


def T(cls, meth):
    """contract target: the method the class really executes (resolved through the MRO)"""
    m, _, cname = cls.partition(":")
    res = load.find_method(m, cname, meth)
    if res is None:
        return cls + "." + meth
    return f"{res[0]}:{res[1]}.{meth}"


def N(cls, meth):
    return cls.split(":")[1] + "." + meth


def add_getitem(cls, locked):
    @contract(T(cls, "__getitem__"), prop="C24", name=N(cls, "__getitem__"))
    def getitem(c):
        self, od, h0, cap = setup(c, cls, locked)
        k = c.any("key")
        c.call(k, self_val=self)
        c.ensures("returns-stored-value", lambda r: z3.And(Sel(h0.present, k.t), box(r.value) == Sel(h0.val, k.t)))
        c.ensures("key-becomes-most-recent-others-unchanged", lambda r: z3.And(most_recent(r.st.deref(od), k.t), others_unchanged(h0, r.st.deref(od), k.t), Sel(r.st.deref(od).present, k.t), Sel(r.st.deref(od).val, k.t) == Sel(h0.val, k.t), r.st.deref(od).n == h0.n))
        c.ensures("well_formed(new)", lambda r: wf(r.st.deref(od), cap.t))
        c.raises("KeyError")
        c.ensures_exc("keyerror-iff-absent-and-state-unchanged", lambda r: z3.And(z3.Not(Sel(h0.present, k.t)), unchanged(h0, r.st.deref(od))))
        c.replay("code", code=REPLAY_LRU)


def add_setitem(cls, locked):
    @contract(T(cls, "__setitem__"), prop="C24", name=N(cls, "__setitem__"))
    def setitem(c):
        self, od, h0, cap = setup(c, cls, locked)
        k, v = c.any("key"), c.any("value")
        c.call(k, v, self_val=self)
        def post(r):
            h1 = r.st.deref(od)
            overflow = z3.And(z3.Not(Sel(h0.present, k.t)), h0.n >= cap.t)
            is_lru = lambda j: z3.ForAll([b_], z3.Implies(Sel(h0.present, b_), Sel(h0.rank, b_) >= Sel(h0.rank, j)))  # noqa: E731
            kept = z3.ForAll([a], z3.Implies(a != k.t, z3.And(
                Sel(h1.present, a) == z3.And(Sel(h0.present, a), z3.Not(z3.And(overflow, is_lru(a)))),
                z3.Implies(Sel(h1.present, a), z3.And(Sel(h1.val, a) == Sel(h0.val, a), Sel(h1.rank, a) == Sel(h0.rank, a))))))
            return z3.And(Sel(h1.present, k.t), Sel(h1.val, k.t) == v.t, most_recent(h1, k.t), kept)
        c.ensures("stores-value-most-recent-evicts-exactly-lru-on-overflow", post)
        c.ensures("size-accounting", lambda r: r.st.deref(od).n == z3.If(Sel(h0.present, k.t), h0.n, z3.If(h0.n >= cap.t, h0.n, h0.n + 1)))
        c.ensures("well_formed(new)", lambda r: wf(r.st.deref(od), cap.t))
        c.raises()
        c.cover("overflow", lambda r: z3.And(z3.Not(Sel(h0.present, k.t)), h0.n >= cap.t))
        c.replay("code", code=REPLAY_LRU)


def add_delitem(cls, locked):
    @contract(T(cls, "__delitem__"), prop="C24", name=N(cls, "__delitem__"))
    def delitem(c):
        self, od, h0, cap = setup(c, cls, locked)
        k = c.any("key")
        c.call(k, self_val=self)
        c.ensures("removes-only-key", lambda r: z3.And(z3.Not(Sel(r.st.deref(od).present, k.t)), others_unchanged(h0, r.st.deref(od), k.t), r.st.deref(od).n == h0.n - 1))
        c.raises("KeyError")
        c.ensures_exc("keyerror-iff-absent", lambda r: z3.And(z3.Not(Sel(h0.present, k.t)), unchanged(h0, r.st.deref(od))))
        c.replay("code", code=REPLAY_LRU)


def add_contains(cls, locked):
    @contract(T(cls, "__contains__"), prop="C24", name=N(cls, "__contains__"))
    def contains(c):
        self, od, h0, cap = setup(c, cls, locked)
        k = c.any("key")
        c.call(k, self_val=self)
        c.ensures("membership-and-state-unchanged", lambda r: z3.And(r.truth() == Sel(h0.present, k.t), unchanged(h0, r.st.deref(od))))
        c.raises()
        c.replay("code", code=REPLAY_LRU)


def add_len(cls, locked):
    @contract(T(cls, "__len__"), prop="C24", name=N(cls, "__len__"))
    def length(c):
        self, od, h0, cap = setup(c, cls, locked)
        c.call(self_val=self)
        c.ensures("len-is-size-at-most-capacity", lambda r: z3.And(r.t == h0.n, r.t <= cap.t, unchanged(h0, r.st.deref(od))))
        c.raises()
        c.replay("code", code=REPLAY_LRU)


def add_get(cls, locked):
    @contract(T(cls, "get"), prop="C24", name=N(cls, "get"))
    def get(c):
        self, od, h0, cap = setup(c, cls, locked)
        k, d = c.any("key"), c.any("default")
        c.call(k, d, self_val=self)
        c.ensures("value-or-default", lambda r: box(r.value) == z3.If(Sel(h0.present, k.t), Sel(h0.val, k.t), d.t))
        c.ensures("hit-refreshes-miss-leaves-unchanged", lambda r: z3.If(Sel(h0.present, k.t), z3.And(most_recent(r.st.deref(od), k.t), others_unchanged(h0, r.st.deref(od), k.t)), unchanged(h0, r.st.deref(od))))
        c.raises()
        c.replay("code", code=REPLAY_LRU)


def add_listing(cls, locked, meth, what):
    @contract(T(cls, meth), prop="C24", name=N(cls, meth))
    def listing(c):
        self, od, h0, cap = setup(c, cls, locked)
        c.call(self_val=self)
        desc = z3.Function("od_desc_" + what, z3.ArraySort(U, B), z3.ArraySort(U, U), z3.ArraySort(U, I), SeqU)(h0.present, h0.val, h0.rank)
        def post(r):
            v = r.value
            if not (isinstance(v, VRef) and isinstance(r.st.deref(v), (HIter, HList))):
                return z3.BoolVal(False)
            h = r.st.deref(v)
            seq = h.seq if isinstance(h, HIter) else r.engine.list_seq(r.st, v)
            pos = h.pos if isinstance(h, HIter) else z3.IntVal(0)
            return z3.And(seq == desc, pos == 0, unchanged(h0, r.st.deref(od)))
        c.ensures(f"lists-{what}-most-to-least-recent", post)
        c.raises()
        c.assume_note("OrderedDict model: reversed(od[.keys()/.values()/.items()]) enumerates in descending recency (od_desc_*), forward iteration in ascending recency (od_asc_*)")
        c.replay("code", code=REPLAY_LRU)


for _cls, _locked in ((LRU, False), (TS, True)):
    add_getitem(_cls, _locked)
    add_setitem(_cls, _locked)
    add_delitem(_cls, _locked)
    add_contains(_cls, _locked)
    add_len(_cls, _locked)
    add_get(_cls, _locked)
    add_listing(_cls, _locked, "__iter__", "keys")
    add_listing(_cls, _locked, "keys", "keys")
    add_listing(_cls, _locked, "values", "values")
    add_listing(_cls, _locked, "items", "items")


@contract(LRU + ".__init__", prop="C24")
def init(c):
    cap = c.int("capacity")
    self = c.obj(LRU, "cache")
    c.call(cap, self_val=self)
    def post(r):
        f = r.st.deref(self).fields
        h = r.st.deref(f["_cache"])
        return z3.And(f["capacity"].t == cap.t, wf(h, cap.t), h.n == 0)
    c.ensures("empty-well-formed", post)
    c.raises("ValueError")
    c.ensures_exc("rejects-capacity-below-one", lambda r: cap.t < 1)


# ---- thread-safe variant: lock discipline (DESIGN C24) ------------------------------------


def public_methods():
    names = set()
    for mod, cls in (("liquid.utils.lru_cache", "LRUCache"), ("liquid.utils.lru_cache", "ThreadSafeLRUCache")):
        node = load.get_module(mod).classes[cls]
        for stmt in node.body:
            # the public interface: private helpers (`_name`) run inside a public method's locked region
            if isinstance(stmt, ast.FunctionDef) and stmt.name != "__init__" and (not stmt.name.startswith("_") or (stmt.name.startswith("__") and stmt.name.endswith("__"))):
                names.add(stmt.name)
    return sorted(names)


def add_lock_discipline(meth):
    res = load.find_method("liquid.utils.lru_cache", "ThreadSafeLRUCache", meth)
    target = f"{res[0]}:{res[1]}.{meth}"

    @contract(target, prop="C24", name=f"ThreadSafeLRUCache.{meth}[lock-discipline]")
    def disc(c):
        self, od, h0, cap = setup(c, TS, True)
        nargs = len(res[2].args.args) - 1
        c.call(*[c.any(f"arg{i}") for i in range(nargs)], self_val=self)
        def all_locked(r):
            acc = [e for e in r.st.log if e[0] == "od-access"]
            return z3.BoolVal(all(e[2] for e in acc))
        def no_live_view(r):
            v = r.value if r.exc is None else None
            live = isinstance(v, VRef) and isinstance(r.st.deref(v), HIter) and r.st.deref(v).live_of is not None
            return z3.BoolVal(not live)
        def released(r):
            return z3.BoolVal(not any(isinstance(o, HCell) and o.kind == "Lock" and o.data.get("held") for o in r.st.heap.values()))
        c.ensures("every-access-to-the-dict-holds-the-lock", all_locked)
        c.ensures_exc("every-access-to-the-dict-holds-the-lock", all_locked)
        c.ensures("returns-no-live-view-of-the-dict", no_live_view)
        c.ensures("lock-released-on-return", released)
        c.ensures_exc("lock-released-on-return", released)
        c.assume_note("threading.Lock gives mutual exclusion of the guarded regions; with every access under the lock and no live view returned, each operation is atomic and concurrent histories are linearizable to sequential ones (pen-and-paper argument; schedules are not explored)")
        c.replay("code", code=REPLAY_TS)


for _m in public_methods():
    add_lock_discipline(_m)

from pyvc import flow  # noqa: E402
from pyvc.run import structural  # noqa: E402


@structural("C24", "no-lock-across-yield")
def no_lock_across_yield():
    """a generator that yields inside `with self._lock` keeps the (non-reentrant) lock while its
    caller runs: the next cache operation of any thread -- or of the same thread -- blocks"""
    obs = []
    cls = load.get_module("liquid.utils.lru_cache").classes["ThreadSafeLRUCache"]
    for fn in [x for x in cls.body if isinstance(x, (ast.FunctionDef, ast.AsyncFunctionDef))]:
        held_yields = []
        for w in [x for x in ast.walk(fn) if isinstance(x, (ast.With, ast.AsyncWith))]:
            if any("_lock" in flow.dotted(it.context_expr) for it in w.items):
                held_yields += [y.lineno for y in ast.walk(w) if isinstance(y, (ast.Yield, ast.YieldFrom))]
        obs.append(flow.ob(f"ThreadSafeLRUCache.{fn.name}:does-not-yield-while-holding-the-lock", not held_yields, f"yield at lines {held_yields}", replay_schema="code", replay_extra={"code": REPLAY_YIELD}))
    return obs


REPLAY_YIELD = r'''
def run(m):
    import threading
    from liquid.utils import ThreadSafeLRUCache
    c = ThreadSafeLRUCache(4)
    c["a"] = 1; c["b"] = 2
    done = []
    def work():
        for k in c.keys():
            c.get(k)
        done.append(True)
    t = threading.Thread(target=work, daemon=True)
    t.start(); t.join(5)
    return {"violated": not done, "observed": "iteration with lookups finished" if done else "deadlock: keys() still holds the lock"}
'''


not_covered("C24", "exploring thread schedules (outside this technique; lock discipline + linearizability argument stands in)",
            "cardinality link between the abstract size n and the set of present keys beyond n==0 <=> empty (n is maintained by the OrderedDict model)")


REPLAY_LRU = r'''
def run(m):
    """exhaustive small-scope differential test of LRUCache against a reference LRU (list-based)."""
    import itertools
    from liquid.utils.lru_cache import LRUCache, ThreadSafeLRUCache
    keys = ["a", "b", "c"]
    ops = [("set", k) for k in keys] + [("get", k) for k in keys] + [("del", k) for k in keys] + [("in", k) for k in keys] + [("list", None), ("getm", "a"), ("getm", "z")]
    for cls in (LRUCache, ThreadSafeLRUCache):
      for cap in (1, 2):
        for seq in itertools.product(ops, repeat=4):
            c = cls(cap); ref = []  # ref: list of (k,v) least->most recent
            n = 0
            for op, k in seq:
                n += 1
                try:
                    if op == "set":
                        c[k] = n
                        if k in dict(ref): ref = [(a, b) for a, b in ref if a != k]
                        elif len(ref) >= cap: ref.pop(0)
                        ref.append((k, n))
                    elif op == "get":
                        exp = dict(ref).get(k, KeyError)
                        try: got = c[k]
                        except KeyError: got = KeyError
                        if exp is not KeyError: ref = [(a, b) for a, b in ref if a != k] + [(k, exp)]
                        assert got == exp, (op, k, got, exp)
                    elif op == "getm":
                        exp = dict(ref).get(k, "dflt")
                        got = c.get(k, "dflt")
                        if k in dict(ref): ref = [(a, b) for a, b in ref if a != k] + [(k, exp)]
                        assert got == exp, (op, k, got, exp)
                    elif op == "del":
                        try: del c[k]; got = None
                        except KeyError: got = KeyError
                        exp = None if k in dict(ref) else KeyError
                        ref = [(a, b) for a, b in ref if a != k]
                        assert got == exp, (op, k, got, exp)
                    elif op == "in":
                        assert (k in c) == (k in dict(ref)), (op, k)
                    else:
                        want = list(reversed(ref))
                        assert list(c.keys()) == [a for a, _ in want], ("keys", list(c.keys()), want)
                        assert list(c.values()) == [b for _, b in want], ("values",)
                        assert list(c.items()) == want, ("items",)
                        assert list(c) == [a for a, _ in want], ("iter",)
                    assert len(c) == len(ref) <= cap, ("len", len(c), len(ref))
                except AssertionError as e:
                    return {"failing": True, "witness": "sequential-lru", "call": f"{cls.__name__}({cap}) ops={seq}", "result": repr(e.args)}
    return {"failing": False, "witness": "sequential-lru", "call": "all op sequences of length 4 over 3 keys, capacity 1..2", "result": "agrees with reference LRU"}
'''

REPLAY_TS = r'''
def run(m):
    """single-threaded witness of a lazy view escaping the lock + a short concurrent stress."""
    import sys, threading
    from liquid.utils.lru_cache import ThreadSafeLRUCache
    c = ThreadSafeLRUCache(4)
    for i in range(3): c[i] = i
    problems = []
    for name in ("keys", "values", "items", "__iter__"):
        try:
            it = getattr(c, name)()
            next(it); c[99] = 1; del c[99]; c[98] = 2; list(it)
        except RuntimeError as e:
            problems.append(f"{name}: {e}")
        except StopIteration:
            pass
    # unlocked methods: does the method body run while the lock is free?
    import inspect
    for name in ("__len__", "__iter__", "__contains__", "__getitem__", "__setitem__", "__delitem__", "keys", "values", "items"):
        src = inspect.getsource(getattr(ThreadSafeLRUCache, name))
        if "_lock" not in src and name not in ("get",):
            problems.append(f"{name}: inherited without taking the lock")
    old = sys.getswitchinterval(); sys.setswitchinterval(1e-6)
    errs = []
    def worker(n):
        try:
            for i in range(3000):
                c[(n, i % 7)] = i; list(c.keys()); len(c); (n, i % 5) in c; c.get((n, 1)); list(c.items())
        except Exception as e:
            errs.append(repr(e))
    ts = [threading.Thread(target=worker, args=(n,)) for n in range(8)]
    [t.start() for t in ts]; [t.join() for t in ts]
    sys.setswitchinterval(old)
    if errs: problems.append("concurrent: " + errs[0])
    return {"failing": bool(problems), "witness": "lock-discipline", "call": "keys()->next->insert->next; 8 threads x 3000 ops", "result": "; ".join(problems) or "ok"}
'''
