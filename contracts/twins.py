"""Sync/async twin congruence, shared by C01 (all pairs) and by every property whose contracts
are stated on a sync function that has an `_async` twin in the property's anchor files: the
property's obligations carry over to the twin only if the twin is congruent to the sync body
(await-erasure modulo the justified rewrite rules of pyvc/rel.py)."""
import ast
import copy
import json
import os

from pyvc import flow, load, rel
from pyvc.run import structural

# preconditions from the property's quantifier (JSON-like data, built-in filters/loaders)
FACTS = {
    "hasattr(func, 'filter_async')": False,           # P1: no built-in/extra filter defines filter_async
    "hasattr(obj, '__getitem_async__')": False,       # P1: render data is JSON-like
}
FACTS_SYNC = dict(FACTS)
FACTS_SYNC["not isinstance(uptodate, bool)"] = False   # P3: sync uptodate callables return bool
FACTS_ASYNC = dict(FACTS)
FACTS_ASYNC["assert isinstance(macro, Macro)"] = True  # P2: tag_namespace['macros'] holds Macro objects


def elsif_lemma(sync_fn, async_fn):
    """A-elsif: after `alternative.expression.evaluate*(context)` was true, rendering the
    ConditionalBlockNode `alternative` is rendering `alternative.block` (condition evaluation
    is pure; the disabled-tag check on the alternative's token is subsumed by its first node).
    Shape of ConditionalBlockNode.render_to_output* and Node.render* is checked below."""
    class Sub(ast.NodeTransformer):
        def visit_Call(self, n):
            self.generic_visit(n)
            if isinstance(n.func, ast.Attribute) and n.func.attr in ("render", "render_async") and ast.unparse(n.func.value) == "alternative":
                n.func = ast.Attribute(value=ast.Attribute(value=n.func.value, attr="block", ctx=ast.Load()), attr=n.func.attr, ctx=ast.Load())
            return n
    return sync_fn, Sub().visit(copy.deepcopy(async_fn))


HOOKS = {("liquid.builtin.tags.if_tag", "IfNode.render_to_output"): (elsif_lemma, "A-elsif"),
         ("liquid.builtin.tags.unless_tag", "UnlessNode.render_to_output"): (elsif_lemma, "A-elsif")}


def pair_obligations(module_filter=None, min_pairs=20, replay=None):
    sigs = rel.signatures()
    obs = []
    prs = [p for p in rel.find_pairs() if module_filter is None or module_filter(p[0])]
    t1 = 0
    for m, qual, s, a in prs:
        name = qual + s.name
        hook = HOOKS.get((m, name))
        extra = []
        s2, a2 = s, a
        if hook is not None:
            s2, a2 = hook[0](s, a)
            extra = [hook[1]]
        same, tier, used, diff = rel.compare(s2, a2, FACTS_SYNC, FACTS_ASYNC, sigs)
        if tier.startswith("tier1"):
            t1 += 1
        obs.append(flow.ob(f"rel:{m}:{name}", same, (tier + ("; rules: " + "; ".join(used + extra) if used or extra else "")) if same else "\n".join(diff)[:3000],
                           replay_schema="code", replay_extra={"code": replay or REPLAY, "pair": f"{m}:{name}"}))
    obs.append(flow.ob("pairs-found", len(prs) >= min_pairs, f"{len(prs)} sync/async pairs, {t1} by await-erasure congruence alone"))
    return obs




REPLAY = r'''
def run(m):
    from bounded.C01 import run as brun
    r = brun("quick", 0)
    v = r["violations"]
    return {"failing": bool(v), "witness": v[0]["witness"] if v else "sync==async", "call": v[0]["source"] if v else "sync/async sweep", "result": v[0]["got"] if v else "ok"}
'''


def anchor_modules(prop):
    """module names of the files listed under anchors.files of the property (properties.jsonl)"""
    here = os.path.dirname(os.path.dirname(os.path.abspath(__file__)))
    mods = set()
    with open(os.path.join(here, "properties.jsonl")) as fd:
        for line in fd:
            p = json.loads(line)
            if p["id"] == prop:
                for f in p.get("anchors", {}).get("files", []):
                    if f.endswith(".py"):
                        mods.add(f[:-3].replace("/", ".").removesuffix(".__init__"))
    return mods


def twins_for(prop, extra_modules=()):
    """register the twin-congruence obligations for the pairs in the property's anchor files"""
    mods = anchor_modules(prop) | set(extra_modules)

    @structural(prop, "async-twins")
    def twins():
        return pair_obligations(lambda m: m in mods, min_pairs=1)
    return twins
