"""C11 -- custom delimiters and environments are independent.

Deductive part (pyvc): `compile_liquid_rules`, `get_lexer`, `Environment.tokenizer`,
`LiquidTag.__init__` are executed symbolically over six arbitrary delimiter strings with
`re.escape` uninterpreted; the obligations are over the *terms* of the pattern strings
handed to `re.compile`: a delimiter occurs only under `re.escape`, no literal fragment of
a pattern spells a default delimiter, every configured delimiter reaches the rules, and the
call chain Environment -> get_lexer -> compile_liquid_rules passes every delimiter to the
parameter of the same name.  Memo tables: key completeness and identity keys.
Environment isolation: frame obligations (pyvc-flow)."""
import ast

import z3

from contracts.common import *  # noqa: F403
from pyvc import flow, load
from pyvc.contract import contract
from pyvc.run import bounded, not_covered, structural
from pyvc.state import *  # noqa: F403
from pyvc.u import *  # noqa: F403

LEX = "liquid.lex"
DELIMS = ("tag_start_string", "tag_end_string", "statement_start_string", "statement_end_string", "comment_start_string", "comment_end_string")
DEFAULT_DELIMS = ("{%", "%}", "{{", "}}", "{#", "#}")
ESC = z3.Function("re_escape", S, S)


def occurrences(term, params):
    """(raw, escaped, literals): names of delimiter parameters occurring outside / inside
    re_escape(.), and the literal string fragments of `term`"""
    raw, esc, lits = set(), set(), []

    def walk(t, under):
        if z3.is_string_value(t):
            lits.append(t.as_string())
            return
        if z3.is_const(t) and t.decl().kind() == z3.Z3_OP_UNINTERPRETED:
            n = t.decl().name()
            if n in params:
                (esc if under else raw).add(n)
            return
        if z3.is_app(t):
            u = t.decl().name() == "re_escape" and t.num_args() == 1 and z3.is_const(t.arg(0))
            for a in t.children():
                walk(a, u)

    walk(term, False)
    return raw, esc, lits


def spelled(lit):
    """default delimiters spelled by a literal pattern fragment (escaped or not)"""
    plain = lit.replace("\\", "")
    return [d for d in DEFAULT_DELIMS if d in plain]


def rules_of(st, v):
    """[(name term, pattern term)] from the iterable of pairs handed to _compile_rules"""
    out = []
    if isinstance(v, VRef):
        items = st.deref(v).items
    elif isinstance(v, VTuple):
        items = v.items
    else:
        raise Unsupported(f"rules argument {v!r}")
    for it in items:
        assert isinstance(it, VTuple) and len(it.items) == 2, it
        out.append((unbox_str(it.items[0]), unbox_str(it.items[1])))
    return out


def unbox_str(v):
    if isinstance(v, VStr):
        return v.t
    if isinstance(v, VConst) and isinstance(v.py, str):
        return z3.StringVal(v.py)
    if isinstance(v, VU):
        return U.sval(v.t)
    raise Unsupported(f"not a string: {v!r}")


def compile_summary(eng, st, args, kwargs):
    st.ghost["rules"] = rules_of(st, args[0])
    return [(st, VConst(("pattern",)))]


def name_of(t):
    t = z3.simplify(t)
    return t.as_string() if z3.is_string_value(t) else str(t)


for comments in (False, True):
    @contract(f"{LEX}:compile_liquid_rules", prop="C11", name=f"compile_liquid_rules[comments={comments}]")
    def clr(c, comments=comments):
        ps = [c.str(n) for n in DELIMS]
        if comments:
            c.requires(ps[4].t != z3.StringVal(""), "shorthand comments configured")
        else:
            c.requires(ps[4].t == z3.StringVal(""), "shorthand comments off")
        c.summary(f"{LEX}:_compile_rules", compile_summary)
        c.call(*ps)
        live = DELIMS if comments else DELIMS[:4]

        def each(fn):
            def post(r):
                rules = r.st.ghost.get("rules")
                if rules is None:
                    return z3.BoolVal(False)
                return z3.BoolVal(all(fn(name_of(n), p) for n, p in rules))
            return post

        c.ensures("a-delimiter-reaches-a-pattern-only-through-re.escape", each(lambda n, p: not occurrences(p, DELIMS)[0]))
        c.ensures("no-pattern-fragment-spells-a-default-delimiter", each(lambda n, p: not any(spelled(l) for l in occurrences(p, DELIMS)[2])))

        def reaches(r):
            seen = set()
            for _n, p in r.st.ghost.get("rules", []):
                seen |= occurrences(p, DELIMS)[1]
            return z3.BoolVal(set(live) <= seen)
        c.ensures("every-configured-delimiter-reaches-the-rules", reaches)

        def roles(r):
            """each rule is opened and closed by the delimiters of its own kind: the first and
            last delimiter occurrence of the pattern"""
            want = {"RAW": ("tag_start_string", "tag_end_string"), "DOC": ("tag_start_string", "tag_end_string"), "TAG": ("tag_start_string", "tag_end_string"),
                    "OUTPUT": ("statement_start_string", "statement_end_string"), "COMMENT": ("comment_start_string", "comment_end_string")}
            ok = True
            names = []
            for n, p in r.st.ghost.get("rules", []):
                n = name_of(n)
                names.append(n)
                seq = []

                def walk(t):
                    if z3.is_app(t) and t.decl().name() == "re_escape":
                        seq.append(t.arg(0).decl().name())
                        return
                    for a in t.children():
                        walk(a)
                walk(p)
                key = n.upper()
                if key in want:
                    ok = ok and bool(seq) and (seq[0], seq[-1]) == want[key] and set(seq) <= set(want[key])
                elif "CONTENT" in key.upper():
                    ok = ok and set(seq) == ({"tag_start_string", "statement_start_string"} | ({"comment_start_string"} if comments else set()))
            must = {"RAW", "DOC", "TAG", "OUTPUT", "CONTENT"} | ({"COMMENT"} if comments else set())
            return z3.BoolVal(ok and must <= {x.upper() for x in names})
        c.ensures("each-rule-is-delimited-by-its-own-kind-of-delimiter", roles)

        def flat(t):
            """the pattern as text with `{parameter}` for re.escape(parameter)"""
            if z3.is_string_value(t):
                return t.as_string()
            if z3.is_app(t) and t.decl().name() == "re_escape" and z3.is_const(t.arg(0)):
                return "{" + t.arg(0).decl().name() + "}"
            if z3.is_app(t) and t.decl().kind() == z3.Z3_OP_SEQ_CONCAT:
                return "".join(flat(a) for a in t.children())
            return "<?>"

        def content_shape(r):
            """whitespace control means the same whatever the delimiters and whether or not comments are enabled:
            a text run ends before ANY configured opening delimiter, and the optional hyphen that strips the run's
            trailing whitespace is looked for after every one of them (one group around the whole alternation)"""
            import re as _re
            opening = {"tag_start_string", "statement_start_string"} | ({"comment_start_string"} if comments else set())
            found = False
            ok = True
            for n, p in r.st.ghost.get("rules", []):
                if "CONTENT" not in name_of(n).upper():
                    continue
                found = True
                m_ = _re.search(r"\(\?=\(\(((?:\{\w+\}\|)+\{\w+\})\)\(\?P<rstrip>-\?\)\)\|\\Z\)$", flat(p))
                ok = ok and m_ is not None and set(_re.findall(r"\{(\w+)\}", m_.group(1))) == opening
            return z3.BoolVal(found and ok)
        c.ensures("the-text-rule-looks-for-the-whitespace-control-hyphen-after-every-opening-delimiter", content_shape)
        c.cover("rules-built", lambda r: z3.BoolVal(bool(r.st.ghost.get("rules"))))
        c.assume_note("re.escape(s) is a pattern that matches exactly the text s (DESIGN 3); uninterpreted here")
        c.assume_note("rule names are compared case-insensitively with the token kinds OUTPUT/CONTENT of liquid.token")
        c.replay("code", code=REPLAY_RULES)


def record_call(tag):
    def summ(eng, st, args, kwargs):
        st.ghost[tag] = (list(args), dict(kwargs))
        return [(st, VConst((tag,)))]
    return summ


@contract(f"{LEX}:get_lexer", prop="C11", name="get_lexer")
def gl(c):
    ps = [c.str(n) for n in DELIMS]
    c.summary(f"{LEX}:compile_liquid_rules", record_call("rules"))
    c.ok_decorators.add("lru_cache")
    c.call(*ps)
    callee = load.get_module(LEX).funcs["compile_liquid_rules"]
    names = [a.arg for a in callee.args.args]

    def post(r):
        args, kw = r.st.ghost.get("rules", ([], {}))
        got = dict(zip(names, args))
        got.update(kw)
        return z3.BoolVal(set(got) == set(DELIMS)) if set(got) != set(DELIMS) else z3.And(*[unbox_str(got[n]) == p.t for n, p in zip(DELIMS, ps)])
    c.ensures("every-delimiter-is-passed-to-the-rule-compiler-parameter-of-the-same-name", post)

    def post2(r):
        v = r.value
        if not (isinstance(v, VConst) and isinstance(v.py, tuple) and v.py[0] == "partial"):
            return z3.BoolVal(False)
        _p, f, pos, kws = v.py
        kws = dict(kws)
        ok = isinstance(f, VFunc) and f.qual == "_tokenize_template" and not pos and kws.get("rules") == VConst(("rules",))
        if not ok:
            return z3.BoolVal(False)
        # the unclosed-markup check is given this configuration's opening/closing strings
        conj = []
        for n, p in zip(DELIMS[:4], ps[:4]):
            if n not in kws:
                return z3.BoolVal(False)
            conj.append(unbox_str(kws[n]) == p.t)
        return z3.And(*conj)
    c.ensures("the-lexer-is-the-tokenizer-bound-to-exactly-these-rules-and-delimiters", post2)
    c.assume_note("functools.lru_cache keys on all positional and keyword arguments (hash and ==): equal keys give the stored result of an earlier call with equal arguments")
    c.replay("code", code=REPLAY_RULES)


@contract("liquid.environment:Environment.tokenizer", prop="C11", name="Environment.tokenizer")
def tk(c):
    fields = {n: c.str("self." + n) for n in DELIMS}
    env = c.obj("liquid.environment:Environment", "env", **fields)
    c.summary(f"{LEX}:get_lexer", record_call("lexer"))
    c.call(self_val=env)
    callee = load.get_module(LEX).funcs["get_lexer"]
    names = [a.arg for a in callee.args.args]

    def post(r):
        args, kw = r.st.ghost.get("lexer", ([], {}))
        got = dict(zip(names, args))
        got.update(kw)
        if set(got) != set(DELIMS):
            return z3.BoolVal(False)
        return z3.And(*[unbox_str(got[n]) == fields[n].t for n in DELIMS])
    c.ensures("the-environments-own-delimiters-are-passed-to-get_lexer-in-the-right-positions", post)
    c.replay("code", code=REPLAY_RULES)


for comments in (False, True):
    @contract("liquid.builtin.tags.liquid_tag:LiquidTag.__init__", prop="C11", name=f"LiquidTag.__init__[comments={comments}]")
    def lt(c, comments=comments):
        cs = c.str("comment_start_string")
        env = c.obj("liquid.environment:Environment", "env", comment_start_string=cs)
        self = c.obj("liquid.builtin.tags.liquid_tag:LiquidTag", "self")
        stripped = z3.Function("str_replace", S, S, S, S)(cs.t, z3.StringVal("{"), z3.StringVal(""))
        c.summary("liquid.builtin.tags.liquid_tag:_compile_rules", compile_summary)
        c.summary("liquid.tag:Tag.__init__", lambda eng, st, args, kwargs: (st.deref(args[0]).fields.__setitem__("env", args[1]), [(st, NONE)])[1])
        c.call(env, self_val=self)

        def post(r):
            rules = r.st.ghost.get("rules")
            if not rules:
                return z3.BoolVal(False)
            ok = True
            for _n, p in rules:
                raw, _esc, _l = occurrences(p, {"comment_start_string"})
                # the marker may only enter the pattern as re.escape(<marker>)
                def walk(t, under):
                    nonlocal ok
                    if z3.is_const(t) and t.decl().kind() == z3.Z3_OP_UNINTERPRETED and t.decl().name() == "comment_start_string" and not under:
                        ok = False
                    if z3.is_app(t):
                        for a in t.children():
                            walk(a, under or t.decl().name() == "re_escape")
                walk(p, False)
            return z3.BoolVal(ok)
        c.ensures("the-comment-marker-reaches-the-pattern-only-through-re.escape", post)

        def post2(r):
            v = r.st.deref(self).fields.get("_tokenize")
            if not (isinstance(v, VConst) and isinstance(v.py, tuple) and v.py[0] == "partial"):
                return z3.BoolVal(False)
            kws = dict(v.py[3])
            return z3.BoolVal("comment_start_string" in kws and kws.get("rules") == VConst(("pattern",)))
        c.ensures("the-tokenizer-is-stored-on-this-tag-instance-only", post2)

        def post3(r):
            # configuring comment delimiters must not change which tag names a line of a liquid tag
            # may start with: the line rule accepts `#` (the inline comment tag) and \w+ in both variants
            import re as _re
            rules = r.st.ghost.get("rules") or []
            for n_, p_ in rules:
                if name_of(n_) != "LIQUID_EXPR":
                    continue
                parts = []

                def flat(t):
                    t = z3.simplify(t) if z3.is_string_value(z3.simplify(t)) else t
                    if z3.is_string_value(t):
                        from pyvc.solve import _unescape
                        parts.append(_unescape(t.as_string()))
                    elif z3.is_app(t) and t.decl().kind() == z3.Z3_OP_SEQ_CONCAT:
                        for a in t.children():
                            flat(a)
                    else:
                        parts.append("\0")
                flat(p_)
                text = "".join(parts)
                m_ = _re.search(r"\(\?P<name>(.*?)\)\[", text)
                if not m_:
                    return z3.BoolVal(False)
                alts = m_.group(1).strip("()").split("|")
                # ... and a marker made of letters ("{c" -> c) must not split a word: regex alternation is
                # ordered, so the word alternative has to be tried before the marker
                ordered = "\0" not in alts or ("\\w+" in alts and alts.index("\\w+") < alts.index("\0"))
                return z3.BoolVal("#" in alts and "\\w+" in alts and ordered)
            return z3.BoolVal(False)
        c.ensures("a-liquid-tag-line-may-start-with-#-or-a-whole-word-whatever-the-comment-delimiters", post3)
        c.assume_note("str.replace is uninterpreted here; the marker is comment_start_string with every '{' removed, by design (the property's mechanism list)")
        c.replay("code", code=REPLAY_RULES)


# ------------------------------------------------------------------ memo tables


@structural("C11", "memo-keys")
def memo_keys():
    obs = []
    # get_lexer / get_parser / get_implicit_environment read nothing but their parameters
    for m, fname, allowed in ((LEX, "get_lexer", {"compile_liquid_rules", "partial", "_tokenize_template"}),
                              ("liquid.parser", "get_parser", {"Parser"}),
                              ("liquid.environment", "get_implicit_environment", {"Environment"})):
        mod = load.get_module(m)
        fn = mod.funcs[fname]
        params = {a.arg for a in fn.args.args + fn.args.kwonlyargs}
        names = {n.id for s in fn.body for n in ast.walk(s) if isinstance(n, ast.Name)}
        assigned = {t.id for s in ast.walk(fn) if isinstance(s, ast.Assign) for t in s.targets if isinstance(t, ast.Name)}
        extra = names - params - allowed - assigned
        obs.append(flow.ob(f"{fname}:memoised-body-reads-only-its-parameters", not extra, f"other names read: {sorted(extra)}", replay_schema="code", replay_extra={"code": REPLAY_MEMO}))
        deco = [ast.unparse(d) for d in fn.decorator_list]
        obs.append(flow.ob(f"{fname}:memoised-by-functools.lru_cache-only", all(d.startswith("lru_cache") for d in deco), str(deco)))
        inner = [n for n in ast.walk(fn) if isinstance(n, (ast.Global, ast.Nonlocal))]
        obs.append(flow.ob(f"{fname}:no-inner-memo-table", not inner, ""))
    # get_implicit_environment forwards every parameter to the same-named parameter of Environment
    mod = load.get_module("liquid.environment")
    gie = mod.funcs["get_implicit_environment"]
    call = [c for c in flow.calls(gie) if flow.dotted(c.func) == "Environment"]
    ok = len(call) == 1 and not call[0].args and all(isinstance(k.value, ast.Name) and k.value.id == k.arg for k in call[0].keywords) and {k.arg for k in call[0].keywords} == {a.arg for a in gie.args.kwonlyargs}
    obs.append(flow.ob("get_implicit_environment:every-key-component-configures-the-environment-parameter-of-the-same-name", ok, "", replay_schema="code", replay_extra={"code": REPLAY_MEMO}))
    init = load.find_method("liquid.environment", "Environment", "__init__")[2]
    obs.append(flow.ob("get_implicit_environment:key-covers-every-Environment-parameter", {a.arg for a in gie.args.kwonlyargs} == {a.arg for a in init.args.kwonlyargs}, ""))
    tfn = mod.funcs["Template"]
    call = [c for c in flow.calls(tfn) if flow.dotted(c.func) == "get_implicit_environment"]
    passthrough = {a.arg for a in tfn.args.kwonlyargs} - {"globals"}
    ok = len(call) == 1 and not call[0].args and all((isinstance(k.value, ast.Name) and k.value.id == k.arg) or (k.arg in ("loader", "globals") and isinstance(k.value, ast.Constant) and k.value.value is None) for k in call[0].keywords) \
        and passthrough <= {k.arg for k in call[0].keywords if isinstance(k.value, ast.Name)}
    obs.append(flow.ob("Template:every-configuration-argument-is-part-of-the-implicit-environment-key", ok, "", replay_schema="code", replay_extra={"code": REPLAY_MEMO}))
    # get_parser is keyed by identity: Environment (and bases) define __hash__ but never __eq__
    eqs = [f"{m}.{c}" for m, c in load.mro("liquid.environment", "Environment") if m.startswith("liquid") and any(isinstance(n, ast.FunctionDef) and n.name == "__eq__" for n in load.get_module(m).classes[c].body)]
    obs.append(flow.ob("get_parser:environments-compare-by-identity(no-__eq__)", not eqs, str(eqs), replay_schema="code", replay_extra={"code": REPLAY_MEMO}))
    pmod = load.get_module("liquid.parser")
    pinit = load.find_method("liquid.parser", "Parser", "__init__")[2]
    stores = [ast.unparse(s) for s in pinit.body if not (isinstance(s, ast.Expr) and isinstance(s.value, ast.Constant))]
    obs.append(flow.ob("Parser:holds-only-its-own-environment", stores == ["self.env = env"], str(stores)))
    # Parser methods consult tags/mode only through self.env
    bad = []
    for fn in [n for n in pmod.classes["Parser"].body if isinstance(n, ast.FunctionDef)]:
        params = {a.arg for a in fn.args.args}
        local = {t.id for s in ast.walk(fn) if isinstance(s, (ast.Assign, ast.AnnAssign)) for t in (s.targets if isinstance(s, ast.Assign) else [s.target]) if isinstance(t, ast.Name)}
        local |= {h.name for h in ast.walk(fn) if isinstance(h, ast.ExceptHandler) and h.name}
        import builtins as _b
        for n in ast.walk(fn):
            if isinstance(n, ast.Name) and n.id not in params | local and n.id not in pmod.imports and n.id not in pmod.classes and n.id not in pmod.funcs and not hasattr(_b, n.id):
                bad.append(f"{fn.name}:{n.id}")
    obs.append(flow.ob("Parser:methods-read-no-state-outside-self.env-and-the-stream", not bad, str(bad)))
    return obs


# ------------------------------------------------------------------ isolation of environments


@structural("C11", "environment-frame")
def env_frame():
    obs = []
    emod = load.get_module("liquid.environment")
    init = load.find_method("liquid.environment", "Environment", "__init__")[2]
    # __init__ stores each delimiter parameter in the attribute of the same name
    stored = {}
    for s in ast.walk(init):
        if isinstance(s, ast.Assign) and len(s.targets) == 1 and isinstance(s.targets[0], ast.Attribute) and flow.dotted(s.targets[0].value) == "self":
            stored.setdefault(s.targets[0].attr, []).append(ast.unparse(s.value))
    for d in DELIMS[:4]:
        obs.append(flow.ob(f"Environment.__init__:{d}-is-stored-unchanged", stored.get(d) == [d], str(stored.get(d))))
    for d in DELIMS[4:]:
        obs.append(flow.ob(f"Environment.__init__:{d}-is-stored-or-cleared-when-template-comments-are-off", stored.get(d) == [d, "''"], str(stored.get(d))))
    # registration writes only the environment being set up
    for m, fname in (("liquid.builtin", "register"), ("liquid.extra", "register_extra_tags_and_filters"), ("liquid.extra", "add_tags"), ("liquid.extra", "add_filters"),
                     ("liquid.extra", "add_tags_and_filters"), ("liquid.extra", "add_inheritance_tags"), ("liquid.extra", "add_macro_tags"), ("liquid.extra", "add_expression_tags")):
        try:
            mod = load.get_module(m)
        except load.TargetMissing:
            continue
        fn = mod.funcs.get(fname)
        if fn is None:
            continue
        envp = fn.args.args[0].arg
        bad = []
        for s in fn.body:
            if isinstance(s, ast.Expr) and isinstance(s.value, ast.Constant):
                continue
            txt = ast.unparse(s)
            if isinstance(s, ast.Expr) and isinstance(s.value, ast.Call) and (flow.dotted(s.value.func) in (f"{envp}.add_tag", f"{envp}.add_filter") or (flow.dotted(s.value.func) in mod.funcs and [ast.unparse(a) for a in s.value.args] == [envp])):
                continue
            if isinstance(s, ast.Assign) and all(isinstance(t, ast.Subscript) and flow.dotted(t.value) in (f"{envp}.tags", f"{envp}.filters") for t in s.targets):
                continue
            bad.append(txt[:60])
        obs.append(flow.ob(f"{m}.{fname}:writes-only-the-tag-and-filter-tables-of-the-environment-being-configured", not bad, str(bad)))
    amod = load.get_module("liquid.environment")
    for meth, table in (("add_tag", "tags"), ("add_filter", "filters")):
        fn = load.find_method("liquid.environment", "Environment", meth)[2]
        body = [ast.unparse(s) for s in fn.body if not (isinstance(s, ast.Expr) and isinstance(s.value, ast.Constant))]
        obs.append(flow.ob(f"Environment.{meth}:writes-only-self.{table}", len(body) == 1 and body[0].startswith(f"self.{table}["), str(body)))
    ok = any("self.tags: dict[str, Tag] = {}" in ast.unparse(s) for s in init.body) and any("self.filters" in ast.unparse(s) and ast.unparse(s).endswith("= {}") for s in init.body)
    obs.append(flow.ob("Environment.__init__:tag-and-filter-tables-are-fresh-per-environment", ok, ""))
    # every tag object holds the environment it was created for and no class-level mutable state
    n = 0
    for m, cname, cnode in flow.tag_classes():
        n += 1
        shared = [ast.unparse(s)[:50] for s in cnode.body if isinstance(s, (ast.Assign, ast.AnnAssign)) and isinstance(getattr(s, "value", None), (ast.Dict, ast.List, ast.Set, ast.ListComp, ast.DictComp))]
        obs.append(flow.ob(f"{cname}:no-class-level-mutable-state", not shared, str(shared)))
        init_ = next((x for x in cnode.body if isinstance(x, ast.FunctionDef) and x.name == "__init__"), None)
        if init_ is not None:
            writes = [ast.unparse(t) for s in ast.walk(init_) if isinstance(s, (ast.Assign, ast.AugAssign, ast.AnnAssign)) for t in (s.targets if isinstance(s, ast.Assign) else [s.target])
                      if not (isinstance(t, ast.Name) or (isinstance(t, ast.Attribute) and flow.dotted(t.value) == "self"))]
            obs.append(flow.ob(f"{cname}.__init__:writes-only-its-own-instance", not writes, str(writes)))
    obs.append(flow.ob("tag-classes-found", n >= 10, f"{n} tag classes"))
    tag_init = load.find_method("liquid.tag", "Tag", "__init__")[2]
    obs.append(flow.ob("Tag.__init__:binds-the-creating-environment", [ast.unparse(s) for s in tag_init.body if not (isinstance(s, ast.Expr) and isinstance(s.value, ast.Constant))] == ["self.env = env"], ""))
    # the tokenizer and the liquid-tag tokenizer decide nothing on a literal default delimiter
    for m, fname in ((LEX, "_tokenize_template"), ("liquid.builtin.tags.liquid_tag", "_tokenize_liquid_expression")):
        fn = load.get_module(m).funcs[fname]
        lits = sorted({d for c in ast.walk(fn) if isinstance(c, ast.Constant) and isinstance(c.value, str) and c not in [x for a in (fn.args.defaults + fn.args.kw_defaults) if a is not None for x in ast.walk(a)]
                       for d in DEFAULT_DELIMS if d in c.value and not (isinstance(c.value, str) and c is getattr(fn.body[0], "value", None))})
        obs.append(flow.ob(f"{fname}:no-decision-on-a-literal-default-delimiter", not lits, str(lits), replay_schema="code", replay_extra={"code": REPLAY_LITERAL}))
    return obs


not_covered("C11", "that the compiled regular expressions delimit markup as intended for the configured strings (laziness, look-ahead and alternation priority of `re` are not modelled): bounded delimiter-rewrite check",
            "the liquid tag's comment marker strips every '{' from comment_start_string by design (listed mechanism); the bounded check rewrites the marker accordingly",
            "tags and filters registered by user code on an environment")

bounded("C11", "bounded/C11.py")

REPLAY_RULES = r'''
def run(m):
    import re
    from liquid import Environment
    # a delimiter set made of regex metacharacters, rendered against the default syntax
    d = dict(tag_start_string="(*", tag_end_string="*)", statement_start_string="[.", statement_end_string=".]")
    src = "a {% if x %}{{ x }}{% endif %} b"
    want = Environment().from_string(src).render(x=1)
    alt = src.replace("{%", "(*").replace("%}", "*)").replace("{{", "[.").replace("}}", ".]")
    try:
        got = Environment(**d).from_string(alt).render(x=1)
    except Exception as e:
        got = f"{type(e).__name__}: {e}"
    # a liquid tag with an inline comment line, in environments with and without comment delimiters
    lsrc = "{% liquid\n# note\necho 'a'\n%}"
    outs = {}
    for name, kw in (("default", {}), ("comments", dict(template_comments=True)), ("custom-comments", dict(template_comments=True, comment_start_string="/*", comment_end_string="*/"))):
        try:
            outs[name] = Environment(**kw).from_string(lsrc).render()
        except Exception as e:
            outs[name] = f"{type(e).__name__}"
    # whitespace control before a tag / an output statement, with and without comment delimiters configured
    wsrc = "a \n {%- if x %} b {% endif %} c \t{{- x }} d"
    ws = {}
    for name, kw, rw in (("default", {}, {}), ("comments", dict(template_comments=True), {}),
                         ("custom-comments", dict(template_comments=True, comment_start_string="/*", comment_end_string="*/", tag_start_string="<%", tag_end_string="%>"), {"{%": "<%", "%}": "%>"})):
        text = wsrc
        for a, b in rw.items():
            text = text.replace(a, b)
        try:
            ws[name] = Environment(**kw).from_string(text).render(x=1)
        except Exception as e:
            ws[name] = f"{type(e).__name__}"
    return {"violated": got != want or len(set(outs.values())) != 1 or len(set(ws.values())) != 1, "observed": {"default": want, "custom": got, "liquid-tag": outs, "whitespace-control": ws}}
'''

REPLAY_MEMO = r'''
def run(m):
    from liquid import Environment, Mode
    a = Environment(tolerance=Mode.LAX)
    b = Environment(tolerance=Mode.STRICT)
    ra = a.from_string("{% nosuch %}x").render()
    try:
        rb = b.from_string("{% nosuch %}x").render()
    except Exception as e:
        rb = type(e).__name__
    return {"violated": not (ra == "x" and rb == "LiquidSyntaxError"), "observed": [ra, rb]}
'''

REPLAY_LITERAL = r'''
def run(m):
    from liquid import Environment
    e = Environment(statement_start_string="[[", statement_end_string="]]", tag_start_string="[%", tag_end_string="%]")
    out = []
    for src in ("{{ text", "{% text"):
        try:
            out.append(e.from_string(src).render())
        except Exception as ex:
            out.append(type(ex).__name__)
    return {"violated": out != ["{{ text", "{% text"], "observed": out}
'''
