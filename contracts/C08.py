"""C08 -- resource limits only abort a render, never alter its output.

Two-run (relational) obligations per limit-reading kernel: run U with the limit unset, run L
with an arbitrary value; if L returns then U and L agree on result and heap (modulo the
limit bookkeeping fields, shown to flow only into the guards), and if L raises it raises a
ResourceLimitError; monotonicity between two values L1 < L2."""
import ast

import z3

from contracts.common import *  # noqa: F403
from pyvc import flow, load
from pyvc.contract import contract
from pyvc.run import bounded, not_covered, structural
from pyvc.state import *  # noqa: F403
from pyvc.u import *  # noqa: F403

BOOKKEEPING = {"loop_iteration_limit", "local_namespace_limit", "output_stream_limit", "context_depth_limit", "block_nesting_limit", "limit", "size", "loop_iteration_carry", "local_namespace_size_carry", "_copy_depth", "block_depth", "parent_context"}


def same(eng, sa, va, sb, vb, seen=None, depth=0):
    """z3 formula: value va in state sa equals vb in sb (structurally, ignoring bookkeeping)"""
    seen = seen if seen is not None else set()
    if depth > 8:
        return z3.BoolVal(True)
    if isinstance(va, VRef) and isinstance(vb, VRef):
        if (va.addr, vb.addr) in seen:
            return z3.BoolVal(True)
        seen.add((va.addr, vb.addr))
        ha, hb = sa.deref(va), sb.deref(vb)
        if type(ha) is not type(hb):
            # StringIO vs LimitedStringIO are both output buffers: compare their text
            if isinstance(ha, HObj) and isinstance(hb, HObj) and "__text__" in ha.fields and "__text__" in hb.fields:
                return ha.fields["__text__"].t == hb.fields["__text__"].t
            return z3.BoolVal(False)
        if isinstance(ha, HObj):
            if ha.cls != hb.cls and not ("__text__" in ha.fields and "__text__" in hb.fields):
                return z3.BoolVal(False)
            conj = []
            for k in set(ha.fields) | set(hb.fields):
                if k in BOOKKEEPING:
                    continue
                if k not in ha.fields or k not in hb.fields:
                    if "__text__" in ha.fields:
                        continue
                    return z3.BoolVal(False)
                conj.append(same(eng, sa, ha.fields[k], sb, hb.fields[k], seen, depth + 1))
            return z3.And(*conj) if conj else z3.BoolVal(True)
        if isinstance(ha, HList):
            if ha.items is not None and hb.items is not None:
                if len(ha.items) != len(hb.items):
                    return z3.BoolVal(False)
                return z3.And(*[same(eng, sa, x, sb, y, seen, depth + 1) for x, y in zip(ha.items, hb.items)]) if ha.items else z3.BoolVal(True)
            if ha.items is None and hb.items is None and len(ha.tail) == len(hb.tail):
                return z3.And(ha.seq == hb.seq, *[same(eng, sa, x, sb, y, seen, depth + 1) for x, y in zip(ha.tail, hb.tail)])
            return eng.list_seq(sa, va) == eng.list_seq(sb, vb)
        if isinstance(ha, HDict):
            if set(ha.items) != set(hb.items):
                return z3.BoolVal(False)
            conj = [same(eng, sa, ha.items[k], sb, hb.items[k], seen, depth + 1) for k in ha.items]
            if (ha.present is None) != (hb.present is None):
                return z3.BoolVal(False)
            if ha.present is not None:
                conj += [ha.present == hb.present, ha.val == hb.val]
            return z3.And(*conj) if conj else z3.BoolVal(True)
        if isinstance(ha, HDeque):
            if len(ha.items) != len(hb.items):
                return z3.BoolVal(False)
            return z3.And(*[same(eng, sa, x, sb, y, seen, depth + 1) for x, y in zip(ha.items, hb.items)]) if ha.items else z3.BoolVal(True)
        return z3.BoolVal(True)
    if isinstance(va, VRef) or isinstance(vb, VRef):
        return z3.BoolVal(False)
    if isinstance(va, VTuple) and isinstance(vb, VTuple):
        if len(va.items) != len(vb.items):
            return z3.BoolVal(False)
        return z3.And(*[same(eng, sa, x, sb, y, seen, depth + 1) for x, y in zip(va.items, vb.items)]) if va.items else z3.BoolVal(True)
    try:
        return box(va) == box(vb)
    except Unsupported:
        return z3.BoolVal(va == vb)


def two_run(name, target, limit_field, unlimited, mk_call, ok_errors, roots_fn=None, also_monotone=True, label=None):
    """register the abort-only and the monotone contracts for one kernel and one limit"""

    @contract(target, prop="C08", name=f"{label or name}[{limit_field}: abort-only]")
    def abort_only(c):
        env = mk_env(c)
        lim = c.st.deref(env).fields[limit_field]
        roots, args, kwargs, self_val = mk_call(c, env)
        def entry(eng, cc, func):
            outs = []
            base = cc.st
            sL = base.fork()
            from pyvc import state as _st
            mark = _st._addr.mark()
            resL = eng.run(func, sL, args, kwargs, self_val=self_val)
            end = _st._addr.mark()
            for s1, o1 in resL:
                if isinstance(o1, Raised):
                    outs.append((s1, o1))
                    continue
                sU = base.fork()
                sU.pc = list(s1.pc)
                uval = unlimited(c)
                if isinstance(uval, VInt):
                    sU.assume(uval.t >= 10**9)
                sU.deref(env).fields[limit_field] = uval
                _st._addr.reset(mark)
                resU = eng.run(func, sU, args, kwargs, self_val=self_val)
                _st._addr.reset(max(end, _st._addr.mark()))
                for s2, o2 in resU:
                    merged = s1.fork()
                    merged.pc = list(s2.pc)
                    merged.ghost["U"] = (s2, o2)
                    outs.append((merged, o1))
            return outs
        c.entry = entry
        def post(r):
            sU, oU = r.st.ghost["U"]
            if isinstance(oU, Raised):
                return z3.BoolVal(False)
            conj = [same(r.engine, r.st, r.value, sU, oU.val)]
            for root in roots:
                conj.append(same(r.engine, r.st, root, sU, root))
            return z3.And(*conj)
        c.ensures("limited-run-that-completes-equals-the-unlimited-run", post)
        c.raises(*ok_errors)
        c.ensures_exc("a-limit-only-ever-raises-its-ResourceLimitError", lambda r: z3.BoolVal(r.engine.is_subclass(r.exc.cls, "ResourceLimitError")))
        c.replay("code", code=REPLAY)

    if also_monotone:
        @contract(target, prop="C08", name=f"{label or name}[{limit_field}: monotone]")
        def monotone(c):
            env = mk_env(c)
            l2 = c.st.deref(env).fields[limit_field]
            l1 = c.int("smaller_limit")
            l2t = l2.t if isinstance(l2, VInt) else U.i(l2.t)
            if not isinstance(l2, VInt):
                c.requires(U.is_int(l2.t), "both limits set")
            c.requires(z3.And(l1.t >= 0, l1.t < l2t), "0 <= L1 < L2")
            roots, args, kwargs, self_val = mk_call(c, env)
            def entry(eng, cc, func):
                outs = []
                base = cc.st
                s_small = base.fork()
                s_small.deref(env).fields[limit_field] = l1
                for s1, o1 in eng.run(func, s_small, args, kwargs, self_val=self_val):
                    if isinstance(o1, Raised):
                        continue
                    s_big = base.fork()
                    s_big.pc = list(s1.pc)
                    for s2, o2 in eng.run(func, s_big, args, kwargs, self_val=self_val):
                        merged = s1.fork()
                        merged.pc = list(s2.pc)
                        outs.append((merged, o2 if isinstance(o2, Raised) else Ret(VTuple((o1.val,)))))
                return outs
            c.entry = entry
            c.ensures("success-under-L1-implies-success-under-larger-L2", lambda r: z3.BoolVal(True))
            c.raises()  # any raise under L2 after success under L1 refutes monotonicity
            c.replay("code", code=REPLAY)


def _unset(c):
    return NONE


def _big(c):
    return c.int("unlimited_depth")


def call_raise_for_loop_limit(c, env):
    ctx = mk_ctx(c, env)
    return [ctx], [c.int("length")], {}, ctx


def call_assign(c, env):
    ctx = mk_ctx(c, env)
    return [ctx], [c.str("key"), c.any("val")], {}, ctx


def call_copy(c, env):
    ctx = mk_ctx(c, env)
    c.requires(c.st.deref(ctx).fields["_copy_depth"].t < 10**6, "copy depth is far below the stand-in for 'unlimited' (10**9)")
    return [ctx], [c.dict("namespace")], {"carry_loop_iterations": c.bool("carry"), "block_scope": c.bool("block_scope")}, ctx


def call_get_buffer(c, env):
    ctx = mk_ctx(c, env)
    buf = c.obj(LSIO, "parent_buffer", limit=c.int("buf_limit"), size=c.int("buf_size"), __text__=c.str("buf_text"))
    return [ctx], [buf], {}, ctx


def call_get_buffer_plain(c, env):
    ctx = mk_ctx(c, env)
    buf = c.obj("liquid.output:NullIO", "null_buffer", __text__=c.str("buf_text"))
    return [ctx], [buf], {}, ctx


def call_template_get_buffer(c, env):
    t = c.obj(TEMPLATE, "template", env=env)
    return [], [], {}, t


two_run("raise_for_loop_limit", CTX + ".raise_for_loop_limit", "loop_iteration_limit", _unset, call_raise_for_loop_limit, ["LoopIterationLimitError"])
two_run("assign", CTX + ".assign", "local_namespace_limit", _unset, call_assign, ["LocalNamespaceLimitError"])
two_run("copy", CTX + ".copy", "context_depth_limit", _big, call_copy, ["ContextDepthError"])
two_run("copy", CTX + ".copy", "local_namespace_limit", _unset, call_copy, ["ContextDepthError"], also_monotone=False)
two_run("get_buffer", CTX + ".get_buffer", "output_stream_limit", _unset, call_get_buffer, [], also_monotone=False)
two_run("get_buffer", CTX + ".get_buffer", "output_stream_limit", _unset, call_get_buffer_plain, [], also_monotone=False, label="get_buffer[parent is a NullIO]")
two_run("_get_buffer", TEMPLATE + "._get_buffer", "output_stream_limit", _unset, call_template_get_buffer, [], also_monotone=False)


@contract(LSIO + ".write", prop="C08", name="LimitedStringIO.write[limit: abort-only + monotone]")
def write_two_limits(c):
    text, s = c.str("text"), c.str("s")
    size, l1, l2 = c.int("size"), c.int("limit1"), c.int("limit2")
    c.requires(l1.t < l2.t, "L1 < L2")
    b1 = c.obj(LSIO, "buf1", limit=l1, size=size, __text__=text)
    b2 = c.obj(LSIO, "buf2", limit=l2, size=size, __text__=text)
    def entry(eng, cc, func):
        outs = []
        for s1, o1 in eng.run(func, cc.st, [s], {}, self_val=b1):
            if isinstance(o1, Raised):
                continue
            for s2, o2 in eng.run(func, s1, [s], {}, self_val=b2):
                outs.append((s2, o2 if isinstance(o2, Raised) else Ret(VTuple((o1.val, o2.val)))))
        return outs
    c.entry = entry
    c.ensures("same-text-and-return-under-both-limits", lambda r: z3.And(r.st.deref(b1).fields["__text__"].t == r.st.deref(b2).fields["__text__"].t, box(r.value.items[0]) == box(r.value.items[1])))
    c.raises()
    c.replay("code", code=REPLAY)


def _extend_two(limit_name):
    @contract(CTX + ".extend", prop="C08", name=f"extend[{limit_name}: monotone + abort-only]")
    def ext(c):
        env = mk_env(c)
        ctx = mk_ctx(c, env)
        l2 = c.st.deref(env).fields["context_depth_limit"]
        l1 = c.int("smaller_limit")
        c.requires(l1.t < l2.t, "L1 < L2")
        ns = c.dict("namespace")
        def entry(eng, cc, func):
            outs = []
            base = cc.st
            s_small = base.fork()
            s_small.deref(env).fields["context_depth_limit"] = l1
            for s1, o1 in run_with(eng, s_small, eng.call_function(s_small, func, [ns], {}, self_val=ctx)):
                if isinstance(o1, Raised):
                    continue
                s_big = base.fork()
                s_big.pc = list(s1.pc)
                for s2, o2 in run_with(eng, s_big, eng.call_function(s_big, func, [ns], {}, self_val=ctx)):
                    merged = s2.fork()
                    merged.ghost["small"] = s1
                    outs.append((merged, o2))
            return outs
        c.entry = entry
        def post(r):
            s1 = r.st.ghost["small"]
            p1, p2 = s1.ghost.get("probes", []), r.st.ghost.get("probes", [])
            if len(p1) != 1 or len(p2) != 1:
                return z3.BoolVal(False)
            f1 = p1[0].deref(p1[0].deref(p1[0].deref(ctx).fields["scope"]).fields["_maps"]).items
            f2 = p2[0].deref(p2[0].deref(p2[0].deref(ctx).fields["scope"]).fields["_maps"]).items
            return z3.BoolVal(f1 == f2)
        c.ensures("block-sees-the-same-scope-under-both-limits", post)
        c.raises()
        c.replay("code", code=REPLAY)


_extend_two("context_depth_limit")


@structural("C08", "limit-guards")
def limit_guards():
    """every read of a limit attribute only guards a `raise <ResourceLimitError>` (or sizes a
    buffer / short-circuits the measurement when unset): limits cannot steer rendering"""
    LIMITS = ("loop_iteration_limit", "local_namespace_limit", "output_stream_limit", "context_depth_limit", "block_nesting_limit")
    exc = load.exception_hierarchy()
    obs = []
    n = 0
    for m in load.all_modules():
        mod = load.get_module(m)
        pm = flow.parents(mod.tree)
        for node in ast.walk(mod.tree):
            if not (isinstance(node, ast.Attribute) and node.attr in LIMITS and isinstance(node.ctx, ast.Load)):
                continue
            n += 1
            fns = flow.enclosing(pm, node, (ast.FunctionDef, ast.AsyncFunctionDef))
            fn = fns[0].name if fns else "?"
            where = f"{m}:{fn}@{node.lineno}:{node.attr}"
            ok = False
            detail = ""
            for anc in flow.enclosing(pm, node, (ast.If,)):
                if any(node is x for x in ast.walk(anc.test)):
                    last = anc.body[-1] if anc.body else None
                    # `if <limit set>: if <measure> > <limit>: ...; raise` is the same guard as
                    # `if <limit set> and <measure> > <limit>: ...; raise`
                    while isinstance(last, ast.If) and not last.orelse and not anc.orelse and len(anc.body) == 1 and last.body:
                        anc, last = last, last.body[-1]
                    if isinstance(last, ast.Raise) and last.exc is not None:
                        cls = flow.dotted(last.exc.func) if isinstance(last.exc, ast.Call) else flow.dotted(last.exc)
                        ok = "ResourceLimitError" in exc.get(cls, []) and not anc.orelse
                        detail = f"guards raise {cls}"
                    elif isinstance(last, ast.Return) and fn in ("get_size_of_locals", "get_buffer", "_get_buffer"):
                        ok = True
                        detail = f"unset limit short-circuits in {fn}"
                    elif len(anc.body) == 1 and isinstance(last, ast.Return) and last.value is None and not anc.orelse and flow.dotted(anc.test).replace(" ", "").endswith(node.attr + "isNone"):
                        # `if <limit> is None: return` in a procedure: an unset limit skips the check
                        ok = True
                        detail = "unset limit skips the guard (bare return)"
                    break
            if not ok and fn in ("get_buffer", "_get_buffer"):
                par = pm.get(node)
                while par is not None and not isinstance(par, ast.Call):
                    par = pm.get(par)
                if par is not None and flow.dotted(par.func) == "LimitedStringIO":
                    ok, detail = True, "budget of a LimitedStringIO"
            obs.append(flow.ob(f"{where}:limit-read-only-guards-abort", ok, detail, replay_schema="code", replay_extra={"code": REPLAY}))
    obs.append(flow.ob("limit-reads-found", n >= 4, f"{n} limit reads"))
    return obs


parse_block_guard_contract("C08", lambda: REPLAY_NESTING)

REPLAY_NESTING = r'''
def run(m):
    from liquid import Environment, Mode
    from liquid.exceptions import LiquidError, BlockNestingError
    bad = []
    for depth in (40, 700):
        src = "{% if true %}" * depth + "x" + "{% endif %}" * depth
        for mode in (Mode.LAX, Mode.WARN):
            import warnings
            with warnings.catch_warnings():
                warnings.simplefilter("ignore")
                try:
                    Environment(tolerance=mode).from_string(src).render()
                except BaseException as e:
                    bad.append((depth, mode.name, type(e).__name__))
        try:
            Environment().from_string(src)
            bad.append((depth, "STRICT", "parsed"))
        except BlockNestingError:
            pass
        except BaseException as e:
            bad.append((depth, "STRICT", type(e).__name__))
    return {"violated": bool(bad), "observed": bad[:4], "witness": "nesting-guard"}
'''

not_covered("C08", "wall-clock / memory limits (none exist)", "Parser.parse_block's block-nesting guard is covered by the structural limit-guards obligation and the bounded sweep, not by a two-run contract (token-stream loop)")

bounded("C08", "bounded/C08.py")

REPLAY = r'''
def run(m):
    from bounded.C08 import run as brun
    r = brun("quick", 0)
    v = r["violations"]
    w = v[0]["witness"] if v else "limits"
    if m and m.get("smaller_limit") == 0:
        w = "L1==0"
    return {"failing": bool(v), "witness": w, "call": v[0]["source"] if v else "limit sweep", "result": v[0]["got"] if v else "ok"}
'''


# ---- "a limit only ever aborts the render": a ResourceLimitError raised while a path is resolved
# ---- (e.g. {{ block.super }} renders the parent block under the limits) leaves get / get_async as
# ---- that error -- it is never turned into an undefined value, which would ALTER the output

REPLAY_SUPER_LIMIT = r'''
def run(m):
    import asyncio
    from liquid import Environment, DictLoader
    from liquid.exceptions import ResourceLimitError
    src = {"base": "{% block b %}" + "x" * 40 + "{% endblock %}", "child": "{% extends 'base' %}{% block b %}[{{ block.super }}]{% endblock %}"}
    full = Environment(extra=True, loader=DictLoader(src)).get_template("child").render()
    bad = []
    for limit in range(0, len(full) + 2):
        class E(Environment):
            output_stream_limit = limit
        for a in (False, True):
            t = E(extra=True, loader=DictLoader(src)).get_template("child")
            try:
                out = asyncio.run(t.render_async()) if a else t.render()
                if out != full:
                    bad.append((limit, a, out))
            except ResourceLimitError:
                pass
    return {"violated": bool(bad), "observed": bad[:3], "witness": "limit-error-swallowed-while-resolving-a-path"}
'''

from contracts.common import render_node_contract  # noqa: E402

for _sfx in ("", "_async"):
    for _b in ("none", "scalar", "array"):
        render_node_contract("C08", _sfx, _b, lambda: REPLAY)   # the render tag under a loop limit: only its own limit error (never TypeError)

for _sfx in ("", "_async"):
    for _cls in ("OutputStreamLimitError", "LoopIterationLimitError", "ContextDepthError", "LocalNamespaceLimitError"):
        def _mkget(sfx, cls):
            @contract("liquid.context:RenderContext.get" + sfx, prop="C08", name=f"get{sfx}[{cls} raised while an item is looked up propagates]")
            def g(c):
                env = mk_env(c, undefined=VClass("liquid.undefined", "Undefined"))
                ctx = mk_ctx(c, env)
                path = c.st.alloc(HList(items=[c.str("root"), c.any("segment")]))
                def item(eng, st, a, k):
                    st.log.append(("item-lookup",))
                    return [(st, Raised(VExc(cls, (const(cls),))))]
                c.summary("liquid.context:RenderContext.get_item" + sfx, item)
                c.call(path, self_val=ctx, token=NONE)
                c.raises(cls)
                # the only normal exit is the one that never reaches the item lookup (root not bound)
                c.ensures("no-value-is-made-up-after-a-limit-error", lambda r: z3.BoolVal(not any(e[0] == "item-lookup" for e in r.st.log)))
                c.replay("code", code=REPLAY_SUPER_LIMIT)
        _mkget(_sfx, _cls)
