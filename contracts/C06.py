"""C06 -- loop iteration limit bounds nested iteration.

Ghost G(ctx) = product of the lengths of the enclosing repeating constructs; concrete
measure M(ctx) = prod(loop.length for loop in ctx.loops) * ctx.loop_iteration_carry.
"""
import ast

import z3

from contracts.common import *  # noqa: F403
from pyvc import flow, load
from pyvc.builtins import prodlen
from pyvc.contract import contract
from pyvc.run import bounded, not_covered, structural
from pyvc.state import *  # noqa: F403
from pyvc.u import *  # noqa: F403


def M(st, ctx):
    f = st.deref(ctx).fields
    loops = st.deref(f["loops"])
    if loops.items is not None:
        acc = z3.IntVal(1)
        tail = loops.items
    else:
        acc = prodlen(loops.seq)
        tail = loops.tail
    for x in tail:
        acc = acc * st.deref(x).fields["length"].t
    return acc * f["loop_iteration_carry"].t


def limit_of(c, env):
    Lm = c.st.deref(env).fields["loop_iteration_limit"].t
    return Lm, U.is_int(Lm)


@contract(CTX + ".raise_for_loop_limit", prop="C06")
def raise_for_loop_limit(c):
    env = mk_env(c)
    ctx = mk_ctx(c, env)
    n = c.int("length")
    c.call(n, self_val=ctx)
    Lm, limited = limit_of(c, env)
    m0 = M(c.st, ctx)
    c.ensures("returns-only-if-product-within-limit", lambda r: z3.Implies(limited, m0 * n.t <= U.i(Lm)))
    c.ensures("does-not-change-the-measure", lambda r: M(r.st, ctx) == m0)
    c.raises("LoopIterationLimitError")
    c.ensures_exc("raises-iff-product-exceeds-limit", lambda r: z3.And(limited, m0 * n.t > U.i(Lm)))
    c.cover("limited-ok", lambda r: limited if r.exc is None else None)
    c.replay("code", code=REPLAY)


def _with_contract(meth, mk_args, prop="C06", body_raises=False):
    @contract(CTX + "." + meth, prop=prop, name=(f"{meth}[the block raises: the loop stack and the measure are restored]" if body_raises else None))
    def cm(c):
        env = mk_env(c)
        ctx = mk_ctx(c, env)
        args, length = mk_args(c)
        Lm, limited = limit_of(c, env)
        m0 = M(c.st, ctx)
        loops0 = list(c.st.deref(c.st.deref(ctx).fields["loops"]).items or []) if c.st.deref(c.st.deref(ctx).fields["loops"]).items is not None else None

        def entry(eng, cc, func):
            cms = eng.call_function(cc.st, func, args, {}, self_val=ctx)
            return run_with(eng, cc.st, cms, body_src="__probe__()\nraise LiquidError('error inside the block')") if body_raises else run_with(eng, cc.st, cms)
        c.entry = entry
        if body_raises:
            # a render error inside the block (suppressed later in lax/warn mode): nothing of the loop stays behind
            c.std_exceptions = True
            c.raises("LoopIterationLimitError", "ContextDepthError", "LiquidError")
            c.ensures("a-raising-block-never-completes-normally", lambda r: z3.BoolVal(False))
            c.ensures_exc("measure-restored-when-the-block-raises", lambda r: M(r.st, ctx) == m0)

            def stack_restored(r):
                lp = r.st.deref(r.st.deref(ctx).fields["loops"])
                h0 = c.st.deref(c.st.deref(ctx).fields["loops"])
                if lp.items is not None and h0.items is not None:
                    return z3.BoolVal(list(lp.items) == list(h0.items))
                return z3.BoolVal(lp.items is None and h0.items is None and len(lp.tail) == len(h0.tail))
            c.ensures_exc("loop-stack-restored-when-the-block-raises", stack_restored)
            c.replay("code", code=REPLAY_RAISING_BLOCK)
            return
        def inside(r):
            probes = r.st.ghost.get("probes", [])
            if len(probes) != 1:
                return z3.BoolVal(False)
            return z3.And(M(probes[0], ctx) == m0 * length, z3.Implies(limited, m0 * length <= U.i(Lm)))
        c.ensures("block-runs-with-product-multiplied-by-length-and-within-limit", inside)
        c.ensures("measure-restored-on-exit", lambda r: M(r.st, ctx) == m0)
        c.raises("LoopIterationLimitError", "ContextDepthError")
        c.ensures_exc("measure-restored-when-raising", lambda r: M(r.st, ctx) == m0)
        c.ensures_exc("limit-error-only-when-over-limit", lambda r: z3.Implies(z3.BoolVal(r.exc.cls == "LoopIterationLimitError"), z3.And(limited, m0 * length > U.i(Lm))))
        c.replay("code", code=REPLAY)
    return cm


def _loop_args(c):
    length = c.int("length")
    forloop = c.obj("liquid.builtin.tags.for_tag:ForLoop", "forloop", length=length, _index=c.int("idx"), it=c.iterator("it"), item=NONE, name=c.str("name"), parentloop=NONE)
    return [c.dict("namespace"), forloop], length.t


def _iter_args(c):
    length = c.int("length")
    return [length], length.t


_with_contract("loop", _loop_args)
_with_contract("iterations", _iter_args)
_with_contract("loop", _loop_args, body_raises=True)
_with_contract("iterations", _iter_args, body_raises=True)

REPLAY_RAISING_BLOCK = r'''
def run(m):
    import asyncio
    from liquid import Environment, Mode, DictLoader
    env = Environment(tolerance=Mode.LAX, loader=DictLoader({"p": "{% for i in (1..2) %}{{ i | plus: 'x' | nosuchfilter }}{% render 'nosuch' %}{% endfor %}"}))
    t = env.from_string("{% include 'p' %}{% for j in (1..2) %}[{{ forloop.parentloop.index }}{{ forloop.index }}/{{ forloop.length }}]{% endfor %}")
    out = [t.render(), asyncio.run(t.render_async())]
    return {"violated": out != ["[1/2][2/2]"] * 2, "observed": out, "witness": "loop-left-on-the-stack-by-a-raising-block"}
'''



@contract(CTX + ".copy", prop="C06", name="copy[carry_loop_iterations]")
def copy_carries(c):
    env = mk_env(c)
    ctx = mk_ctx(c, env)
    carry = c.bool("carry_loop_iterations")
    c.call(c.dict("namespace"), self_val=ctx, carry_loop_iterations=carry, block_scope=c.bool("block_scope"))
    m0 = M(c.st, ctx)
    c.ensures("partial-inherits-the-callers-product", lambda r: M(r.st, r.value) == z3.If(carry.t, m0, 1))
    c.ensures("caller-unchanged", lambda r: M(r.st, ctx) == m0)
    c.raises("ContextDepthError")
    c.replay("code", code=REPLAY)


# ---- coupling, for the for tag as a VC: whenever ForNode renders its block, the context's
# ---- iteration product is the caller's product times the number of items being visited

from contracts.C13 import _for_node  # noqa: E402


def _for_block_measure(eng, st, ctx, items):
    from pyvc.exec import Obligation

    carry = st.deref(ctx).fields["loop_iteration_carry"].t
    eng.obligations.append(Obligation("callee-pre", "block-render:iteration-product-is-the-callers-product-times-the-number-of-items", list(st.pc), M(st, ctx) == carry * z3.Length(items), "ForNode loop body"))


for _sfx in ("", "_async"):
    _for_node(_sfx, False, prop="C06", at_block_render=_for_block_measure)


# ---- the same for tablerow: its cells are rendered inside iterations(length)

TRNODE = "liquid.builtin.tags.tablerow_tag:TablerowNode"


def _tablerow_node(sfx):
    from pyvc.exec import Obligation

    @contract(TRNODE + ".render_to_output" + sfx, prop="C06", name=f"TablerowNode.render_to_output{sfx}")
    def tr(c):
        env = mk_env(c)
        ctx = mk_ctx(c, env, loops=c.st.alloc(HList(items=[])))
        c.requires(c.st.deref(env).fields["context_depth_limit"].t >= 8, "context depth limit not reached")
        items = c.seq("items")
        it = c.st.alloc(HIter(items, z3.IntVal(0)))
        expr = c.obj("liquid.builtin.expressions.loop:LoopExpression", "loop_expression", identifier=const("item"), iterable=c.str("iterable_text"), cols=NONE)
        block = c.obj("liquid.ast:BlockNode", "block")
        self = c.obj(TRNODE, "tablerow", expression=expr, block=block, token=NONE)
        c.summary("liquid.builtin.expressions.loop:LoopExpression.evaluate" + sfx, lambda eng, st, a, k: [(st, VTuple((it, VInt(z3.Length(items)))))])
        carry = c.st.deref(ctx).fields["loop_iteration_carry"].t
        Lm, limited = limit_of(c, env)

        def render(eng, st, a, k):
            eng.obligations.append(Obligation("callee-pre", "cell-render:iteration-product-is-the-callers-product-times-the-number-of-items", list(st.pc), M(st, ctx) == carry * z3.Length(items), "TablerowNode cell"))
            eng.obligations.append(Obligation("callee-pre", "cell-render:only-while-the-product-is-within-the-limit", list(st.pc), z3.Implies(limited, carry * z3.Length(items) <= U.i(Lm)), "TablerowNode cell"))
            st.log.append(("rendered",))
            outs = []
            for cls in (None, "ContinueLoop", "BreakLoop", "LiquidSyntaxError"):
                s = st.fork()
                outs.append((s, VInt(z3.Int(f"chars_{len(st.log)}"))) if cls is None else (s, Raised(VExc(cls, (const(cls),)))))
            return outs
        c.summary("liquid.ast:BlockNode.render" + sfx, render)
        c.summary("liquid.ast:Node.render" + sfx, render)

        def inv(e):
            tr_ = e.st.locals.get("tablerow")
            if not isinstance(tr_, VRef):
                return z3.BoolVal(False)
            ff = e.st.deref(tr_).fields
            pos = e.st.deref(it).pos
            return z3.And(ff["_index"].t == pos - 1, ff["length"].t == z3.Length(items), pos >= 0, pos <= z3.Length(items), M(e.st, ctx) == carry * z3.Length(items))

        def havoc(st):
            tr_, ns = st.locals["tablerow"], st.locals["namespace"]
            st.deref(ns).items["item"] = VU(z3.Const(f"stale_item_{len(st.pc)}", U))
            return [(tr_, "_index"), (tr_, "_row"), (tr_, "_col"), (it, None)]
        c.invariant(0, inv, havoc_heap=havoc)
        c.call(ctx, c.obj("io:StringIO", "buffer", __text__=c.str("out")), self_val=self)
        c.ensures("the-callers-product-is-restored", lambda r: M(r.st, ctx) == carry)
        c.raises("LiquidSyntaxError", "LoopIterationLimitError")
        c.ensures_exc("limit-error-exactly-when-the-product-would-exceed-the-limit", lambda r: z3.Implies(z3.BoolVal(r.exc.cls == "LoopIterationLimitError"), z3.And(limited, carry * z3.Length(items) > U.i(Lm))))
        c.assume_note("the cell block is an arbitrary callee that returns, raises Break/ContinueLoop or fails with a Liquid error; LoopExpression.evaluate returns (iterator over the visited items, their number)")
        c.replay("code", code=REPLAY)


for _sfx in ("", "_async"):
    _tablerow_node(_sfx)


# ---- coupling: every repeating construct pushes its length (call-site obligations) --------

RENDER_CALLS = {"render", "render_async", "render_with_context", "render_with_context_async"}


@structural("C06", "coupling")
def coupling():
    """For every render_to_output* method of a Node class: a loop whose body renders a
    block/template must run inside `with <ctx>.loop(...)` or `with <ctx>.iterations(...)`
    on the same context that is passed to the render call; and every `.copy(` that builds
    the context for a partial rendered by a node passes carry_loop_iterations=True."""
    obs = []
    found = 0
    for m, cname, fn in flow.iter_methods(lambda n: n.startswith("render_to_output")):
        pm = flow.parents(fn)
        for loop in [n for n in ast.walk(fn) if isinstance(n, (ast.For, ast.AsyncFor, ast.While))]:
            # a *repeating* construct renders the same block on every iteration: the receiver
            # of the render call is loop-invariant (not derived from the loop variable)
            assigned = {n.id for n in ast.walk(loop) if isinstance(n, ast.Name) and isinstance(n.ctx, ast.Store)}
            def root(e):
                while isinstance(e, (ast.Attribute, ast.Subscript, ast.Call)):
                    e = e.func if isinstance(e, ast.Call) else e.value
                return e.id if isinstance(e, ast.Name) else None
            rcalls = [cl for cl in flow.calls(loop) if flow.call_name(cl) in RENDER_CALLS and isinstance(cl.func, ast.Attribute) and root(cl.func.value) not in assigned]
            if not rcalls:
                continue
            found += 1
            for cl in rcalls:
                # the context argument of the render call
                ctx_arg = None
                if cl.args:
                    ctx_arg = flow.dotted(cl.args[0])
                if flow.kwarg(cl, "context") is not None:
                    ctx_arg = flow.dotted(flow.kwarg(cl, "context"))
                pushed = False
                for w in flow.enclosing(pm, loop, (ast.With, ast.AsyncWith)):
                    for item in w.items:
                        e = item.context_expr
                        if isinstance(e, ast.Call) and isinstance(e.func, ast.Attribute) and e.func.attr in ("loop", "iterations"):
                            if flow.dotted(e.func.value) == ctx_arg:
                                pushed = True
                exempt = cname == "MultiExpressionBlockNode"
                obs.append(flow.ob(f"{cname}.{fn.name}:loop@{loop.lineno - fn.lineno}:pushes-length", pushed or exempt,
                                   f"{flow.where(m, cname, fn, loop)} renders {flow.dotted(cl.func)}({ctx_arg}, ...) in a loop " + ("inside loop()/iterations()" if pushed else "WITHOUT contributing its length to the iteration product"),
                                   replay_schema="code", replay_extra={"code": REPLAY}))
        for cl in flow.calls(fn):
            if flow.call_name(cl) == "copy" and isinstance(cl.func, ast.Attribute) and flow.dotted(cl.func.value) in ("context", "self.context"):
                kw = flow.kwarg(cl, "carry_loop_iterations")
                ok = isinstance(kw, ast.Constant) and kw.value is True
                obs.append(flow.ob(f"{cname}.{fn.name}:copy:carries-iterations", ok, f"{flow.where(m, cname, fn, cl)} {flow.dotted(cl)[:120]}", replay_schema="code", replay_extra={"code": REPLAY}))
    obs.append(flow.ob("repeating-constructs-found", found >= 3, f"{found} rendering loops found in render_to_output* methods (for, tablerow, include, render; sync+async)"))
    return obs


for _sfx in ("", "_async"):
    for _b in ("none", "scalar", "array"):
        render_node_contract("C06", _sfx, _b, lambda: REPLAY)


for _sfx in ("", "_async"):
    for _b in ("none", "scalar", "array"):
        include_node_contract("C06", _sfx, _b, lambda: REPLAY)


for _sfx in ("", "_async"):
    call_node_contract("C06", _sfx, lambda: REPLAY)


not_covered("C06", "custom tags", "`case/when` with duplicate values (MultiExpressionBlockNode repeats a block per matching when; not a construct named by the statement)",
            "the coupling of for, tablerow, render-with-a-bound-array and include-with-a-bound-array is proved on the real render methods (ForNode, TablerowNode, RenderNode, IncludeNode contracts: the block/partial renders with the product multiplied by the length, within the limit); for macros/call and any other repeating node the coupling stays a call-site shape obligation ('coupling'); bound arrays are proved for a spine of 2 items")

bounded("C06", "bounded/C06.py")

REPLAY = r'''
def run(m):
    import itertools
    from liquid import Environment, DictLoader
    from liquid.exceptions import LoopIterationLimitError
    from liquid.extra import add_tags_and_filters
    def nest(kinds, lens, depth=0):
        if not kinds: return "{% assign hits = hits | plus: 1 %}.", {}
        inner, parts = nest(kinds[1:], lens[1:], depth + 1)
        k, n = kinds[0], lens[0]
        name = f"p{depth}"
        if k == "for": return "{% for x in (1.." + str(n) + ") %}" + inner + "{% endfor %}", parts
        if k == "tablerow": return "{% tablerow x in (1.." + str(n) + ") %}" + inner + "{% endtablerow %}", parts
        arr = ",".join(str(i) for i in range(n))
        pre = "{% assign arr" + str(depth) + " = '" + arr + "' | split: ',' %}"
        parts = dict(parts); parts[name] = inner
        if k == "render_for": return pre + "{% render '" + name + "' for arr" + str(depth) + " as it %}", parts
        if k == "include_for": return pre + "{% include '" + name + "' for arr" + str(depth) + " %}", parts
        if k == "for_render": return "{% for x in (1.." + str(n) + ") %}{% render '" + name + "' %}{% endfor %}", parts
    bad = None
    kinds = ["for", "tablerow", "render_for", "include_for", "for_render"]
    for ks in itertools.product(kinds, repeat=2):
        for lens in ((3, 4), (5, 5), (2, 6)):
            src, parts = nest(list(ks), list(lens))
            prod = lens[0] * lens[1]
            for limit in (prod - 1, prod):
                class E(Environment):
                    loop_iteration_limit = limit
                env = E(loader=DictLoader(parts))
                try:
                    env.from_string(src).render(hits=0)
                    ok = prod <= limit
                except LoopIterationLimitError:
                    ok = prod > limit
                except Exception as e:
                    ok = True
                if not ok and bad is None:
                    bad = (ks, lens, limit, src)
    return {"failing": bad is not None, "witness": "nest:" + ("/".join(bad[0]) if bad else "none"), "call": repr(bad) if bad else "all 2-level nests of for/tablerow/render-for/include-for/for+render", "result": "completed over the limit" if bad else "ok"}
'''
