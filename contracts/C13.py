"""C13 -- loops visit exactly the documented items."""
import z3

from pyvc.contract import contract
from pyvc.run import bounded, not_covered, structural
from pyvc.state import *  # noqa: F403
from pyvc.u import *  # noqa: F403

L = z3.Length
LOOP = "liquid.builtin.expressions.loop:LoopExpression"
CTX = "liquid.context:RenderContext"


def _slice_setup(c, reversed_):
    seq = c.seq("items")
    it = c.iterator("it", seq)
    length = c.int("length")
    limit = c.any("limit")
    offset = c.any("offset")
    ident = c.str("identifier")
    iterable = c.str("iterable")  # the iterable expression, represented by its str() (only use in _slice)
    stop = c.dict("stopindex")
    sh = c.st.deref(stop)
    key = U.str(z3.Concat(ident.t, z3.StringVal("-"), iterable.t))
    c.inputs["stored_stopindex"] = z3.Select(sh.val, key)
    c.inputs["stored_present"] = z3.Select(sh.present, key)
    kq = z3.Const("k!stop", U)
    c.requires(z3.ForAll([kq], U.is_int(z3.Select(sh.val, kq))), "every stored stop index is an int (whatever key the code looks under)")
    c.requires(length.t == L(seq), "length-is-len")
    c.requires(length.t <= 2**63 - 1, "len() of a Python sequence never exceeds sys.maxsize")
    c.requires(z3.Or(U.is_none(limit.t), U.is_int(limit.t)), "limit: int|None")
    c.requires(z3.Or(U.is_none(offset.t), U.is_int(offset.t), offset.t == U.str(z3.StringVal("continue"))), "offset: int|'continue'|None")
    ctx = c.obj(CTX, "context", tag_namespace=c.dict(None, stopindex=stop))
    self = c.obj(LOOP, "self", identifier=ident, iterable=iterable, reversed=VBool(z3.BoolVal(reversed_)))
    c.call(it, length, ctx, self_val=self, limit=limit, offset=offset)
    # spec, from the reference semantics (Liquid::Utils.slice_collection): items with index in
    # [from, to) and [0, length)
    frm = z3.If(U.is_none(offset.t), 0, z3.If(U.is_int(offset.t), U.i(offset.t),
               z3.If(z3.Select(sh.present, key), U.i(z3.Select(sh.val, key)), 0)))
    to = z3.If(U.is_none(limit.t), length.t, frm + U.i(limit.t))
    lo = zmin(zmax(frm, z3.IntVal(0)), length.t)
    hi = zmax(zmin(to, length.t), lo)
    return dict(seq=seq, length=length, frm=frm, to=to, lo=lo, hi=hi, key=key, stop=stop, str_iterable=iterable)


def _rest(r):
    itref, n = r.value.items
    h = r.st.deref(itref)
    return z3.SubSeq(h.seq, h.pos, L(h.seq) - h.pos), n


@contract(LOOP + "._slice", prop="C13", name="_slice[forward]")
def slice_forward(c):
    s = _slice_setup(c, False)
    c.ensures("visits-exactly-seq[from:to]", lambda r: _rest(r)[0] == z3.SubSeq(s["seq"], s["lo"], s["hi"] - s["lo"]))
    c.ensures("reported-length-is-number-visited", lambda r: _rest(r)[1].t == s["hi"] - s["lo"])
    def stop_post(r):
        h = r.st.deref(s["stop"])
        return z3.And(z3.Select(h.present, s["key"]),
                      z3.Implies(z3.And(s["frm"] >= 0, s["frm"] <= s["length"].t), z3.Select(h.val, s["key"]) == U.int(s["hi"])))
    c.ensures("continue-index-is-end-of-visited", stop_post)
    c.raises()
    c.cover("nonempty", lambda r: s["hi"] > s["lo"])
    c.replay("code", code=REPLAY_SLICE)


@contract(LOOP + "._slice", prop="C13", name="_slice[reversed]")
def slice_reversed(c):
    s = _slice_setup(c, True)
    def post(r):
        rest, n = _rest(r)
        vis = z3.SubSeq(s["seq"], s["lo"], s["hi"] - s["lo"])
        i = z3.Int("i!rev")
        return z3.And(L(rest) == L(vis), z3.ForAll([i], z3.Implies(z3.And(i >= 0, i < L(vis)), rest[i] == vis[L(vis) - 1 - i])))
    c.ensures("visits-reverse-of-seq[from:to]", post)
    c.ensures("reported-length-is-number-visited", lambda r: _rest(r)[1].t == s["hi"] - s["lo"])
    c.raises()
    c.replay("code", code=REPLAY_SLICE)


REPLAY_SLICE = r'''
def run(m):
    from liquid import Environment
    items = list(range(max(len(m.get("items") or []), 3)))
    limit, offset = m.get("limit"), m.get("offset")
    def ref(items, limit, offset, cont):
        frm = 0 if offset is None else (cont if offset == "continue" else offset)
        to = len(items) if limit is None else frm + limit
        return [x for i, x in enumerate(items) if frm <= i and i < to]
    args = ""
    if limit is not None: args += f" limit:{limit}"
    if offset is not None: args += f" offset:{offset}"
    src = "{% for x in items" + args + " %}{{ x }},{% endfor %}"
    want = "".join(f"{x}," for x in ref(items, limit, offset, 0))
    try:
        got = Environment().from_string(src).render(items=items)
    except Exception as e:
        got = f"raised {type(e).__name__}: {e}"
    w = "limit==0" if limit == 0 else ("negative-stop" if (limit is not None and (limit + (offset if isinstance(offset, int) else 0)) < 0) else ("negative-offset" if isinstance(offset, int) and offset < 0 else "other"))
    return {"failing": got != want, "witness": w, "call": src + " items=" + repr(items), "result": got, "expected": want}
'''

from pyvc.contract import props_after

FORLOOP = "liquid.builtin.tags.for_tag:ForLoop"
TABLEROW = "liquid.builtin.tags.tablerow_tag:TableRow"


@contract(FORLOOP + ".__next__", prop="C13")
def forloop_next(c):
    """After the k-th __next__ (k = j+1) the helpers describe item j of `length` items."""
    seq = c.seq("items")
    j = c.int("j")
    length = c.int("length")
    it = c.st.alloc(HIter(seq, j.t))
    c.requires(z3.And(j.t >= 0, length.t == L(seq)), "j items already visited")
    self = c.obj(FORLOOP, "forloop", it=it, length=length, _index=VInt(j.t - 1), item=NONE, name=c.str("name"), parentloop=c.any("parent"))
    c.call(self_val=self)
    names = ["index", "index0", "rindex", "rindex0", "first", "last", "length"]
    c.entry = props_after(names)
    def post(r):
        item, index, index0, rindex, rindex0, first, last, ln = r.value.items
        return z3.And(
            box(item) == seq[j.t], index.t == j.t + 1, index0.t == j.t, rindex.t == length.t - j.t, rindex0.t == length.t - j.t - 1,
            first.t == (j.t == 0), last.t == (j.t == length.t - 1), ln.t == length.t,
        )
    c.ensures("helpers-consistent-with-visited-item", post)
    c.ensures("iterator-advanced-by-one", lambda r: r.st.deref(it).pos == j.t + 1)
    c.raises("StopIteration")
    c.ensures_exc("stops-exactly-at-end", lambda r: j.t >= length.t)
    c.cover("middle", lambda r: z3.And(j.t > 0, j.t < length.t - 1) if r.exc is None else None)
    c.replay("code", code=REPLAY_FORLOOP)


@contract(FORLOOP + ".__getitem__", prop="C13")
def forloop_getitem(c):
    self = c.obj(FORLOOP, "forloop", it=c.iterator("it"), length=c.int("length"), _index=c.int("idx"), item=NONE, name=c.str("name"), parentloop=c.any("parent"))
    def entry(eng, cc, func):
        outs = []
        for key in ("index", "index0", "rindex", "rindex0", "first", "last", "length", "parentloop", "name"):
            for s, o in eng.run(func, cc.st.fork(), [const_(key)], {}, self_val=self):
                if not isinstance(o, Raised):
                    exp = eng.get_attr(s, self, key)[0][1]
                    o = type(o)(VTuple((o.val, exp)))
                outs.append((s, o))
        return outs
    c.entry = entry
    c.ensures("drop-key-returns-helper", lambda r: box(r.value.items[0]) == box(r.value.items[1]))
    c.raises()


def const_(py):
    from pyvc.state import const
    return const(py)


@contract(TABLEROW + ".__next__", prop="C13")
def tablerow_next(c):
    """Row/column structure: item j sits in row j div ncols + 1, column j mod ncols + 1."""
    seq = c.seq("items")
    j, length, ncols, row, col = c.int("j"), c.int("length"), c.int("ncols"), c.int("row"), c.int("col")
    it = c.st.alloc(HIter(seq, j.t))
    c.requires(z3.And(j.t >= 0, length.t == L(seq), ncols.t >= 1), "j items visited; cols >= 1")
    # representation invariant of TableRow (established by __init__: index=-1,row=1,col=0)
    inv = lambda idx, rw, cl: z3.And(idx + 1 == (rw - 1) * ncols.t + cl, 0 <= cl, cl <= ncols.t, z3.Implies(idx >= 0, cl >= 1), rw >= 1)  # noqa: E731
    c.requires(inv(j.t - 1, row.t, col.t), "TableRow invariant")
    self = c.obj(TABLEROW, "tablerow", it=it, length=length, ncols=ncols, _index=VInt(j.t - 1), _row=row, _col=col, name=c.str("name"))
    c.call(self_val=self)
    names = ["index", "index0", "rindex", "rindex0", "first", "last", "col", "col0", "col_first", "col_last", "row", "_index", "_row", "_col"]
    c.entry = props_after(names)
    def post(r):
        item, index, index0, rindex, rindex0, first, last, cl, col0, cfirst, clast, rw, _i, _r, _c = r.value.items
        q = fresh("q", I)  # j = q*ncols + (col-1) characterises div/mod without nonlinear division
        return z3.And(
            box(item) == seq[j.t], index.t == j.t + 1, index0.t == j.t, rindex.t == length.t - j.t, rindex0.t == length.t - j.t - 1,
            first.t == (j.t == 0), last.t == (j.t == length.t - 1),
            j.t == (rw.t - 1) * ncols.t + (cl.t - 1), 1 <= cl.t, cl.t <= ncols.t, rw.t >= 1,
            col0.t == cl.t - 1, cfirst.t == (cl.t == 1), clast.t == (cl.t == ncols.t),
            inv(_i.t, _r.t, _c.t),
        )
    c.ensures("row-col-structure-and-helpers", post)
    c.raises("StopIteration")
    c.ensures_exc("stops-exactly-at-end", lambda r: j.t >= length.t)
    c.replay("code", code=REPLAY_TABLEROW)


@contract(TABLEROW + ".__init__", prop="C13")
def tablerow_init(c):
    ncols = c.int("ncols")
    self = c.obj(TABLEROW, "tablerow")
    c.call(c.str("name"), c.iterator("it"), c.int("length"), ncols, self_val=self)
    def post(r):
        f = r.st.deref(self).fields
        return z3.And(f["_index"].t == -1, f["_row"].t == 1, f["_col"].t == 0, f["ncols"].t == ncols.t)
    c.ensures("establishes-invariant", post)
    c.raises()


REPLAY_FORLOOP = r'''
def run(m):
    from liquid import Environment
    n = 4
    src = "{% for x in (1..4) %}{{forloop.index}}/{{forloop.index0}}/{{forloop.rindex}}/{{forloop.rindex0}}/{{forloop.first}}/{{forloop.last}}/{{forloop.length}}/{{x}};{% endfor %}"
    want = "".join(f"{i+1}/{i}/{n-i}/{n-i-1}/{str(i==0).lower()}/{str(i==n-1).lower()}/{n}/{i+1};" for i in range(n))
    try:
        got = Environment().from_string(src).render()
    except Exception as e:
        got = f"raised {type(e).__name__}: {e}"
    return {"failing": got != want, "witness": "forloop-helpers", "call": src, "result": got, "expected": want}
'''

REPLAY_TABLEROW = r'''
def run(m):
    from liquid import Environment
    bad = None
    for n in range(0, 7):
        for cols in range(1, 5):
            src = "{% tablerow x in (1..N) cols:C %}{{tablerowloop.row}}.{{tablerowloop.col}}.{{tablerowloop.col0}}.{{tablerowloop.col_first}}.{{tablerowloop.col_last}}.{{tablerowloop.index0}};{% endtablerow %}".replace("N", str(n)).replace("C", str(cols))
            try:
                got = Environment().from_string(src).render()
            except Exception as e:
                got = f"raised {type(e).__name__}: {e}"
            import re
            cells = re.findall(r">([^<>]*;)<", got)
            want = [f"{j//cols+1}.{j%cols+1}.{j%cols}.{str(j%cols==0).lower()}.{str(j%cols==cols-1).lower()}.{j};" for j in range(n)]
            if cells != want and bad is None:
                bad = (src, got, want)
    return {"failing": bad is not None, "witness": "tablerow-structure", "call": bad[0] if bad else "sweep n<7, cols<5", "result": bad[1] if bad else "ok", "expected": str(bad[2]) if bad else ""}
'''


# ---- LoopExpression._to_iter: which items a loop is over, per kind of value ------------------

def _to_iter_contract(kind):
    @contract(LOOP + "._to_iter", prop="C13", name=f"_to_iter[{kind}]")
    def ti(c):
        env = mk_env(c)
        ctx = mk_ctx(c, env)
        self = c.obj(LOOP, "loop")
        ss = c.st.deref(env).fields["string_sequences"].t
        if kind == "array":
            seq = c.seq("items")
            obj = c.st.alloc(HList(seq=seq))
            want = lambda r: (seq, L(seq))  # noqa: E731
        elif kind == "string":
            sv = c.str("text")
            obj = sv
            want = None
        elif kind == "range":
            lo, hi = c.int("start"), c.int("stop")
            obj = VRange(lo.t, hi.t)
            want = None
        else:
            v = c.any("value")
            c.requires(z3.Not(z3.Or(U.is_ref(v.t), U.is_str(v.t))), "nil, a boolean or a number")
            obj = v
            want = None
        c.call(obj, ctx, self_val=self)

        def post(r):
            itref, n = r.value.items
            h = r.st.deref(itref) if isinstance(itref, VRef) else None
            if isinstance(h, HIter):
                rest = z3.SubSeq(h.seq, h.pos, L(h.seq) - h.pos)
            elif isinstance(h, HCIter):
                items = h.items[h.pos:]
                rest = z3.Empty(SeqU) if not items else (z3.Unit(box(items[0])) if len(items) == 1 else z3.Concat(*[z3.Unit(box(x)) for x in items]))
            else:
                return z3.BoolVal(False)
            if kind == "array":
                return z3.And(rest == seq, n.t == L(seq))
            if kind == "string":
                # a string is one item (none when empty) unless string_sequences is on (then: its characters)
                one = z3.If(L(sv.t) == 0, z3.And(rest == z3.Empty(SeqU), n.t == 0), z3.And(rest == z3.Unit(U.str(sv.t)), n.t == 1))
                return z3.If(ss, n.t == L(sv.t), one)
            if kind == "range":
                i = z3.Int("i!r")
                ln = zmax(hi.t - lo.t, z3.IntVal(0))
                return z3.And(n.t == ln, L(rest) == ln, z3.ForAll([i], z3.Implies(z3.And(i >= 0, i < ln), rest[i] == U.int(lo.t + i))))
            return z3.And(rest == z3.Empty(SeqU), n.t == 0)
        c.ensures({"array": "an-array-is-iterated-item-by-item", "string": "a-string-is-a-single-item-or-its-characters", "range": "a-range-yields-start..stop-1",
                   "scalar": "nil-booleans-and-numbers-iterate-as-empty"}[kind], post)
        c.raises()
        c.replay("code", code=REPLAY_FORNODE)


for _k in ("array", "string", "range", "scalar"):
    _to_iter_contract(_k)


# ---- LoopExpression.evaluate: what is handed to _slice ---------------------------------------

def _evaluate_wiring(sfx, limit_present, offset_kind):
    @contract(LOOP + ".evaluate" + sfx, prop="C13", name=f"evaluate{sfx}[limit={'yes' if limit_present else 'no'},offset={offset_kind}]")
    def ev(c):
        EXP = "liquid.expression:Expression"
        it_v = c.any("iterable_value")
        lim, off = c.int("limit_value"), c.int("offset_value")
        iterable = c.obj(EXP, "iterable_expr", __value__=it_v, token=NONE)
        limit = c.obj(EXP, "limit_expr", __value__=lim, token=NONE) if limit_present else NONE
        if offset_kind == "expression":
            offset = c.obj(EXP, "offset_expr", __value__=off, token=NONE)
        elif offset_kind == "continue":
            offset = c.obj("liquid.builtin.expressions.primitive:StringLiteral", "offset_literal", value=const("continue"), token=NONE)
        else:
            offset = NONE
        evx = lambda eng, st, a, k: [(st, st.deref(a[0]).fields["__value__"])]  # noqa: E731
        c.summary(EXP + ".evaluate", evx)
        c.summary(EXP + ".evaluate_async", evx)
        c.summary("liquid.builtin.expressions.primitive:StringLiteral.evaluate", lambda eng, st, a, k: [(st, st.deref(a[0]).fields["value"])])
        it0 = c.st.alloc(HIter(c.seq("visited"), z3.IntVal(0)))
        n0 = c.int("n_items")

        def to_iter(eng, st, a, k):
            st.log.append(("to_iter", box(a[1])))
            return [(st, VTuple((it0, n0)))]

        def slc(eng, st, a, k):
            st.log.append(("slice", a[1], box(a[2]), box(k.get("limit", NONE)), box(k.get("offset", NONE))))
            return [(st, VTuple((a[1], a[2])))]
        c.summary(LOOP + "._to_iter", to_iter)
        c.summary(LOOP + "._slice", slc)
        c.summary("liquid.limits:to_int", lambda eng, st, a, k: [(st, a[0])])   # the values are ints already
        ctx = mk_ctx(c)
        self = c.obj(LOOP, "loop", iterable=iterable, limit=limit, offset=offset, identifier=c.str("ident"), reversed=c.bool("rev"), cols=NONE)
        c.call(ctx, self_val=self)

        def post(r):
            ti = [e for e in r.st.log if e[0] == "to_iter"]
            sl = [e for e in r.st.log if e[0] == "slice"]
            if len(ti) != 1 or len(sl) != 1 or sl[0][1] != it0:
                return z3.BoolVal(False)
            want_l = U.int(lim.t) if limit_present else U.none
            want_o = U.int(off.t) if offset_kind == "expression" else (U.str(z3.StringVal("continue")) if offset_kind == "continue" else U.none)
            return z3.And(ti[0][1] == it_v.t, sl[0][2] == U.int(n0.t), sl[0][3] == want_l, sl[0][4] == want_o)
        c.ensures("the-iterable's-items-with-its-limit-and-offset-are-what-is-sliced", post)
        c.raises()
        c.assume_note("limit/offset expressions evaluate to ints (their conversion errors are C02's); _to_iter and _slice have their own contracts above")
        c.replay("code", code=REPLAY_SLICE)


for _sfx in ("", "_async"):
    for _lp in (False, True):
        for _ok in ("none", "expression", "continue"):
            _evaluate_wiring(_sfx, _lp, _ok)


# ---- the callee contract assumed by the ForNode contract (context.parentloop) on the real method

@contract("liquid.context:RenderContext.parentloop", prop="C13", name="parentloop[innermost enclosing loop, undefined outside any loop]")
def parentloop(c):
    env = mk_env(c, undefined=VClass("liquid.undefined", "Undefined"))
    inner, outer = c.obj("liquid.builtin.tags.for_tag:ForLoop", "inner"), c.obj("liquid.builtin.tags.for_tag:ForLoop", "outer")

    stacks = ([], [outer], [outer, inner])
    ctxs = [mk_ctx(c, env, loops=c.st.alloc(HList(items=list(stack)))) for stack in stacks]

    def entry(eng, cc, func):
        outs = []
        for stack, ctx in zip(stacks, ctxs):
            for s, o in eng.run(func, cc.st.fork(), [], {}, self_val=ctx):
                ok = (o.val == stack[-1]) if (stack and not isinstance(o, Raised)) else (not isinstance(o, Raised) and isinstance(o.val, VRef) and s.deref(o.val).cls[1] == "Undefined")
                outs.append((s, Ret(VBool(z3.BoolVal(bool(ok))))))
        return outs
    c.entry = entry
    c.ensures("the-innermost-open-loop-or-undefined", lambda r: r.value.t)
    c.replay("code", code=REPLAY_FORLOOP)


bounded("C13", "bounded/C13.py")
not_covered("C13", "cols:0 / non-numeric cols (no documented reference behaviour; C02 only requires a Liquid error)", "TablerowNode.render_to_output (HTML row/cell structure) is covered by the bounded template-level check; its TableRow helper is proved",
            "_to_iter over a hash (items view of an arbitrary Mapping) is covered by the bounded check")


# ---- ForNode: the else block is rendered exactly when no item is visited; every block render
# ---- sees the current item and consistent helpers; break/continue never escape the loop ----

from contracts.common import *  # noqa: F403,E402

FORNODE = "liquid.builtin.tags.for_tag:ForNode"
LOOPEXPR = "liquid.builtin.expressions.loop:LoopExpression"


def _for_node(sfx, has_default, prop="C13", at_block_render=None):
    from pyvc.exec import Obligation

    @contract(FORNODE + ".render_to_output" + sfx, prop=prop, name=f"ForNode.render_to_output{sfx}[else={'present' if has_default else 'absent'}]")
    def fr(c):
        env = mk_env(c, loop_iteration_limit=NONE)
        ctx = mk_ctx(c, env, loops=c.st.alloc(HList(items=[])))
        c.requires(c.st.deref(env).fields["context_depth_limit"].t >= 8, "context depth limit not reached")
        items = c.seq("items")
        it = c.st.alloc(HIter(items, z3.IntVal(0)))
        ident = const("item")   # any loop variable name other than `forloop` (the namespace is keyed by it)
        expr = c.obj(LOOPEXPR, "loop_expression", identifier=ident, iterable=c.str("iterable_text"))
        block = c.obj("liquid.ast:BlockNode", "block")
        default = c.obj("liquid.ast:BlockNode", "else_block") if has_default else NONE
        self = c.obj(FORNODE, "for", expression=expr, block=block, default=default, token=NONE)
        c.summary(LOOPEXPR + ".evaluate" + sfx, lambda eng, st, a, k: [(st, VTuple((it, VInt(L(items)))))])
        parent = c.any("parentloop")
        c.summary(CTX + ".parentloop", lambda eng, st, a, k: [(st, parent)])
        scope = c.st.deref(ctx).fields["scope"]

        def render(eng, st, a, k):
            which = "block" if a[0] == block else "else"
            outs = []
            if which == "block":
                # callee precondition at every render of the loop body: the innermost namespace
                # binds the loop variable to the item just taken and `forloop` to its helpers
                ns = st.deref(st.deref(scope).fields["_maps"]).items[0]
                fl = st.deref(ns).items.get("forloop")
                pos = st.deref(it).pos
                cur = [st.deref(ns).items["item"]] if "item" in st.deref(ns).items else []
                ok = z3.And(pos >= 1, pos <= L(items), *[box(v) == items[pos - 1] for v in cur]) if (cur and isinstance(fl, VRef)) else z3.BoolVal(False)
                if isinstance(fl, VRef):
                    ff = st.deref(fl).fields
                    ok = z3.And(ok, ff["_index"].t == pos - 1, ff["length"].t == L(items))
                eng.obligations.append(Obligation("callee-pre", "block-render:sees-the-current-item-and-consistent-forloop", list(st.pc), ok, "ForNode loop body"))
                if at_block_render is not None:
                    at_block_render(eng, st, ctx, items)
            st.log.append(("rendered", which))
            for cls in (None, "ContinueLoop", "BreakLoop", "LiquidSyntaxError"):
                s = st.fork()
                outs.append((s, VInt(z3.Int(f"chars_{len(st.log)}"))) if cls is None else (s, Raised(VExc(cls, (const(cls),)))))
            return outs
        c.summary("liquid.ast:BlockNode.render" + sfx, render)
        c.summary("liquid.ast:Node.render" + sfx, render)

        def inv(e):
            fl = e.st.locals.get("forloop")
            if not isinstance(fl, VRef):
                return z3.BoolVal(False)
            ff = e.st.deref(fl).fields
            pos = e.st.deref(it).pos
            return z3.And(ff["_index"].t == pos - 1, ff["length"].t == L(items), pos >= 0, pos <= L(items))

        def havoc(st):
            fl, ns = st.locals["forloop"], st.locals["namespace"]
            # an earlier iteration left some item bound to the loop variable
            st.deref(ns).items["item"] = VU(z3.Const(f"stale_item_{len(st.pc)}", U))
            return [(fl, "_index"), (fl, "item"), (it, None)]
        c.invariant(0, inv, havoc_heap=havoc)
        maps0 = list(c.st.deref(c.st.deref(scope).fields["_maps"]).items)
        c.call(ctx, c.obj("io:StringIO", "buffer", __text__=c.str("out")), self_val=self)
        empty = L(items) == 0

        def post_else(r):
            rendered = [e[1] for e in r.st.log if e[0] == "rendered"]
            n_else = rendered.count("else")
            return z3.And(z3.Implies(empty, z3.BoolVal(n_else == (1 if has_default else 0) and "block" not in rendered)), z3.Implies(z3.Not(empty), z3.BoolVal(n_else == 0)))
        c.ensures("else-block-rendered-exactly-when-no-item-is-visited", post_else)
        c.ensures("loop-scope-and-loop-stack-are-restored", lambda r: z3.BoolVal(r.st.deref(r.st.deref(scope).fields["_maps"]).items == maps0 and r.st.deref(r.st.deref(ctx).fields["loops"]).items == []))
        c.raises("LiquidSyntaxError", *(["BreakLoop", "ContinueLoop"] if has_default else []))
        c.ensures_exc("break-and-continue-of-the-loop-body-never-escape", lambda r: z3.Or(z3.BoolVal(r.exc.cls == "LiquidSyntaxError"), empty))
        c.assume_note("the loop body is an arbitrary callee that returns, raises ContinueLoop/BreakLoop, or fails with a Liquid error; LoopExpression.evaluate returns (iterator over the visited items, their number) -- its own contract is _slice above")
        c.replay("code", code=REPLAY_FORNODE)


for _sfx in ("", "_async"):
    for _hd in (False, True):
        _for_node(_sfx, _hd)

REPLAY_FORNODE = r'''
def run(m):
    import asyncio
    from liquid import Environment
    t = Environment().from_string("{% for x in xs %}{% if x == 2 %}{% continue %}{% endif %}{% if x == 4 %}{% break %}{% endif %}{{ forloop.index }}:{{ x }} {% else %}none{% endfor %}|{{ x }}")
    out = [t.render(xs=[1, 2, 3, 4, 5]), t.render(xs=[]), asyncio.run(t.render_async(xs=[1, 2, 3, 4, 5])), asyncio.run(t.render_async(xs=[]))]
    return {"violated": out != ["1:1 3:3 |", "none|", "1:1 3:3 |", "none|"], "observed": out}
'''


@structural("C13", "blank-flag-covers-every-block")
def blank_flag_covers_every_block():
    """a block container that is marked blank is rendered into a null stream when it sits inside
    another block (blank suppression), so a node may call itself blank only if EVERY block it can
    render is blank -- for a for loop that includes its else block ('renders its else block exactly
    when no item is visited' must not depend on where the loop sits)"""
    import ast
    from pyvc import flow, load
    obs = []
    n = 0
    for m in load.all_modules():
        mod = load.get_module(m)
        for cname, cnode in mod.classes.items():
            if "Node" not in [c_[1] for c_ in load.mro(m, cname)][1:]:
                continue
            init = load._last_def(cnode.body, "__init__")
            if init is None:
                continue
            params = {a.arg: (ast.unparse(a.annotation) if a.annotation else "") for a in init.args.args[1:] + init.args.kwonlyargs}
            blocks = sorted(p for p, ann in params.items() if "BlockNode" in ann or "TemplateBlock" in ann)
            for st_ in ast.walk(init):
                if isinstance(st_, ast.Assign) and any(flow.dotted(t) == "self.blank" for t in st_.targets) and ".blank" in ast.unparse(st_.value):
                    n += 1
                    src = ast.unparse(st_.value)
                    names = {x.id for x in ast.walk(st_.value) if isinstance(x, ast.Name)} | {x.attr for x in ast.walk(st_.value) if isinstance(x, ast.Attribute) and flow.dotted(x.value) == "self"}
                    missing = [b for b in blocks if b not in names]
                    obs.append(flow.ob(f"{cname}.__init__:blank-only-if-every-block-is-blank", not missing, f"self.blank = {src[:90]}; block parameters: {blocks}; not consulted: {missing}", replay_schema="code", replay_extra={"code": REPLAY_BLANK_ELSE}))
    obs.append(flow.ob("blank-assignments-found", n >= 5, f"{n}"))
    return obs


REPLAY_BLANK_ELSE = r'''
def run(m):
    import asyncio
    from liquid import Environment
    env = Environment()
    bad = []
    for src, want in (("{% if true %}{% for x in empty_list %}{% assign y = x %}{% else %}none{% endfor %}{% endif %}", "none"),
                      ("{% for x in empty_list %}{% assign y = x %}{% else %}none{% endfor %}", "none"),
                      ("{% unless false %}{% for x in xs %}{% assign y = x %}{% else %}none{% endfor %}!{% endunless %}", "!")):
        t = env.from_string(src)
        for got in (t.render(empty_list=[], xs=[1]), asyncio.run(t.render_async(empty_list=[], xs=[1]))):
            if got != want:
                bad.append((src, got, want))
    return {"violated": bool(bad), "observed": bad[:3], "witness": "else-block-lost-to-blank-suppression"}
'''


# ---- "forloop helpers are consistent with the visited items" also after an error: a loop whose body
# ---- raises (and is suppressed further out in lax/warn mode) leaves nothing on the loop stack, so the
# ---- parentloop of later loops is right (C06's harness, for C13)
from contracts.C06 import _loop_args as _c06_loop_args, _with_contract as _c06_with_contract  # noqa: E402

_c06_with_contract("loop", _c06_loop_args, prop="C13", body_raises=True)
