"""C02 -- only Liquid errors escape parsing and rendering.

`raises` contracts (for all argument values of the tagged union) on the conversion helpers,
on every registered filter the executor can reach (the registered filter is the composition
decorator-wrapper(inner), built by executing the real decorators), and on the range / loop
conversion kernels.  Built-ins raise according to DESIGN section 3."""
import z3

from contracts.common import *  # noqa: F403
from pyvc import load
from pyvc.contract import contract
from pyvc.run import bounded, not_covered, structural
from pyvc.state import *  # noqa: F403
from pyvc.u import *  # noqa: F403


def json_like(c, v):
    """data values are JSON-like: str() of a non-string value is never empty; references are
    plain containers (no __liquid__/__html__/__int__ hooks)"""
    t = v.t
    c.requires(z3.Length(str_of_u(t)) > 0, "str() of a JSON-like non-string value is non-empty")
    for a in ("__liquid__", "__html__", "force_liquid_default"):
        c.requires(z3.Not(z3.And(U.is_ref(t), z3.Function("ref_hasattr$" + a, U, B)(t))), "plain data")
    for cls in ("Undefined", "Markup", "Decimal", "IterableDrop"):
        c.requires(z3.Not(z3.And(U.is_ref(t), z3.Function("ref_isinstance$" + cls, U, B)(t))), "plain data")


# ---- conversion helpers: exact raise sets their callers rely on --------------------------

@contract("liquid.limits:to_int", prop="C02")
def to_int(c):
    std_globals(c)
    v = c.any("val")
    json_like(c, v)
    c.call(v)
    c.raises("LiquidValueError", "ValueError", "TypeError", "OverflowError")
    c.ensures_exc("value-error-only-for-strings", lambda r: z3.Implies(z3.BoolVal(r.exc.cls == "ValueError"), z3.Or(U.is_str(v.t), U.is_flt(v.t), U.is_ref(v.t))))
    c.ensures_exc("overflow-only-for-infinite-floats", lambda r: z3.Implies(z3.BoolVal(r.exc.cls == "OverflowError"), U.is_flt(v.t)))
    c.replay("code", code=REPLAY)


def _conv(name, ndefault):
    @contract(f"liquid.filter:{name}", prop="C02")
    def conv(c):
        std_globals(c)
        v = c.any("val")
        json_like(c, v)
        d = c.any("default")
        c.requires(z3.Or(U.is_none(d.t), U.is_int(d.t)))
        c.call(v, d)
        # TypeError is converted by every filter decorator; anything else must be Liquid
        c.raises("LiquidError", "TypeError")
        c.replay("code", code=REPLAY)


for _n in ("int_arg", "num_arg", "decimal_arg"):
    _conv(_n, 1)


# ---- registered filters ------------------------------------------------------------------

FILTERS = {
    "liquid.builtin.filters.string": ["append", "capitalize", "downcase", "escape", "escape_once", "lstrip", "newline_to_br", "prepend", "remove", "remove_first", "remove_last",
                                      "replace", "replace_first", "replace_last", "upcase", "split", "strip", "rstrip", "strip_html", "strip_newlines", "truncate", "truncatewords",
                                      "url_encode", "url_decode", "base64_encode", "base64_decode", "base64_url_safe_encode", "base64_url_safe_decode", "squish", "slice_"],
    "liquid.builtin.filters.math": ["abs_", "at_most", "at_least", "ceil", "divided_by", "floor", "minus", "plus", "round_", "times", "modulo"],
    "liquid.builtin.filters.misc": ["size", "default"],
    "liquid.builtin.filters.extra": ["safe", "escapejs", "index"],
    "liquid.builtin.filters.array": ["last", "first"],
}


def _strip_tags(eng, st, args, kwargs):
    # html.parser based; trusted: str -> str, no exception for str input
    (v,) = args
    return [(st, VStr(z3.Function("strip_tags", S, S)(v.t)))]


def _filter(m, name):
    m = m.split("#")[0]
    mod = load.get_module(m)
    node = mod.funcs.get(name)
    if node is None:
        return

    @contract(f"{m}:{name}", prop="C02", name=f"filter {name}")
    def flt(c):
        std_globals(c)
        a = node.args
        args = [c.any(f"arg{i}") for i in range(len(a.args))]
        for v in args:
            json_like(c, v)
        kw = {}
        for k in a.kwonlyargs:
            if k.arg == "environment":
                kw[k.arg] = mk_env(c)
            elif k.arg == "context":
                kw[k.arg] = mk_ctx(c)
        c.summary("liquid.utils.html:strip_tags", _strip_tags)
        c.call(*args, **kw)
        c.raises("LiquidError")
        c.replay("code", code=REPLAY, )


for _m, _names in FILTERS.items():
    for _n in _names:
        _filter(_m, _n)


# ---- array filters: the registered filter is sequence_filter(flatten) o inner; the left value is
# ---- a scalar (wrapped into a one-item list by the decorator) or an array with a concrete spine of
# ---- 0..2 arbitrary JSON-like items (records, nested values, numbers, strings); other arguments
# ---- are arbitrary.  Bounded in the array length only.

ARRAY_FILTERS = ["join", "concat", "map_", "reverse", "sort", "sort_natural", "where", "reject", "find", "find_index", "has", "uniq", "compact", "sum_"]


def _array_filter(name, shape):
    m = "liquid.builtin.filters.array"
    node = load.get_module(m).funcs.get(name)
    if node is None:
        return

    @contract(f"{m}:{name}", prop="C02", name=f"filter {name}[left={shape}]")
    def af(c):
        c.eager_generators = True
        std_globals(c)
        a = node.args
        if shape == "scalar":
            left = c.any("arg0")
            json_like(c, left)
            c.requires(z3.Not(U.is_ref(left.t)), "a scalar left value (nil, boolean, number, string)")
        else:
            items = [c.any(f"item{i}") for i in range(int(shape))]
            for v in items:
                json_like(c, v)
                c.requires(z3.Not(z3.And(U.is_ref(v.t), z3.Or(z3.Function("ref_isinstance$list", U, B)(v.t), z3.Function("ref_isinstance$tuple", U, B)(v.t)))), "items are not themselves arrays (flatten recurses into those; same code)")
            left = c.st.alloc(HList(items=list(items)))
        args = [left] + [c.any(f"arg{i}") for i in range(1, len(a.args))]
        for v in args[1:]:
            json_like(c, v)
        if name == "concat":
            # the second array: not an array at all (any scalar), or an array of one arbitrary item
            c.requires(z3.Not(U.is_ref(args[1].t)), "second operand (a): a scalar")
        kw = {}
        for k in a.kwonlyargs:
            if k.arg == "environment":
                kw[k.arg] = mk_env(c)
            elif k.arg == "context":
                kw[k.arg] = mk_ctx(c)
        c.call(*args, **kw)
        c.raises("LiquidError")
        c.assume_note(f"BOUNDED in the array length only: left value {shape}; items and arguments arbitrary JSON-like values")
        c.crosscheck(off=True)
        c.replay("code", code=REPLAY)


import sys as _sys  # noqa: E402

_THOROUGH = "thorough" in " ".join(_sys.argv) or __import__("os").environ.get("VERIF_TIER") == "thorough"
for _n in ARRAY_FILTERS:
    for _shape in ("scalar", "0", "1", "2"):
        if _shape == "2" and _n in ("where", "reject", "find", "find_index", "has", "sum_") and not _THOROUGH:
            continue   # ~750 paths each: thorough tier only
        _array_filter(_n, _shape)


@contract("liquid.builtin.filters.array:concat", prop="C02", name="filter concat[left=1, second operand an array of 1]")
def concat_arrays(c):
    c.eager_generators = True
    std_globals(c)
    x, y = c.any("item0"), c.any("other0")
    json_like(c, x)
    json_like(c, y)
    for v in (x, y):
        c.requires(z3.Not(z3.And(U.is_ref(v.t), z3.Or(z3.Function("ref_isinstance$list", U, B)(v.t), z3.Function("ref_isinstance$tuple", U, B)(v.t)))), "items are not themselves arrays")
    c.call(c.st.alloc(HList(items=[x])), c.st.alloc(HList(items=[y])))
    c.raises("LiquidError")
    c.crosscheck(off=True)
    c.replay("code", code=REPLAY)


# ---- range / loop conversions -------------------------------------------------------------

@contract("liquid.builtin.expressions.primitive:RangeLiteral._make_range", prop="C02")
def make_range(c):
    std_globals(c)
    a, b = c.any("start"), c.any("stop")
    json_like(c, a)
    json_like(c, b)
    self = c.obj("liquid.builtin.expressions.primitive:RangeLiteral", "range")
    c.call(a, b, self_val=self)
    c.raises("LiquidError")
    c.replay("code", code=REPLAY)


@contract("liquid.builtin.tags.tablerow_tag:TablerowNode._int_or_zero", prop="C02")
def int_or_zero(c):
    std_globals(c)
    a = c.any("arg")
    json_like(c, a)
    self = c.obj("liquid.builtin.tags.tablerow_tag:TablerowNode", "tablerow")
    c.call(a, self_val=self)
    c.raises("LiquidError")
    c.replay("code", code=REPLAY)


@contract("liquid.extra.tags.translate_tag:TranslateNode.resolve_count", prop="C02")
def translate_count(c):
    std_globals(c)
    a = c.any("count")
    json_like(c, a)
    self = c.obj("liquid.extra.tags.translate_tag:TranslateNode", "translate", message_count_var=const("count"))
    scope = c.st.alloc(HDict(items={"count": a}))
    c.call(c.any("context"), scope, self_val=self)
    c.raises("LiquidError")
    c.replay("code", code=REPLAY)


@contract("liquid.builtin.expressions.loop:LoopExpression._to_int", prop="C02")
def loop_to_int(c):
    std_globals(c)
    a = c.any("obj")
    json_like(c, a)
    self = c.obj("liquid.builtin.expressions.loop:LoopExpression", "loop")
    c.call(a, self_val=self, token=NONE)
    c.raises("LiquidError")
    c.replay("code", code=REPLAY)


def _expr_value(eng, st, args, kwargs):
    return [(st, st.deref(args[0]).fields["__value__"])]


def _loop_eval(fname):
    for off_kind in ("expression", "continue", "none"):
        def _mk(off_kind):
            @contract(f"liquid.builtin.expressions.loop:LoopExpression.{fname}", prop="C02", name=f"LoopExpression.{fname}[offset={off_kind}]")
            def le(c):
                std_globals(c)
                EXP = "liquid.expression:Expression"
                it_v, lim_v, off_v = c.any("iterable_value"), c.any("limit_value"), c.any("offset_value")
                for v in (it_v, lim_v, off_v):
                    json_like(c, v)
                c.requires(z3.Not(z3.And(U.is_ref(it_v.t), z3.Function("ref_isinstance$Mapping", U, B)(it_v.t))), "mappings iterate their items (separate path)")
                c.requires(z3.Not(z3.And(U.is_ref(it_v.t), z3.Function("ref_isinstance$range", U, B)(it_v.t))))
                tok = NONE
                iterable = c.obj(EXP, "iterable_expr", __value__=it_v, token=tok)
                limit = c.obj(EXP, "limit_expr", __value__=lim_v, token=tok)
                if off_kind == "expression":
                    offset = c.obj(EXP, "offset_expr", __value__=off_v, token=tok)
                elif off_kind == "continue":
                    offset = c.obj("liquid.builtin.expressions.primitive:StringLiteral", "offset_literal", value=const("continue"), token=tok)
                else:
                    offset = NONE
                c.summary("liquid.expression:Expression.evaluate", _expr_value)
                c.summary("liquid.expression:Expression.evaluate_async", _expr_value)
                c.summary("liquid.builtin.expressions.loop:LoopExpression._slice", lambda eng, st, a, k: [(st, VTuple((NONE, const(0))))])
                c.summary("liquid.builtin.expressions.loop:LoopExpression._to_iter", lambda eng, st, a, k: [(st, VTuple((NONE, const(0))))])
                ctx = mk_ctx(c)
                self = c.obj("liquid.builtin.expressions.loop:LoopExpression", "loop", iterable=iterable, limit=limit, offset=offset, identifier=c.str("ident"), reversed=c.bool("rev"), cols=NONE)
                c.call(ctx, self_val=self)
                c.raises("LiquidError")
                c.replay("code", code=REPLAY)
        _mk(off_kind)


_loop_eval("evaluate")
_loop_eval("evaluate_async")


@contract("liquid.stringify:to_liquid_string", prop="C02")
def to_liquid_string(c):
    v = c.any("val")
    json_like(c, v)
    c.requires(z3.Not(z3.And(U.is_ref(v.t), z3.Function("ref_isinstance$list", U, B)(v.t))), "lists are joined item-wise (item stringification is the same function)")
    c.requires(z3.Not(z3.And(U.is_ref(v.t), z3.Function("ref_isinstance$range", U, B)(v.t))))
    c.call(v, c.bool("autoescape"))
    c.raises("LiquidError")
    c.replay("code", code=REPLAY)


@contract("liquid.stringify:to_liquid_string", prop="C02", name="to_liquid_string[a range of the render data]")
def to_liquid_string_range(c):
    c.call(VRange(c.int("start").t, c.int("stop").t), c.bool("autoescape"))
    c.raises("LiquidError")
    c.assume_note("range(start, stop) with arbitrary (also huge) integer bounds, step 1")
    c.replay("code", code=REPLAY_RANGE)


REPLAY_RANGE = r'''
def run(m):
    from liquid import Environment
    from liquid.exceptions import LiquidError
    bad = []
    for r in (range(0, 10**5000), range(-10**5000, 3), range(2, 5)):
        for src in ("{{ r }}", "{{ r | append: 'x' }}", "{% capture c %}{{ r }}{% endcapture %}"):
            try:
                Environment().from_string(src).render(r=r)
            except LiquidError:
                pass
            except BaseException as ex:
                bad.append((src, r.stop > 10**100 or r.start < -10**100, type(ex).__name__))
    return {"violated": bool(bad), "observed": bad[:4], "witness": "huge-range-stringified"}
'''


_H2 = load.exception_hierarchy()
lookup_warning_contracts("C02", sorted(n for n, anc in _H2.items() if "LiquidError" in anc and "LiquidInterrupt" not in anc and n != "LiquidInterrupt"))


import contracts.C02_nodes as _nodes  # noqa: E402

_nodes.register("C02")

not_covered("C02", "RecursionError (C09) and MemoryError", "babel/dateutil internals beyond their assumed exception sets; custom tags/filters",
            "array filters are proved for a scalar left value and for arrays with a spine of 0..2 (thorough; quick: 0..1 for where/reject/find/find_index/has/sum) arbitrary items; longer arrays, a left value that is a record, range or drop, and sort_numeric / date are covered by the bounded fuzz only",
            "node render methods: the escape lemma is proved for 25 node classes (sync and async; contracts/C02_nodes.py) with sub-expressions, child blocks and template loading as arbitrary callees that return or raise Liquid errors; not reached: " + "; ".join(f"{k[1]} ({v})" for k, v in _nodes.NOT_REACHED.items()) + "; the parser layer is covered by the bounded fuzz")

bounded("C02", "bounded/C02.py")

REPLAY = r'''
def run(m):
    """replay the model at template level: apply the filter/kernel to values from the model
    plus the standard hostile pool; oracle = only LiquidError subclasses escape"""
    from bounded.C02 import run_templates, POOL
    vals = dict(POOL)
    def conv(v):
        if isinstance(v, dict) and "$float" in v: return float("inf")
        if isinstance(v, dict): return [1]
        return v
    for k, v in (m or {}).items():
        if k.startswith("arg") or k in ("val", "start", "stop", "obj"):
            vals["m_" + k] = conv(v)
    bad = run_templates(vals, limit=1)
    return {"failing": bool(bad), "witness": bad[0]["witness"] if bad else "only-liquid-errors", "call": bad[0]["source"] if bad else "filter x hostile value sweep", "result": bad[0]["got"] if bad else "ok"}
'''

# ---- RenderContext.get / get_async with the int -> str digit limit modelled: building the
# ---- "x.y is undefined" hint from *evaluated* path segments must not let ValueError out
# ---- (path segments come from the render data: `{{ [b] }}`, `{{ a[b] }}` with a huge int b)

_CTX = "liquid.context:RenderContext"

REPLAY_GET_HUGE = r'''
def run(m):
    import asyncio
    from liquid import Environment
    from liquid.exceptions import LiquidError
    bad = []
    for src in ("{{ [b] }}", "{{ [b].x }}", "{{ a[b] }}", "{{ a[b].c }}", "{% if [b] %}1{% endif %}"):
        for b in (10**5000, -10**5000):
            t = Environment().from_string(src)
            for f in (lambda: t.render(a={"k": 1}, b=b), lambda: asyncio.run(t.render_async(a={"k": 1}, b=b))):
                try:
                    f()
                except LiquidError:
                    pass
                except BaseException as ex:
                    bad.append((src, type(ex).__name__))
    return {"violated": bool(bad), "observed": bad[:4], "witness": "undefined-hint-of-a-huge-int-segment"}
'''

for _sfx in ("", "_async"):
    for _n in (1, 2, 3):
        def _mkget(sfx, n):
            @contract(_CTX + ".get" + sfx, prop="C02", name=f"get{sfx}[path-length-{n}: no ValueError from the int->str digit limit while describing a missing path]")
            def g(c):
                c.model_int_str_limit()
                env = mk_env(c, undefined=VClass("liquid.undefined", "Undefined"))
                ctx = mk_ctx(c, env)
                root = c.any("root")
                segs = [c.any(f"segment{i}") for i in range(1, n)]
                path = c.st.alloc(HList(items=[root, *segs]))

                def item(eng, st, a, k):
                    outs = [(st.fork(), VU(z3.Const(f"item_{len(st.log)}", U)))]
                    for cls in ("KeyError", "IndexError", "TypeError"):
                        outs.append((st.fork(), Raised(VExc(cls, (const(cls),)))))
                    st.log.append(("get_item",))
                    return outs

                c.summary(_CTX + ".get_item" + sfx, item)
                c.call(path, self_val=ctx, token=NONE)
                c.raises("LiquidError")
                c.ensures("completes-with-a-value", lambda r: z3.BoolVal(True))
                c.assume_note("get_item raises only the lookup errors of its own contract (C16); path segments are arbitrary values of the render data")
                c.replay("code", code=REPLAY_GET_HUGE)
        _mkget(_sfx, _n)

# ---- ... and the item getter raises only the lookup errors get / get_async convert (the
# ---- assumption of the contracts above, discharged here for C02 as well as for C16)

REPLAY_ITEM = r'''
def run(m):
    import asyncio
    from liquid import Environment
    t = Environment().from_string("[{{ d.first }}|{{ d.last }}|{{ d.size }}|{{ e.first }}|{{ s.first }}|{{ n.first }}]")
    out = []
    for f in (lambda: t.render(d={}, e=[], s="", n=None), lambda: asyncio.run(t.render_async(d={}, e=[], s="", n=None))):
        try:
            out.append(f())
        except BaseException as ex:
            out.append(type(ex).__name__)
    return {"violated": out != ["[||0|||]", "[||0|||]"], "observed": out, "witness": "item-getter-raises-a-non-lookup-error"}
'''

for _sfx in ("", "_async"):
    def _mkgi(sfx):
        @contract(_CTX + ".get_item" + sfx, prop="C02", name=f"get_item{sfx}[raises only the lookup errors that get{sfx} turns into undefined]")
        def gi(c):
            env = mk_env(c)
            ctx = mk_ctx(c, env)
            obj, key = c.any("obj"), c.any("key")
            c.call(obj, key, self_val=ctx)
            c.raises("KeyError", "IndexError", "TypeError")
            c.ensures("completes", lambda r: z3.BoolVal(True))
            c.replay("code", code=REPLAY_ITEM)
    _mkgi(_sfx)

# ---- the translate tag's own helpers (the node itself is outside the node-layer escape lemma:
# ---- class-level NullTranslations instance): whatever values the tag's arguments evaluate to,
# ---- resolving the message context and the count lets only Liquid errors out

_TTAG = "liquid.extra.tags.translate_tag"

REPLAY_TRANSLATE_ARGS = r'''
def run(m):
    import asyncio
    from liquid import Environment
    from liquid.exceptions import LiquidError
    env = Environment(extra=True)
    bad = []
    for src in ("{% translate context: h %}x{% endtranslate %}", "{% translate count: h %}x{% plural %}y{% endtranslate %}", "{% translate context: h, count: h %}x{% plural %}y{% endtranslate %}"):
        for h in (10**5000, -10**5000, 1.5, [1], {"a": 1}, None, True, "c"):
            t = env.from_string(src)
            for f in (lambda: t.render(h=h), lambda: asyncio.run(t.render_async(h=h))):
                try:
                    f()
                except LiquidError:
                    pass
                except BaseException as ex:
                    bad.append((src, type(h).__name__, type(ex).__name__))
    return {"violated": bool(bad), "observed": bad[:4], "witness": "translate-tag-argument-value"}
'''

for _helper in ("resolve_message_context", "resolve_count"):
    def _mkhelper(helper):
        @contract(f"{_TTAG}:TranslateNode.{helper}", prop="C02", name=f"translate-tag.{helper}[any argument value: only Liquid errors]")
        def th(c):
            std_globals(c)
            v = c.any("argument_value")
            json_like(c, v)
            given = c.bool("argument_given")
            self = c.obj(_TTAG + ":TranslateNode", "node", message_count_var=const("count"), message_context_var=const("context"), token=NONE)

            def entry(eng, cc, func):
                outs = []
                for s, g in eng.branch(cc.st, given.t):
                    key = "count" if helper == "resolve_count" else "context"
                    scope = s.alloc(HDict(items={key: v} if g else {}))
                    outs.extend(eng.run(func, s, [c.any("context"), scope], {}, self_val=self))
                return outs
            c.entry = entry
            c.raises("LiquidError")
            c.replay("code", code=REPLAY_TRANSLATE_ARGS)
    _mkhelper(_helper)


# ---- a range of the render data as the iterable of a loop: len() of a range with more than
# ---- sys.maxsize items raises OverflowError (machine limits modelled for C02)

REPLAY_HUGE_RANGE = r'''
def run(m):
    import asyncio
    from liquid import Environment
    from liquid.exceptions import LiquidError
    bad = []
    for src in ("{% for i in r %}{{ i }}{% break %}{% endfor %}", "{% tablerow i in r limit: 1 %}{{ i }}{% endtablerow %}"):
        for r in (range(0, 10**30), range(-10**30, 10**30), range(0, 3)):
            t = Environment().from_string(src)
            for f in (lambda: t.render(r=r), lambda: asyncio.run(t.render_async(r=r))):
                try:
                    f()
                except LiquidError:
                    pass
                except BaseException as ex:
                    bad.append((src, r.stop > 10, type(ex).__name__))
    return {"violated": bool(bad), "observed": bad[:4], "witness": "loop-over-a-huge-range"}
'''


@contract("liquid.builtin.expressions.loop:LoopExpression._to_iter", prop="C02", name="_to_iter[a range of the render data, any bounds]")
def to_iter_range(c):
    ctx = c.obj(_CTX, "context", env=c.obj("liquid.environment:Environment", "env", string_sequences=c.bool("string_sequences")))
    self = c.obj("liquid.builtin.expressions.loop:LoopExpression", "loop", token=NONE, iterable=c.obj("liquid.expression:Expression", "iterable", token=NONE))
    c.call(VRange(c.int("start").t, c.int("stop").t), ctx, self_val=self)
    c.raises("LiquidError")
    c.replay("code", code=REPLAY_HUGE_RANGE)


# ---- the extends tag (outside the generic node lemma: it builds closure tables): with the chain
# ---- walk and the base template's render as arbitrary callees, only Liquid errors and the
# ---- StopRender interrupt leave it (C18's harness)
from contracts.C18 import extends_node_contract  # noqa: E402

for _sfx in ("", "_async"):
    extends_node_contract("C02", _sfx, failing_callees=True)


# ---- the limited output stream under the node layer: write() returns an int for every string (the
# ---- render methods sum the return values: None would be a TypeError) and raises only its limit error
from contracts.C07 import _limited_write  # noqa: E402

_limited_write("C02")
