"""C10 -- literal text, raw blocks, comments and whitespace control.

The body of `_tokenize_template`'s loop is verified, branch by branch, against an abstract
match record (kind, group texts, offsets) constrained only by the re facts of DESIGN 3."""
import ast
import re

import z3

from contracts.common import *  # noqa: F403
from pyvc import flow, load
from pyvc.contract import contract
from pyvc.lib import _number_loops
from pyvc.run import bounded, not_covered, structural
from pyvc.state import *  # noqa: F403
from pyvc.u import *  # noqa: F403

LEX = "liquid.lex"
TOK = load.get_module("liquid.token")
T = lambda n: flow.const_eval(TOK, TOK.consts[n]) if n in TOK.consts else n  # noqa: E731


def closing_hyphen_groups():
    """h(K): for each rule, the optional-hyphen group that immediately precedes the final
    closing delimiter of its pattern -- computed from the real pattern strings"""
    fn = load.get_module(LEX).funcs["compile_liquid_rules"]
    pats = {}
    for st in ast.walk(fn):
        if isinstance(st, ast.Assign) and isinstance(st.targets[0], ast.Name) and st.targets[0].id.endswith("_pattern"):
            def flat(e):
                if isinstance(e, ast.JoinedStr):
                    return "".join(flat(v) for v in e.values)
                if isinstance(e, ast.Constant) and isinstance(e.value, str):
                    return e.value
                if isinstance(e, ast.FormattedValue):
                    return "{" + ast.unparse(e.value) + "}"
                if isinstance(e, ast.BinOp) and isinstance(e.op, ast.Add):
                    return flat(e.left) + flat(e.right)
                return "?"
            text = flat(st.value)
            m = re.search(r"\(\?P<(\w+)>-\?\)\{(tag_e|stmt_e|comment_e)\}$", text)
            key = st.targets[0].id
            while key in pats:
                key += "'"
            pats[key] = (m.group(1) if m else None, text)
    return pats


def run_body(kind, groups, lstrip_in, comment_depth=0):
    """contract driver: execute one iteration of the tokenizer loop body"""
    def entry(eng, c, func):
        st = c.st
        node = func.node
        _number_loops(node, c.target)
        loop = [n for n in ast.walk(node) if isinstance(n, ast.For)][0]
        m = st.alloc(HObj(("re", "Match"), {"lastgroup": const(kind), "__groups__": VConst(dict(groups["text"])), "__starts__": VConst(dict(groups["start"])), "__ends__": VConst(dict(groups.get("end", {})))}, {}, "match"))
        st.locals.update({"source": c.source, "rules": VConst(("pattern",)), "lstrip": lstrip_in, "comment_index": c.int("comment_index"), "comment_text": st.alloc(HList(items=[])),
                          "comment_depth": const(comment_depth), "match": m,
                          "tag_start_string": c.delims[0], "tag_end_string": c.delims[1], "statement_start_string": c.delims[2], "statement_end_string": c.delims[3],
                          "__frame__": VConst({"module": func.module, "cls": None, "closure": None, "qual": func.qual})})
        st.ghost["__gen__"] = ((),)
        outs = []
        for s, o in eng.exec_block(loop.body, st):
            toks = list(s.ghost["__gen__"][-1])
            if isinstance(o, Raised):
                outs.append((s, o))
            else:
                outs.append((s, Ret(VTuple((s.locals["lstrip"], VTuple(tuple(toks)))))))
        return outs
    return entry


def tok_fields(r, t):
    return r.st.deref(t).fields


def _branch(kind, label, groups, post, hy):
    for lin in (False, True):
        def _mk(lin):
            @contract(LEX + ":_tokenize_template", prop="C10", name=f"loop-body[{label},lstrip={lin}]")
            def body(c):
                c.eager_generators = True
                c.source = c.str("source")
                c.delims = [c.str(n) for n in ("tag_start_string", "tag_end_string", "statement_start_string", "statement_end_string")]
                g = {"text": {k: c.str("grp_" + k) for k in groups}, "start": {k: c.int("start_" + k) for k in groups}}
                g["text"]["0"] = c.str("whole_match")
                g["start"]["0"] = c.int("match_start")
                g["end"] = {"0": c.int("match_end")}
                for k in groups:
                    if k in ("rss", "rst", "rsr", "rsr_e", "rsd", "lsd", "rsc", "rstrip"):
                        c.requires(z3.Or(g["text"][k].t == z3.StringVal(""), g["text"][k].t == z3.StringVal("-")), f"optional hyphen group {k} is '' or '-'")
                c.entry = run_body(kind, g, VBool(z3.BoolVal(lin)))
                c.g = g
                post(c, g, lin)
                if hy:
                    c.ensures(f"closing-hyphen-of-{label}-strips-the-text-that-follows", lambda r: r.value.items[0].t == (g["text"][hy].t != z3.StringVal("")) if isinstance(r.value.items[0], VBool) else r.engine.truth(r.st, r.value.items[0]) == (g["text"][hy].t != z3.StringVal("")))
                c.replay("code", code=REPLAY)
        _mk(lin)


H = closing_hyphen_groups()


def post_output(c, g, lin):
    def p(r):
        toks = r.value.items[1].items
        if len(toks) != 2:
            return z3.BoolVal(False)
        a, b = tok_fields(r, toks[0]), tok_fields(r, toks[1])
        return z3.And(box(a["kind"]) == box(const(T("TOKEN_OUTPUT"))), box(b["kind"]) == box(const(T("TOKEN_EXPRESSION"))), b["value"].t == g["text"]["stmt"].t, b["start_index"].t == g["start"]["stmt"].t, a["start_index"].t == g["start"]["0"].t)
    c.ensures("emits-OUTPUT-then-EXPRESSION-at-the-statement-offset", p)
    c.raises()


def post_tag(c, g, lin):
    def p(r):
        toks = r.value.items[1].items
        if not toks:
            return z3.BoolVal(False)
        a = tok_fields(r, toks[0])
        ok = z3.And(box(a["kind"]) == box(const(T("TOKEN_TAG"))), a["value"].t == g["text"]["name"].t, a["start_index"].t == g["start"]["name"].t)
        has_expr = g["text"]["expr"].t != z3.StringVal("")
        if len(toks) == 2:
            b = tok_fields(r, toks[1])
            return z3.And(ok, has_expr, box(b["kind"]) == box(const(T("TOKEN_EXPRESSION"))), b["value"].t == g["text"]["expr"].t, b["start_index"].t == g["start"]["expr"].t)
        return z3.And(ok, z3.Not(has_expr), z3.BoolVal(len(toks) == 1))
    c.ensures("emits-TAG-at-the-name-offset-and-EXPRESSION-iff-non-empty", p)
    c.requires(c.g["text"]["name"].t != z3.StringVal("comment"), "not the start of a block comment (separate contract)")
    c.raises()


def post_verbatim(group, kindname):
    def post(c, g, lin):
        def p(r):
            toks = r.value.items[1].items
            if len(toks) != 1:
                return z3.BoolVal(False)
            a = tok_fields(r, toks[0])
            return z3.And(box(a["kind"]) == box(const(T(kindname))), a["value"].t == g["text"][group].t)
        c.ensures(f"body-emitted-verbatim-as-{kindname}", p)
        c.raises()
    return post


def post_content(c, g, lin):
    lst = z3.Function("str_lstrip", S, S)
    rst = z3.Function("str_rstrip", S, S)
    whole = g["text"]["0"].t
    expected = whole
    if lin:
        expected = lst(expected)
    expected = z3.If(g["text"]["rstrip"].t != z3.StringVal(""), rst(expected), expected)
    def p(r):
        toks = r.value.items[1].items
        if len(toks) > 1:
            return z3.BoolVal(False)
        if not toks:
            return expected == z3.StringVal("")
        a = tok_fields(r, toks[0])
        return z3.And(box(a["kind"]) == box(const(T("TOKEN_CONTENT"))), a["value"].t == expected, expected != z3.StringVal(""))
    c.ensures("text-emitted-verbatim-except-requested-whitespace-control", p)
    c.ensures("lstrip-flag-consumed-only-by-content", lambda r: z3.BoolVal(True))
    c.raises("LiquidSyntaxError")
    c.ensures_exc("syntax-error-only-for-text-that-starts-with-an-opening-delimiter-of-this-environment", lambda r: z3.Or(z3.PrefixOf(c.delims[2].t, expected), z3.PrefixOf(c.delims[0].t, expected)))


_branch(T("TOKEN_OUTPUT"), "output", ["stmt", "rss"], post_output, H["output_pattern"][0])
_branch("TAG", "tag", ["name", "expr", "rst", "pre"], post_tag, H["tag_pattern"][0])
_branch("RAW", "raw", ["raw", "rsr", "rsr_e"], post_verbatim("raw", "TOKEN_CONTENT"), H["raw_pattern"][0])
_branch("DOC", "doc", ["doc", "lsd", "rsd"], post_verbatim("doc", "TOKEN_DOC"), H["doc_pattern"][0])
_branch("COMMENT", "comment", ["comment", "rsc"], post_verbatim("comment", "COMMENT"), H["comment_pattern"][0])
_branch(T("TOKEN_CONTENT"), "content", ["rstrip"], post_content, None)


# ---- comment-like tags consume exactly their own tokens (the parser advances once more after
# ---- every tag): text that follows a comment is never swallowed

def _inline_comment(with_text):
    @contract("liquid.builtin.tags.inline_comment_tag:InlineCommentTag.parse", prop="C10", name=f"InlineCommentTag.parse[{'with-text' if with_text else 'empty'}]")
    def icp(c):
        def tok(kind, name):
            return c.obj("liquid.token:Token", name, kind=const(kind), value=c.str(name + "_value"), start_index=c.int(name + "_si"), source=c.str("src"))
        toks = [tok(T("TOKEN_TAG"), "tag")] + ([tok(T("TOKEN_EXPRESSION"), "comment_text")] if with_text else []) + [tok(T("TOKEN_CONTENT"), "following_text")]
        stream = c.obj("liquid.stream:TokenStream", "stream", tokens=c.st.alloc(HList(items=list(toks))), pos=const(0), block_depth=const(0))
        tag = c.obj("liquid.builtin.tags.inline_comment_tag:InlineCommentTag", "tag", env=c.any("env"))
        c.call(stream, self_val=tag)
        last_own = 1 if with_text else 0
        c.ensures("stops-on-its-own-last-token(the-following-text-is-not-consumed)", lambda r: r.st.deref(stream).fields["pos"].t == last_own)
        c.raises("LiquidSyntaxError")
        c.ensures_exc("error-only-for-comment-text", lambda r: z3.BoolVal(with_text))
        c.replay("code", code=REPLAY_INLINE)


_inline_comment(True)
_inline_comment(False)

REPLAY_INLINE = r'''
def run(m):
    from liquid import Environment
    env = Environment()
    out = [env.from_string(s).render() for s in ("a {% # %} b", "a {%#%}b", "a {% # note %} b", "a {%- # -%} b{{ 1 }}")]
    return {"violated": out != ["a  b", "a b", "a  b", "ab1"], "observed": out}
'''


@structural("C10", "pattern-shape")
def pattern_shape():
    obs = []
    for name, (grp, text) in sorted(H.items()):
        if name.startswith("content_pattern"):
            continue
        obs.append(flow.ob(f"{name}:closing-delimiter-is-preceded-by-an-optional-hyphen-group", grp is not None, f"h = {grp}; pattern = {text[:120]}"))
        # whitespace control can be requested on EVERY opening delimiter, also the one of an end tag
        # inside a block-like pattern ({%- enddoc %}, {%- endraw %}): each opening placeholder in a rule
        # pattern is directly followed by an optional hyphen (the comment rules have none by design)
        # the body of a verbatim block may be EMPTY ({% doc %}{% enddoc %}): its group is `.*?`
        for body in ("raw", "doc", "comment"):
            if f"(?P<{body}>" in text:
                obs.append(flow.ob(f"{name}:the-body-of-the-block-may-be-empty", f"(?P<{body}>.*?)" in text, text[text.index(f"(?P<{body}>"):][:24], replay_schema="code", replay_extra={"code": REPLAY_OPEN_HYPHEN}))
        closes = [m_.start() for m_ in re.finditer(r"\{(tag_e|stmt_e)\}", text)]
        bare_c = [text[max(0, b - 14):b + 8] for b in closes if not (text[max(0, b - 2):b] == "-?" or re.search(r"\(\?P<\w+>-\?\)$", text[:b]))]
        obs.append(flow.ob(f"{name}:every-closing-delimiter-may-carry-a-hyphen", not bare_c, f"closing delimiters without an optional hyphen: {bare_c}", replay_schema="code", replay_extra={"code": REPLAY_OPEN_HYPHEN}))
        opens = [m_.end() for m_ in re.finditer(r"\{(tag_s|stmt_s)\}", text)]
        bare = [text[max(0, e - 8):e + 12] for e in opens if not (text[e:e + 2] == "-?" or text[e:e + 10].startswith("(?P<") and "-?)" in text[e:e + 16])]
        obs.append(flow.ob(f"{name}:every-opening-delimiter-may-carry-a-hyphen", not bare, f"opening delimiters without an optional hyphen: {bare}", replay_schema="code", replay_extra={"code": REPLAY_OPEN_HYPHEN}))
    # a text run ends at the next opening delimiter or at the END of the source: `$` also
    # matches before a final newline and would split "a\n" into two runs (the second one
    # is then stripped by a pending closing hyphen), `\Z` does not
    for cname, ctext in sorted((k, v[1]) for k, v in H.items() if k.startswith("content_pattern")):
      obs.append(flow.ob(f"{cname}:a-text-run-ends-only-at-an-opening-delimiter-or-the-end-of-the-source(\\Z)", ctext.endswith("|\\Z)") and "$" not in ctext, f"pattern = {ctext[:140]}", replay_schema="code", replay_extra={"code": REPLAY_EOL}))
      # the optional hyphen of an OPENING delimiter is looked for after every kind of opening delimiter
      import re as _re
      shape = _re.search(r"\(\?=\(\((\{\w+\}\|)+\{\w+\}\)\(\?P<rstrip>-\?\)\)\|", ctext)
      obs.append(flow.ob(f"{cname}:the-opening-hyphen-group-follows-every-opening-delimiter-alternative", shape is not None, f"pattern = {ctext[:140]}", replay_schema="code", replay_extra={"code": REPLAY_EOL}))
    # rendering side: comment/doc nodes write nothing, content writes exactly its text
    for m, cls, expect in (("liquid.builtin.tags.comment_tag", "CommentNode", "nothing"), ("liquid.builtin.tags.doc_tag", "DocNode", "nothing"), ("liquid.builtin.tags.inline_comment_tag", "InlineCommentNode", "nothing"), ("liquid.builtin.content", "ContentNode", "text")):
        res = load.find_method(m, cls, "render_to_output")
        if res is None:
            obs.append(flow.ob(f"{cls}.render_to_output:found", False, "missing"))
            continue
        writes = [flow.dotted(c) for c in flow.calls(res[2]) if flow.call_name(c) == "write"]
        ok = (not writes) if expect == "nothing" else (writes == ["buffer.write(self.text)"])
        obs.append(flow.ob(f"{cls}.render_to_output:writes-{expect}", ok, str(writes)))
    return obs


# ---- the liquid tag's line tokenizer (one arbitrary iteration, C20's harness): a comment line
# ---- hides itself only -- the scan of the tag goes on
from contracts.C20 import _liquid_tag_tokens  # noqa: E402

for _ep in (True, False):
    _liquid_tag_tokens(_ep, prop="C10")

not_covered("C10", "that the regular expressions delimit text, raw blocks and comments as intended (laziness/look-ahead of `re` are not modelled): bounded reference-tokenizer check",
            "nested block comments (comment_depth > 0 branch) are covered by the bounded check only", "the liquid tag's inner tokenizer (bounded check)")

bounded("C10", "bounded/C10.py")

REPLAY_OPEN_HYPHEN = r'''
def run(m):
    from liquid import Environment
    env = Environment()
    bad = []
    for src, want in (("A {% doc %}d{%- enddoc %} B {% doc %}d{% enddoc %} C", "A  B  C"), ("A {% raw %} r {%- endraw %} B", "A  r  B"), ("a {%- doc -%} x {%- enddoc -%} b", "ab"),
                      ("A {% doc %}{{ unclosed {%- enddoc %}B", "A B"), ("A{% doc -%} {% if user %} {% enddoc %}B", "AB"), ("A{% doc %}{% enddoc %}B{% doc %}x{% enddoc %}C", "ABC"), ("a {% comment %}{% endcomment -%} b", "a b"), ("a {% comment -%}{% endcomment %} b", "a  b"), ("A {%- raw -%} {{ x }} {%- endraw -%} B", "A {{ x }} B")):
        try:
            got = env.from_string(src).render()
        except Exception as e:
            got = type(e).__name__
        if got != want:
            bad.append((src, got, want))
    return {"violated": bool(bad), "observed": bad[:3], "witness": "hyphen-on-an-inner-opening-delimiter"}
'''

REPLAY_EOL = r'''
def run(m):
    from liquid import Environment
    got = Environment().from_string("{{ x -}}a\n").render(x="X")
    return {"violated": got != "Xa\n", "observed": got}
'''


REPLAY = r'''
def run(m):
    from bounded.C10 import run as brun
    r = brun("quick", 0)
    v = r["violations"]
    return {"failing": bool(v), "witness": v[0]["witness"] if v else "whitespace-control", "call": v[0]["source"] if v else "piece sweep", "result": v[0]["got"] if v else "ok"}
'''
