"""C03 -- lax and warn modes suppress errors without changing correct output."""
import ast

import z3

from contracts.common import *  # noqa: F403
from pyvc import flow, load
from pyvc.contract import contract
from pyvc.run import bounded, not_covered, structural
from pyvc.state import *  # noqa: F403
from pyvc.u import *  # noqa: F403

MODES = ("STRICT", "WARN", "LAX")


def mode_val(m):
    return VConst(("enum", "Mode", m))


def warns(r):
    return [e for e in r.st.log if e[0] == "warn"]


_H = load.exception_hierarchy()
LIQUID_ERRORS = sorted(n for n, anc in _H.items() if "LiquidError" in anc and "LiquidInterrupt" not in anc and n != "LiquidInterrupt")


def _lookup_warning(eng, st, args, kwargs):
    """callee contract of exceptions.lookup_warning: total -- a warning class for every error class"""
    return [(st, VConst(("warning-class",)))]


lookup_warning_contracts("C03", LIQUID_ERRORS)


def _error_contract(target, mk_self, label):
    for m, cls in [(m, cls) for m in MODES for cls in (LIQUID_ERRORS if m == "WARN" else ["LiquidSyntaxError", "UndefinedError"])]:
        def _mk(m, cls):
            @contract(target, prop="C03", name=f"{label}[{m},{cls}]")
            def err(c):
                self = mk_self(c, m)
                c.summary("liquid.exceptions:lookup_warning", _lookup_warning)
                exc = VExc(cls, (c.str("msg"),))
                c.call(exc, self_val=self)
                if m == "STRICT":
                    c.raises(cls)
                    c.ensures("strict-always-raises", lambda r: z3.BoolVal(False))
                    c.ensures_exc("raises-the-error-and-emits-no-warning", lambda r: z3.BoolVal(r.exc.cls == cls and not warns(r)))
                elif m == "WARN":
                    c.raises()
                    c.ensures("exactly-one-warning-no-raise", lambda r: z3.BoolVal(len(warns(r)) == 1))
                else:
                    c.raises()
                    c.ensures("silently-ignored", lambda r: z3.BoolVal(len(warns(r)) == 0))
                c.replay("code", code=REPLAY)
        _mk(m, cls)


_error_contract(ENV + ".error", lambda c, m: c.obj(ENV, "env", mode=mode_val(m)), "Environment.error")
_error_contract(CTX + ".error", lambda c, m: mk_ctx(c, mk_env(c, mode=mode_val(m))), "RenderContext.error")


def _parse_summary(eng, st, args, kwargs):
    """Tag.parse: returns a node, or raises a LiquidError (C02) with or without a token"""
    ok = st.fork()
    node = ok.alloc(HObj(("liquid.ast", "Node"), {"token": NONE}, {}, "parsed_node"))
    bad1 = st.fork()
    bad2 = st.fork()
    return [(ok, node), (bad1, Raised(VExc("LiquidSyntaxError", (const("boom"),)))), (bad2, Raised(VExc("LiquidTypeError", (const("boom"),))))]


def _eat_block(eng, st, args, kwargs):
    st.log.append(("eat_block",))
    return [(st, NONE)]


for _m in MODES:
    def _mk(m):
        @contract("liquid.tag:Tag.get_node", prop="C03", name=f"Tag.get_node[{m}]")
        def get_node(c):
            env = c.obj(ENV, "env", mode=mode_val(m))
            stream = c.obj("liquid.stream:TokenStream", "stream", current=c.obj("liquid.token:Token", "tok", kind=c.str("kind"), value=c.str("value")))
            tag = c.obj("liquid.tag:Tag", "tag", env=env, block=c.bool("is_block"), end=c.str("end"))
            c.summary("liquid.tag:Tag.parse", _parse_summary)
            c.summary("liquid.exceptions:lookup_warning", lambda eng, st, a, k: [(st, VConst(("warning-class",)))])
            c.summary("liquid.parser:eat_block", _eat_block)
            c.call(stream, self_val=tag)
            if m == "STRICT":
                c.raises("LiquidError")
                c.ensures("returns-the-parsed-node-when-parse-succeeds", lambda r: z3.BoolVal(r.st.deref(r.value).name == "parsed_node"))
            else:
                c.raises()
                c.ensures("never-raises-returns-node-or-IllegalNode", lambda r: z3.BoolVal(r.st.deref(r.value).name == "parsed_node" or r.st.deref(r.value).cls[1] == "IllegalNode"))
                c.ensures("warns-exactly-when-parse-failed", lambda r: z3.BoolVal((len(warns(r)) == (1 if m == "WARN" else 0)) if r.st.deref(r.value).cls[1] == "IllegalNode" else not warns(r)))
            c.replay("code", code=REPLAY)
    _mk(_m)


def _node_render(eng, st, args, kwargs):
    """Node.render: returns, or raises any of the exception kinds the render loop handles"""
    outs = [(st.fork(), VInt(z3.IntVal(0)))]
    for cls in ("LiquidSyntaxError", "UndefinedError", "BreakLoop", "ContinueLoop", "StopRender", "ContextDepthError"):
        outs.append((st.fork(), Raised(VExc(cls, (const(cls),)))))
    return outs


for _m in MODES:
    for _partial, _bs, _suffix in [(p, b, s) for p, b in ((False, False), (True, False), (True, True)) for s in ("", "_async")]:
        def _mk(m, partial, bs, suffix=_suffix):
            @contract(TEMPLATE + ".render_with_context" + suffix, prop="C03", name=f"render_with_context{suffix}[{m},partial={partial},block_scope={bs}]")
            def rwc(c):
                env = mk_env(c, mode=mode_val(m))
                ctx = mk_ctx(c, env)
                c.requires(c.st.deref(env).fields["context_depth_limit"].t >= 4, "context_depth_limit >= size of a fresh scope (4)")
                nodes = c.list("nodes")
                t = c.obj(TEMPLATE, "template", env=env, nodes=nodes)
                buf = c.obj("io:StringIO", "buffer", __text__=c.str("out"))
                c.summary("liquid.ast:Node.render" + suffix, _node_render)
                if suffix:
                    c.assume_note("await is erased: awaiting a coroutine is treated as calling it (DESIGN 3, shared with C01)")
                def node_elem(st, term):
                    return st.alloc(HObj(("liquid.ast", "Node"), {"token": NONE}, {}, "node"))
                c.invariant(0, lambda e: z3.BoolVal(True), havoc_heap=lambda st: [], elem=node_elem)
                c.summary("liquid.exceptions:lookup_warning", lambda eng, st, a, k: [(st, VConst(("warning-class",)))])
                c.call(ctx, buf, self_val=t, partial=const(partial), block_scope=const(bs))
                allowed = []
                if m == "STRICT":
                    allowed = ["LiquidError", "LiquidInterrupt"]
                elif partial and not bs:
                    allowed = ["LiquidInterrupt"]  # re-raised to the enclosing loop of the parent template
                c.raises(*allowed)
                c.ensures("completes", lambda r: z3.BoolVal(True))
                c.assume_note("render loop body verified for an arbitrary node (loop invariant True: the loop keeps no state of its own)")
                c.replay("code", code=REPLAY)
        _mk(_m, _partial, _bs)


@structural("C03", "mode-guards")
def mode_guards():
    """Every read of the tolerance mode outside error() only decides whether an error is
    raised: the test has the form `<env>.mode == Mode.STRICT [and C]` and its body ends in
    `raise` with no else-branch, so a run that succeeds in STRICT takes the same path in any
    mode.  (Environment.__hash__/__init__ store or hash the mode and are exempt.)"""
    obs = []
    n = 0
    for m in load.all_modules():
        mod = load.get_module(m)
        pm = flow.parents(mod.tree)
        for node in ast.walk(mod.tree):
            if not (isinstance(node, ast.Attribute) and node.attr == "mode" and isinstance(node.ctx, ast.Load)):
                continue
            recv = flow.dotted(node.value)
            if recv not in ("env", "self.env", "self", "context.env", "environment"):
                continue
            fns = flow.enclosing(pm, node, (ast.FunctionDef, ast.AsyncFunctionDef))
            fn = fns[0] if fns else None
            clss = flow.enclosing(pm, node, (ast.ClassDef,))
            cname = clss[0].name if clss else ""
            if recv == "self" and cname != "Environment":
                continue  # tag-specific constant `mode = Mode.LAX`, not the tolerance mode
            n += 1
            where = f"{m}:{cname + '.' if cname else ''}{fn.name if fn else '?'}@{node.lineno}"
            if fn is not None and fn.name in ("error", "__hash__", "__init__", "__eq__"):
                obs.append(flow.ob(f"{where}:mode-read-in-{fn.name}", True, "routing / identity only"))
                continue
            iff = None
            for anc in flow.enclosing(pm, node, (ast.If,)):
                if any(node is x for x in ast.walk(anc.test)):
                    iff = anc
                    break
            ok = False
            detail = "mode read outside an if-test"
            if iff is not None:
                test = flow.dotted(iff.test)
                strict_only = f"{recv}.mode == Mode.STRICT" in test and " or " not in test
                raises = bool(iff.body) and isinstance(iff.body[-1], ast.Raise)
                ok = strict_only and raises and not iff.orelse
                detail = f"if {test[:90]}: ... {'raise' if raises else 'NO RAISE'}{' else: ...' if iff.orelse else ''}"
            obs.append(flow.ob(f"{where}:mode-only-guards-a-raise", ok, detail, replay_schema="code", replay_extra={"code": REPLAY}))
    obs.append(flow.ob("mode-reads-found", n >= 3, f"{n} reads of the tolerance mode"))
    return obs


@structural("C03", "warning-sites")
def warning_sites():
    """warnings are emitted only by the two error() routers"""
    obs = []
    sites = []
    for m in load.all_modules():
        mod = load.get_module(m)
        pm = flow.parents(mod.tree)
        for call in flow.calls(mod.tree):
            if flow.dotted(call.func) in ("warnings.warn", "warn"):
                fns = flow.enclosing(pm, call, (ast.FunctionDef, ast.AsyncFunctionDef))
                sites.append((m, fns[0].name if fns else "?"))
    obs.append(flow.ob("warnings-only-from-error-routers", bool(sites) and all(f == "error" for _m, f in sites), str(sites)))
    return obs


@structural("C03", "strict-only-errors-are-not-swallowed")
def no_swallow():
    """A template that parses without error in strict mode must mean the same in lax/warn mode.
    The tolerance mode changes what the expression parsers accept (strict-only guards in
    Path.parse etc., two-run contracts above); that is harmless only if every error they raise
    either aborts the parse (strict) or is reported through env.error -- a handler that quietly
    drops a LiquidSyntaxError lets a strict-only rejection change the parse result instead."""
    obs = []
    n = 0
    for m in load.all_modules():
        mod = load.get_module(m)
        pm = flow.parents(mod.tree)
        for h in ast.walk(mod.tree):
            if not (isinstance(h, ast.ExceptHandler) and h.type is not None):
                continue
            t = ast.unparse(h.type)
            if not any(k in t for k in ("LiquidSyntaxError", "LiquidError")):
                continue
            n += 1
            fns = flow.enclosing(pm, h, (ast.FunctionDef, ast.AsyncFunctionDef))
            fn = fns[0].name if fns else "?"
            body = ast.unparse(ast.Module(body=h.body, type_ignores=[]))
            ok = any(isinstance(x, ast.Raise) for b in h.body for x in ast.walk(b)) or ".error(" in body
            obs.append(flow.ob(f"{m}:{fn}:handler-for-{t.replace(' ', '')}-re-raises-or-reports-through-error()", ok, body[:120], replay_schema="code", replay_extra={"code": REPLAY_SWALLOW, "site": f"{m}:{fn}"}))
    obs.append(flow.ob("handlers-found", n >= 3, f"{n} handlers for Liquid errors"))
    return obs


REPLAY_SWALLOW = r'''
def run(m):
    import warnings
    from liquid import Environment, Mode
    warnings.simplefilter("ignore")
    bad = []
    for src in ["{% case x %}{% when 'a', b['c'] d %}hit{% endcase %}", "{% case x %}{% when 'a' or b.c d %}hit{% endcase %}"]:
        outs = {}
        for mode in (Mode.STRICT, Mode.LAX, Mode.WARN):
            try:
                outs[mode.name] = Environment(tolerance=mode).from_string(src).render()
            except Exception as e:
                outs[mode.name] = "raised " + type(e).__name__
        if not outs["STRICT"].startswith("raised") and len(set(outs.values())) != 1:
            bad.append((src, outs))
    return {"violated": bool(bad), "observed": bad[:2], "witness": "case-when-discards-a-strict-only-syntax-error" if bad else "no-swallow"}
'''


parse_block_guard_contract("C03", lambda: REPLAY_NESTING)

REPLAY_NESTING = r'''
def run(m):
    from liquid import Environment, Mode
    from liquid.exceptions import LiquidError, BlockNestingError
    bad = []
    for depth in (40, 700):
        src = "{% if true %}" * depth + "x" + "{% endif %}" * depth
        for mode in (Mode.LAX, Mode.WARN):
            import warnings
            with warnings.catch_warnings():
                warnings.simplefilter("ignore")
                try:
                    Environment(tolerance=mode).from_string(src).render()
                except BaseException as e:
                    bad.append((depth, mode.name, type(e).__name__))
        try:
            Environment().from_string(src)
            bad.append((depth, "STRICT", "parsed"))
        except BlockNestingError:
            pass
        except BaseException as e:
            bad.append((depth, "STRICT", type(e).__name__))
    return {"violated": bool(bad), "observed": bad[:4], "witness": "nesting-guard"}
'''

not_covered("C03", "non-Liquid exceptions escaping in lax mode are C02's", "custom tags", "tokenizer errors (outside the quantifier: sources the lexer accepts)",
            "Parser._parse/parse_block loops are covered by the bounded check and by Tag.get_node's contract, not by their own symbolic contract (generator / token-stream loops)")

bounded("C03", "bounded/C03.py")

REPLAY = r'''
def run(m):
    from bounded.C03 import run as brun
    r = brun("quick", 0)
    v = r["violations"]
    return {"failing": bool(v), "witness": v[0]["witness"] if v else "modes", "call": v[0]["source"] if v else "mode sweep", "result": v[0]["got"] if v else "ok"}
'''


# ---- WARN mode formats the suppressed error for its warning (str(exc) -> detailed message ->
# ---- _error_context): locating a position inside the source is total (C20's contract, for C03)
from contracts.C20 import _line_col  # noqa: E402

_line_col("liquid.exceptions:LiquidError._error_context", "liquid.exceptions:LiquidError", lambda c, index: c.obj("liquid.exceptions:LiquidError", "err"), lambda text, index: [text, index], 5, prop="C03")


@structural("C03", "parsers-convert-digits-through-to_int")
def parsers_use_to_int():
    """lax mode parses any source the lexer accepts: a digit string of any length in the source
    (index, literal, shorthand index) must become a LiquidValueError, which the mode handling
    suppresses -- so the expression parsers and tag parsers never call int() on token text
    directly, only liquid.limits.to_int (which checks the digit limit first).  Render-time
    conversions (`int(offset or 0)` on an evaluated value) are not parsing."""
    import ast
    from pyvc import flow, load
    obs = []
    hits = []
    for m in load.all_modules():
        if not (m.startswith("liquid.builtin.expressions") or m.startswith("liquid.builtin.tags") or m.startswith("liquid.extra.tags") or m in ("liquid.parser", "liquid.stream")):
            continue
        mod = load.get_module(m)
        for fn in [x for x in ast.walk(mod.tree) if isinstance(x, (ast.FunctionDef, ast.AsyncFunctionDef))]:
            if not (fn.name.startswith("parse") or fn.name in ("get_node", "eat", "expect")):
                continue
            for c_ in flow.calls(fn):
                # (float() of a lexed float token never raises: long digit strings give inf)
                if flow.dotted(c_.func) == "int" and c_.args and not isinstance(c_.args[0], ast.Constant):
                    hits.append(f"{m}:{fn.name}@{c_.lineno}:{ast.unparse(c_)[:40]}")
    obs.append(flow.ob("no-parse-function-calls-int()-on-source-text", not hits, str(hits), replay_schema="code", replay_extra={"code": REPLAY_HUGE_INDEX}))
    return obs


REPLAY_HUGE_INDEX = r'''
def run(m):
    from liquid import Environment, Mode
    bad = []
    big = "1" * 5000
    for src in ("{{ x[" + big + "] }}", "{% if x[" + big + "] %}a{% endif %}", "{{ " + big + " }}", "{% for i in (1.." + big + ") limit: 1 %}{% endfor %}"):
        for mode in (Mode.LAX, Mode.WARN):
            try:
                import warnings
                with warnings.catch_warnings():
                    warnings.simplefilter("ignore")
                    Environment(tolerance=mode).from_string(src).render(x=[1])
            except Exception as e:
                bad.append((src[:12], mode.name, type(e).__name__, str(e)[:40]))
    return {"violated": bool(bad), "observed": bad[:4], "witness": "huge-digit-string-in-the-source"}
'''
