"""C20 -- reported locations point at the reported item."""
import ast

import z3

from contracts.common import *  # noqa: F403
from pyvc import flow, load
from pyvc.contract import contract
from pyvc.lib import _number_loops
from pyvc.run import bounded, not_covered, structural
from pyvc.state import *  # noqa: F403
from pyvc.u import *  # noqa: F403

L = z3.Length
LINES = z3.Function("splitlines_keepends", S, SeqU)
PSUM = z3.Function("lines_prefix_len", SeqU, I, I)  # total length of the first k lines


def lines_axioms(c, text):
    """DESIGN 3: splitlines(keepends=True) partitions the text into non-empty strings"""
    k = z3.Int("k!ps")
    seq = LINES(text)
    c.assume_external(z3.And(PSUM(seq, 0) == 0, PSUM(seq, L(seq)) == L(text)), "''.join(text.splitlines(keepends=True)) == text (total length of all lines is len(text))")
    c.assume_external(z3.ForAll([k], z3.Implies(z3.And(k >= 0, k < L(seq)), z3.And(U.is_str(seq[k]), L(U.s(seq[k])) > 0, PSUM(seq, k + 1) == PSUM(seq, k) + L(U.s(seq[k]))))), "every line is a non-empty string; prefix lengths add up")
    return seq


def _line_col(target, cls, mk_self, mk_args, result_items, prop="C20"):
    @contract(target, prop=prop)
    def lc(c):
        text, index = c.str("text"), c.int("index")
        c.requires(z3.And(index.t >= 0, index.t < L(text.t)), "position inside the source")
        seq = lines_axioms(c, text.t)
        self = mk_self(c, index)
        c.call(*mk_args(text, index), self_val=self)
        # the loop state is found by ROLE in the current source, not by name: the accumulator is the
        # variable the loop increases with `+=`; a sentinel is a variable set to -1 before the loop
        fnode = load.find(target)[1]
        loop0 = sorted([n for n in ast.walk(fnode) if isinstance(n, ast.For)], key=lambda n: n.lineno)[0]
        accs = [n.target.id for n in ast.walk(loop0) if isinstance(n, ast.AugAssign) and isinstance(n.op, ast.Add) and isinstance(n.target, ast.Name)]
        sentinels = [t.id for n in fnode.body if isinstance(n, ast.Assign) and n.lineno < loop0.lineno and isinstance(n.value, ast.UnaryOp) and isinstance(n.value.op, ast.USub)
                     and isinstance(n.value.operand, ast.Constant) and n.value.operand.value == 1 for t in n.targets if isinstance(t, ast.Name)]
        if len(accs) != 1:
            raise load.TargetMissing(f"{target}: cannot identify the running-length accumulator of the line loop ({accs})")

        def inv(e):
            cum = e.st.locals[accs[0]].t
            idx_t = index.t
            return z3.And(cum == PSUM(seq, e.idx), idx_t >= cum, *[e.st.locals[sn].t == -1 for sn in sentinels if sn in e.st.locals])
        c.invariant(0, inv, elem=lambda st, term: VStr(U.s(term)))
        def post(r):
            line, col = r.value.items[0].t, r.value.items[1].t
            return z3.And(line >= 1, line <= L(seq), col == index.t - PSUM(seq, line - 1), col >= 0, col < L(U.s(seq[line - 1])))
        c.ensures("line-and-column-locate-the-index-inside-its-line", post)
        c.raises()  # total for every position inside the source
        c.replay("code", code=REPLAY)


_line_col("liquid.span:Span.line_col", "liquid.span:Span", lambda c, index: c.obj("liquid.span:Span", "span", template_name=c.str("name"), index=index), lambda text, index: [text], 2)
_line_col("liquid.exceptions:LiquidError._error_context", "liquid.exceptions:LiquidError", lambda c, index: c.obj("liquid.exceptions:LiquidError", "err"), lambda text, index: [text, index], 5)


def _tokenize_body(kind_label, kind_const, extra_req=None):
    @contract("liquid.builtin.expressions._tokenize:tokenize", prop="C20", name=f"tokenize.loop-body[{kind_label}]")
    def tb(c):
        c.eager_generators = True
        src = c.str("expression_source")
        parent = c.obj("liquid.token:Token", "parent_token", kind=const("EXPRESSION"), value=src, start_index=c.int("parent_start"), source=c.str("template_source"))
        mstart = c.int("match_start")
        whole = c.str("whole_match")
        def entry(eng, cc, func):
            st = cc.st
            node = func.node
            _number_loops(node, cc.target)
            loop = [n for n in ast.walk(node) if isinstance(n, ast.For)][0]
            m = st.alloc(HObj(("re", "Match"), {"lastgroup": kind_const(c), "__groups__": VConst({"0": whole}), "__starts__": VConst({"0": mstart}), "__ends__": VConst({})}, {}, "match"))
            st.locals.update({"source": src, "parent_token": parent, "match": m, "__frame__": VConst({"module": func.module, "cls": None, "closure": None, "qual": func.qual})})
            st.ghost["__gen__"] = ((),)
            outs = []
            for s, o in eng.exec_block(loop.body, st):
                toks = list(s.ghost["__gen__"][-1])
                if isinstance(o, Raised):
                    t = None
                    for k, v in o.exc.kw:
                        if k == "token":
                            t = v
                    outs.append((s, Ret(VTuple((const("raised"), t if t is not None else NONE)))))
                elif o is CONT or not toks:
                    outs.append((s, Ret(VTuple((const("skipped"), NONE)))))
                else:
                    outs.append((s, Ret(VTuple((const("token"), toks[0])))))
            return outs
        c.entry = entry
        def post(r):
            what, tok = r.value.items
            if isinstance(tok, VNone):
                return z3.BoolVal(concrete(what)[1] == "skipped")
            f = r.st.deref(tok).fields
            return z3.And(f["start_index"].t == c.st.deref(parent).fields["start_index"].t + mstart.t, f["source"].t == c.st.deref(parent).fields["source"].t)
        c.ensures("token-offset-is-parent-offset-plus-match-offset-in-the-template-source", post)
        c.raises()
        c.replay("code", code=REPLAY)


_tokenize_body("any-kind", lambda c: c.str("match_kind"))


def _liquid_tag_tokens(expr_present, prop="C20"):
    @contract("liquid.builtin.tags.liquid_tag:_tokenize_liquid_expression", prop=prop, name=f"_tokenize_liquid_expression.loop-body[LIQUID_EXPR,expr={'present' if expr_present else 'empty'}]")
    def tb(c):
        """Token invariant through the {% liquid %} tag's line tokenizer: every token it yields
        indexes into the TEMPLATE source at its own value, given that the parent token does and
        that the text scanned is the parent token's value (call-site obligation below)."""
        c.eager_generators = True
        src = c.str("liquid_tag_body")
        tsrc = c.str("template_source")
        pstart = c.int("parent_start")
        parent = c.obj("liquid.token:Token", "parent_token", kind=const("EXPRESSION"), value=src, start_index=pstart, source=tsrc)
        # "text[i:i+len(v)] == v" is stated in its concatenation form text == pre ++ v ++ post with
        # len(pre) == i (equivalent; string solvers decide the composition of two such facts at once,
        # while the substring-of-substring form times out)
        tpre, tpost = z3.String("template_before"), z3.String("template_after")
        c.requires(z3.And(tsrc.t == z3.Concat(tpre, src.t, tpost), L(tpre) == pstart.t), "the parent token indexes into the template source at its value")
        whole, name, expr = c.str("whole_match"), c.str("name_group"), c.str("expr_group")
        s0, sn, se = c.int("match_start"), c.int("name_start"), c.int("expr_start")
        for g, st_ in ((whole, s0), (name, sn), (expr, se)):
            gpre, gpost = z3.String(str(g.t) + "_before"), z3.String(str(g.t) + "_after")
            c.requires(z3.And(src.t == z3.Concat(gpre, g.t, gpost), L(gpre) == st_.t), "re: source[m.start(g):m.end(g)] == m.group(g)")
        c.requires(L(name.t) > 0, "(?P<name>#|\\w+) is never empty")
        c.requires((L(expr.t) > 0) if expr_present else (L(expr.t) == 0))
        comment = c.str("comment_start_string")

        def entry(eng, cc, func):
            st = cc.st
            node = func.node
            _number_loops(node, cc.target)
            loop = [n for n in ast.walk(node) if isinstance(n, ast.For)][0]
            m = st.alloc(HObj(("re", "Match"), {"lastgroup": const("LIQUID_EXPR"), "__groups__": VConst({"0": whole, "name": name, "expr": expr}), "__starts__": VConst({"0": s0, "name": sn, "expr": se}), "__ends__": VConst({})}, {}, "match"))
            st.locals.update({"source": src, "token": parent, "match": m, "comment_start_string": comment, "__frame__": VConst({"module": func.module, "cls": None, "closure": None, "qual": func.qual})})
            st.ghost["__gen__"] = ((),)
            outs = []
            for s, o in eng.exec_block(loop.body, st):
                toks = list(s.ghost["__gen__"][-1])
                if isinstance(o, Raised):
                    outs.append((s, o))
                else:
                    s.ghost["__leaves_loop__"] = o is BRK or isinstance(o, Ret)
                    outs.append((s, Ret(VTuple(tuple(toks)))))
            return outs
        c.entry = entry
        # a line (a comment line too) only ever skips ITSELF: the scan goes on with the next line
        c.ensures("no-line-ends-the-scan-of-the-liquid-tag(comment-lines-hide-themselves-only)", lambda r: z3.BoolVal(not r.st.ghost.get("__leaves_loop__", False)))

        def post(r):
            # linear form: the token's value is a group of the match, its source is the template
            # source, its offset is the parent's offset plus the group's offset in the scanned text;
            # with the lemma below (instantiated t := template source, s := scanned text, n := group)
            # this is "source[start_index:][:len(value)] == value"
            conj = []
            for tok in r.value.items:
                f = r.st.deref(tok).fields
                v, si, so = f["value"].t, f["start_index"].t, f["source"].t
                conj.append(z3.And(so == tsrc.t, z3.Or(z3.And(v == name.t, si == pstart.t + sn.t), z3.And(v == expr.t, si == pstart.t + se.t))))
            return z3.And(*conj) if conj else z3.BoolVal(True)
        c.ensures("every-yielded-token-is-a-match-group-at-parent-offset-plus-group-offset-in-the-template-source", post)

        def lemma(r):
            t, A, s_, B_, C, n, D = z3.Strings("t!l A!l s!l B!l C!l n!l D!l")
            p_, q_ = z3.Ints("p!l q!l")
            hyp = z3.And(t == z3.Concat(A, s_, B_), L(A) == p_, s_ == z3.Concat(C, n, D), L(C) == q_)
            return z3.Implies(hyp, z3.And(p_ + q_ >= 0, p_ + q_ + L(n) <= L(t), z3.SubString(t, p_ + q_, L(n)) == n))
        c.ensures("lemma:offsets-compose(t[p:][:len(s)]==s and s[q:][:len(n)]==n imply t[p+q:][:len(n)]==n)", lemma)
        c.ensures("a-tag-line-yields-its-name-token-unless-it-is-a-comment", lambda r: z3.Or(name.t == comment.t, z3.BoolVal(len(r.value.items) == (2 if expr_present else 1))))
        c.raises()
        c.assume_note("re match record: source[m.start(g):m.start(g)+len(m.group(g))] == m.group(g) for the groups 0, name, expr (DESIGN 3)")
        c.replay("code", code=REPLAY_LIQUID_TAG)


for _ep in (True, False):
    _liquid_tag_tokens(_ep)


@structural("C20", "liquid-tag-call-site")
def liquid_tag_call_site():
    """LiquidTag.parse scans exactly the value of the token it passes as `token=` (so offsets
    inside the scanned text are offsets inside that token)"""
    mod = load.get_module("liquid.builtin.tags.liquid_tag")
    fn = load._last_def(mod.classes["LiquidTag"].body, "parse")
    obs = []
    n = 0
    for call in flow.calls(fn):
        if flow.dotted(call.func) == "self._tokenize":
            n += 1
            tok = flow.kwarg(call, "token")
            a0 = call.args[0] if call.args else None
            ok = tok is not None and a0 is not None and isinstance(tok, ast.Name) and ast.unparse(a0) == f"{tok.id}.value"
            obs.append(flow.ob(f"parse@{call.lineno - fn.lineno}:scanned-text-is-the-value-of-the-token-passed", ok, ast.unparse(call)[:120], replay_schema="code", replay_extra={"code": REPLAY_LIQUID_TAG}))
    obs.append(flow.ob("tokenize-call-found", n >= 1, f"{n} self._tokenize(...) calls"))
    return obs


REPLAY_LIQUID_TAG = r'''
def run(m):
    from liquid import Environment
    from liquid.exceptions import LiquidSyntaxError
    bad = []
    env = Environment()
    for nl in ("\n", "\r\n"):
        src = "x{% liquid" + nl + "  assign a = b | upcase" + nl + "  echo a | append: c" + nl + "%}"
        a = env.from_string(src).analyze()
        for group in (a.variables, a.globals, a.filters, a.tags, a.locals):
            for name, spans in group.items():
                for sp in spans:
                    idx = sp.index if hasattr(sp, "index") else sp.span.index
                    root = str(name).split(".")[0].split("[")[0]
                    if not src.startswith(root, idx):
                        bad.append((repr(nl), name, idx, src[idx:idx + 8]))
        try:
            env.from_string("{% liquid" + nl + "  assign a = b |" + nl + "  echo a ||| c" + nl + "%}")
        except LiquidSyntaxError as e:
            try:
                str(e); e.detailed_message() if hasattr(e, "detailed_message") else None
                tok = e.token
                if tok is not None and not (0 <= tok.start_index <= len(tok.source)):
                    bad.append(("error-position-outside-source", tok.start_index, len(tok.source)))
            except Exception as ex:
                bad.append(("message-raises", repr(ex)))
    # a comment line hides itself only, with and without shorthand template comments
    for kw in ({}, {"template_comments": True}):
        got = Environment(**kw).from_string("{% liquid\n# note\necho 'a'\n# more\necho 'b'\n%}").render()
        if got != "ab":
            bad.append(("comment-line-ended-the-liquid-tag", kw, got))
    return {"violated": bool(bad), "observed": bad[:4], "witness": "liquid-tag-locations"}
'''


@structural("C20", "token-sites")
def token_sites():
    """every Token(...) constructed by the three tokenizers takes its start_index from a
    match offset of the group its value was cut from (template lexer) or from the parent
    token's offset plus a match offset (expression / liquid-tag tokenizers)"""
    obs = []
    n = 0
    for m, fname in (("liquid.lex", "_tokenize_template"), ("liquid.builtin.expressions._tokenize", "tokenize"), ("liquid.builtin.tags.liquid_tag", None)):
        mod = load.get_module(m)
        fns = [mod.funcs[fname]] if fname else [f for f in mod.funcs.values()] + [st for c in mod.classes.values() for st in c.body if isinstance(st, ast.FunctionDef)]
        for fn in fns:
            for call in flow.calls(fn):
                if flow.dotted(call.func) != "Token":
                    continue
                n += 1
                si = flow.kwarg(call, "start_index")
                if si is None and len(call.args) >= 3:
                    si = call.args[2]
                val = flow.kwarg(call, "value") if flow.kwarg(call, "value") is not None else (call.args[1] if len(call.args) > 1 else None)
                s_txt = flow.dotted(si) if si is not None else "?"
                ok = "match.start(" in s_txt or s_txt in ("comment_index",) or "start_index" in s_txt
                if m != "liquid.lex":
                    ok = ok and (("start_index +" in s_txt or "+ " in s_txt) or "token.start_index" in s_txt)
                # the offset is the START of the very group the value was cut from
                vsrc = val
                if isinstance(val, ast.Name):
                    defs = [a.value for a in ast.walk(fn) if isinstance(a, ast.Assign) and any(isinstance(t, ast.Name) and t.id == val.id for t in a.targets) and a.lineno < call.lineno]
                    vsrc = defs[-1] if defs else val
                if m != "liquid.builtin.expressions._tokenize" and isinstance(vsrc, ast.Call) and flow.dotted(vsrc.func) == "match.group":  # (the expression tokenizer points at the whole token, quotes included: contract above)
                    grp = ast.unparse(vsrc.args[0]) if vsrc.args else ""
                    ok = ok and (f"match.start({grp})" in s_txt) and "match.end(" not in s_txt
                obs.append(flow.ob(f"{m.split('.')[-1]}.{fn.name}@{call.lineno - fn.lineno}:start_index-from-match-offset", ok, f"Token(value={flow.dotted(val)[:40] if val is not None else '?'}, start_index={s_txt[:70]})", replay_schema="code", replay_extra={"code": REPLAY}))
    obs.append(flow.ob("token-constructions-found", n >= 3, f"{n} Token(...) sites"))  # vacuity guard only: helpers may share a construction
    return obs


not_covered("C20", "that the node stored in the AST is the token whose value is the reported name (parse-layer bookkeeping): bounded check of every reported span", "byte vs code-point columns (code points)",
            "multi-line liquid tags and the regex-shape fact that markup tokens are followed by their closing delimiter: bounded check")

bounded("C20", "bounded/C20.py")

REPLAY = r'''
def run(m):
    text, index = (m or {}).get("text"), (m or {}).get("index")
    if isinstance(text, str) and isinstance(index, int) and 0 <= index < len(text):
        from liquid.span import Span
        try:
            line, col = Span("t", index).line_col(text)
            lines = text.splitlines(keepends=True)
            ok = lines[line - 1][col] == text[index]
            return {"failing": not ok, "witness": "line-col", "call": f"Span('t',{index}).line_col({text!r})", "result": f"{(line, col)}"}
        except Exception as e:
            return {"failing": True, "witness": "line-col-raises", "call": f"Span('t',{index}).line_col({text!r})", "result": repr(e)}
    from bounded.C20 import run as brun
    r = brun("quick", 0)
    v = r["violations"]
    return {"failing": bool(v), "witness": v[0]["witness"] if v else "locations", "call": v[0]["source"] if v else "span sweep", "result": v[0]["got"] if v else "ok"}
'''


# ---- "every location reported by static analysis ... indexes into the source at the reported
# ---- name": a variable's location is the token of its path, and a path -- also one nested in
# ---- square brackets -- carries the token of its FIRST segment (the name), not of the bracket

REPLAY_NESTED_PATH = r'''
def run(m):
    from liquid import Environment
    env = Environment()
    bad = []
    for src in ("{{ prices[first.id] }}", "{{ a[b[c.d].e] }}", "{{ x[ y ] }}\n{{ x[y].z }}"):
        t = env.from_string(src, name="t")
        for group in (t.analyze().variables, t.analyze().globals):
            for name, locs in group.items():
                for v in locs:
                    root = str(v).split(".")[0].split("[")[0]
                    sp = v.span
                    if not src[sp.start:].startswith(root):
                        bad.append((src, str(v), sp.start, src[sp.start:sp.start + 6]))
    return {"violated": bool(bad), "observed": bad[:4], "witness": "nested-path-located-at-its-bracket"}
'''


def _tok(c, kind, name, value=None):
    return c.obj("liquid.token:Token", name, kind=const(kind), value=const(value) if value is not None else c.str(name + "_value"), start_index=c.int(name + "_start"), source=c.str("source"))


@contract("liquid.builtin.expressions.path:Path.parse", prop="C20", name="Path.parse[a[b.c] d: each path, nested or not, carries the token of its first segment]")
def path_parse_tokens(c):
    K = lambda n: flow.const_eval(load.get_module("liquid.token"), ast.parse(n, mode="eval").body)  # noqa: E731
    a, lb, b, dot, cc, rb, end = (_tok(c, K("TOKEN_WORD"), "a", "a"), _tok(c, K("TOKEN_LBRACKET"), "lbracket", "["), _tok(c, K("TOKEN_WORD"), "b", "b"), _tok(c, K("TOKEN_DOT"), "dot", "."),
                                  _tok(c, K("TOKEN_WORD"), "c", "c"), _tok(c, K("TOKEN_RBRACKET"), "rbracket", "]"), _tok(c, K("TOKEN_PIPE"), "pipe", "|"))
    eof = _tok(c, K("TOKEN_EOF"), "eof", "")
    stream = c.obj("liquid.stream:TokenStream", "tokens", tokens=c.st.alloc(HList(items=[a, lb, b, dot, cc, rb, end])), pos=const(0), block_depth=const(0), eof=eof)
    env = c.obj("liquid.environment:Environment", "env", mode=VConst(("enum", "Mode", "STRICT")), shorthand_indexes=c.bool("shorthand_indexes"))
    c.call(env, stream)

    def post(r):
        h = r.st.deref(r.value) if isinstance(r.value, VRef) else None
        if not (isinstance(h, HObj) and h.cls[1] == "Path" and h.fields.get("token") == a):
            return z3.BoolVal(False)
        segs = r.engine.concrete_items(r.st, h.fields["path"])
        if segs is None or len(segs) != 2 or concrete(segs[0]) != (True, "a") or not isinstance(segs[1], VRef):
            return z3.BoolVal(False)
        inner = r.st.deref(segs[1])
        isegs = r.engine.concrete_items(r.st, inner.fields["path"]) if isinstance(inner, HObj) and inner.cls[1] == "Path" else None
        ok = isegs is not None and [concrete(x) for x in isegs] == [(True, "b"), (True, "c")] and inner.fields.get("token") == b
        return z3.And(z3.BoolVal(bool(ok)), r.st.deref(stream).fields["pos"].t == 6)
    c.ensures("outer-path-is-at-`a`-and-the-nested-path-b.c-is-at-`b`(not-at-the-bracket)-and-parsing-stops-at-the-pipe", post)
    c.raises()
    c.replay("code", code=REPLAY_NESTED_PATH)


@structural("C20", "visit-names-the-visited-template")
def visit_names_visited_template():
    """static analysis (sync and async): a location's template name is the name that travels
    with the visit (`template_name`, or the partial's own name) -- the visit of a node never
    consults the ROOT template being analysed, whose name is only the starting value"""
    obs = []
    mod = load.get_module("liquid.static_analysis")
    n = 0
    for fname in ("analyze", "analyze_async"):
        fn = mod.funcs[fname]
        root_param = fn.args.args[0].arg
        for inner in ast.walk(fn):
            if isinstance(inner, (ast.FunctionDef, ast.AsyncFunctionDef)) and inner.name == "_visit":
                n += 1
                uses = sorted({f"{flow.dotted(p)}@{p.lineno - fn.lineno}" for p in ast.walk(inner) if isinstance(p, ast.Name) and p.id == root_param})
                params = [a.arg for a in inner.args.args]
                obs.append(flow.ob(f"{fname}._visit:never-reads-the-root-template", not uses and "template_name" in params, f"reads of `{root_param}` inside _visit: {uses}", replay_schema="code", replay_extra={"code": REPLAY_SNIPPET_SPAN}))
                # every Span built in the visit is named by template_name
                spans = [c_ for c_ in flow.calls(inner) if flow.dotted(c_.func) == "Span"]
                bad = [ast.unparse(c_)[:60] for c_ in spans if not (c_.args and flow.dotted(c_.args[0]) == "template_name")]
                obs.append(flow.ob(f"{fname}._visit:every-span-is-named-by-the-visited-template", bool(spans) and not bad, str(bad), replay_schema="code", replay_extra={"code": REPLAY_SNIPPET_SPAN}))
                # the name handed to the visit of a partial's children derives from the partial or the visited template only
                assigns = [st_ for st_ in ast.walk(inner) if isinstance(st_, ast.Assign) and any(flow.dotted(t) == "partial_name" for t in st_.targets)]
                names = {p.id for st_ in assigns for p in ast.walk(st_.value) if isinstance(p, ast.Name)}
                obs.append(flow.ob(f"{fname}._visit:a-partials-name-comes-from-the-partial-or-the-visited-template", bool(assigns) and names <= {"partial", "partial_name", "template_name", "static_context", "str", "isinstance"}, str(sorted(names)), replay_schema="code", replay_extra={"code": REPLAY_SNIPPET_SPAN}))
    obs.append(flow.ob("visit-functions-found", n == 2, f"{n}"))
    return obs


REPLAY_SNIPPET_SPAN = r'''
def run(m):
    import asyncio
    from liquid import Environment, DictLoader
    try:
        from liquid.extra import SnippetTag
    except Exception:
        return {"violated": False, "observed": "no snippet tag in this tree"}
    sources = {"part": "intro text, long enough to move offsets {% snippet s %}{{ inner_var | upcase }}{% endsnippet %}{% render s %}"}
    env = Environment(extra=True, loader=DictLoader(sources))
    env.add_tag(SnippetTag)
    sources["root"] = "{% include 'part' %}"
    t = env.from_string(sources["root"], name="root")
    bad = []
    for an in (t.analyze(), asyncio.run(t.analyze_async())):
        for name, locs in an.variables.items():
            for v in locs:
                src = sources.get(v.span.template_name, "")
                if not src[v.span.index:].startswith(name.split(".")[0]):
                    bad.append((name, v.span.template_name, v.span.index))
    return {"violated": bool(bad), "observed": bad[:4], "witness": "snippet-in-partial-attributed-to-root"}
'''
