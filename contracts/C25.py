"""C25 -- built-in filters honour their documented contracts."""
import z3

from pyvc.contract import contract
from pyvc.run import bounded, not_covered, structural
from pyvc.u import *  # noqa: F403

L = z3.Length


@contract("liquid.utils.text:truncate_chars", prop="C25")
def truncate_chars(c):
    """Statement: unchanged when no longer than the requested length; otherwise ends in the
    ellipsis and is no longer than max(requested length, len(ellipsis))."""
    val, num, end = c.str("val"), c.int("num"), c.str("end")
    c.call(val, num, end)
    c.ensures("unchanged-when-short", lambda r: z3.Implies(L(val.t) <= num.t, r.t == val.t))
    c.ensures(
        "truncated-ends-with-ellipsis-and-bounded",
        lambda r: z3.Implies(L(val.t) > num.t, z3.And(z3.SuffixOf(end.t, r.t), L(r.t) <= zmax(num.t, L(end.t)))),
    )
    c.ensures(
        "truncated-keeps-a-prefix",
        lambda r: z3.Implies(L(val.t) > num.t, z3.PrefixOf(z3.SubString(r.t, 0, L(r.t) - L(end.t)), val.t)),
    )
    c.raises()
    c.cover("short", lambda r: L(val.t) <= num.t)
    c.cover("long", lambda r: L(val.t) > num.t)
    c.replay(
        "call",
        func="liquid.utils.text:truncate_chars",
        args=["val", "num", "end"],
        oracle="exc is None and (r == val if len(val) <= num else (r.endswith(end) and len(r) <= max(num, len(end))))",
        witness="'len(val)==num' if len(val) == num else ('num<len(end)' if num < len(end) else 'other')",
    )
