"""C25 -- built-in filters honour their documented contracts."""
import z3

from pyvc.contract import contract
from pyvc.run import bounded, not_covered, structural
from pyvc.u import *  # noqa: F403

L = z3.Length


@contract("liquid.utils.text:truncate_chars", prop="C25")
def truncate_chars(c):
    """Statement: unchanged when no longer than the requested length; otherwise ends in the
    ellipsis and is no longer than max(requested length, len(ellipsis))."""
    val, num, end = c.str("val"), c.int("num"), c.str("end")
    c.call(val, num, end)
    c.ensures("unchanged-when-short", lambda r: z3.Implies(L(val.t) <= num.t, r.t == val.t))
    c.ensures(
        "truncated-ends-with-ellipsis-and-bounded",
        lambda r: z3.Implies(L(val.t) > num.t, z3.And(z3.SuffixOf(end.t, r.t), L(r.t) <= zmax(num.t, L(end.t)))),
    )
    c.ensures(
        "truncated-keeps-a-prefix",
        lambda r: z3.Implies(L(val.t) > num.t, z3.PrefixOf(z3.SubString(r.t, 0, L(r.t) - L(end.t)), val.t)),
    )
    c.raises()
    c.cover("short", lambda r: L(val.t) <= num.t)
    c.crosscheck()
    c.cover("long", lambda r: L(val.t) > num.t)
    c.replay(
        "call",
        func="liquid.utils.text:truncate_chars",
        args=["val", "num", "end"],
        oracle="exc is None and (r == val if len(val) <= num else (r.endswith(end) and len(r) <= max(num, len(end))))",
        witness="'len(val)==num' if len(val) == num else ('num<len(end)' if num < len(end) else 'other')",
    )


# ---------------------------------------------------------------- integer arithmetic filters

from contracts.common import *  # noqa: F403,E402
from pyvc.state import *  # noqa: F403,E402

MATH = "liquid.builtin.filters.math"


def _int_math(name, spec, nargs=2, pre=None, raises=()):
    @contract(f"{MATH}:{name}", prop="C25", name=f"{name}[int operands]")
    def im(c):
        std_globals(c)
        a, b = c.int("num"), c.int("other")
        if pre is not None:
            c.requires(pre(a.t, b.t), "divisor is not zero")
        c.call(*([a, b][:nargs]))

        def post(r):
            v = box(r.value)
            return z3.And(U.is_int(v), spec(a.t, b.t, U.i(v)))
        c.ensures("agrees-with-exact-integer-arithmetic(result-is-an-int)", post)
        c.raises(*raises)
        c.assume_note("ints are mathematical integers (Python ints are unbounded)")
        c.replay("code", code=REPLAY_MATH)


def _floor_div(a, b, q):
    # q = floor(a / b): b*q <= a < b*(q+1) for b > 0, b*q >= a > b*(q+1) for b < 0
    return z3.If(b > 0, z3.And(b * q <= a, a < b * (q + 1)), z3.And(b * q >= a, a > b * (q + 1)))


def _floor_mod(a, b, r):
    q = z3.Int("q!mod")
    return z3.And(z3.If(b > 0, z3.And(0 <= r, r < b), z3.And(b < r, r <= 0)), z3.Exists([q], a == b * q + r))


_int_math("plus", lambda a, b, r: r == a + b)
_int_math("minus", lambda a, b, r: r == a - b)
_int_math("times", lambda a, b, r: r == a * b)
_int_math("divided_by", _floor_div, pre=lambda a, b: b != 0)
_int_math("modulo", _floor_mod, pre=lambda a, b: b != 0)
_int_math("abs_", lambda a, b, r: r == z3.If(a >= 0, a, -a), nargs=1)
_int_math("at_least", lambda a, b, r: r == z3.If(a >= b, a, b))
_int_math("at_most", lambda a, b, r: r == z3.If(a <= b, a, b))
_int_math("ceil", lambda a, b, r: r == a, nargs=1)
_int_math("floor", lambda a, b, r: r == a, nargs=1)
_int_math("round_", lambda a, b, r: r == a, nargs=1)


# ---- float operands: floats are abstract (DESIGN 2.3), so the contract is on the SHAPE of the
# ---- computation: plus/minus/times/modulo with a float operand compute
# ---- float(Decimal(str(num)) <op> Decimal(str(other))) -- decimal arithmetic on the decimal text of
# ---- both operands, not binary float arithmetic ("agree with exact ... decimal arithmetic")

def _decimal_shape(term, op, a_term, b_term):
    """term == flt_of_ref(Decimal.<op>(Decimal(str)(str(..a..)), Decimal(str)(str(..b..))))"""
    def name(t):
        return t.decl().name() if z3.is_app(t) else ""
    def mentions(t, x):
        seen, stack = set(), [t]
        while stack:
            y = stack.pop()
            if y.get_id() in seen:
                continue
            seen.add(y.get_id())
            if y.eq(x):
                return True
            stack.extend(y.children())
        return False
    if name(term) != "flt_of_ref" or name(term.arg(0)) != "opq$Decimal." + op:
        return False
    l, r_ = term.arg(0).arg(0), term.arg(0).arg(1)
    return name(l) == "opq$Decimal(str)" and name(r_) == "opq$Decimal(str)" and mentions(l, a_term) and not mentions(l, b_term) and mentions(r_, b_term) and not mentions(r_, a_term)


def _float_math(fname, op):
    for kinds in (("int", "flt"), ("flt", "int"), ("flt", "flt")):
        def _mk(kinds):
            @contract(f"{MATH}:{fname}", prop="C25", name=f"{fname}[{kinds[0]} {op} {kinds[1]}: decimal arithmetic]")
            def fm(c):
                std_globals(c)
                a = c.int("num") if kinds[0] == "int" else c.flt("num")
                b = c.int("other") if kinds[1] == "int" else c.flt("other")
                c.call(a, b)
                c.ensures("computed-as-float(Decimal(str(num))-op-Decimal(str(other)))", lambda r: z3.BoolVal(isinstance(r.value, VFlt) and _decimal_shape(r.value.t, op, a.t, b.t)))
                c.raises("FilterArgumentError")   # decimal arithmetic on non-finite operands / a zero modulus
                c.assume_note("floats, Decimal construction and Decimal arithmetic are uninterpreted: the obligation is the shape of the computation, not its numeric value")
                c.crosscheck(off=True)
                c.replay("code", code=REPLAY_FLOAT_MATH)
        _mk(kinds)


for _f, _op in (("plus", "Add"), ("minus", "Sub"), ("times", "Mult"), ("modulo", "Mod")):
    _float_math(_f, _op)

REPLAY_FLOAT_MATH = r'''
def run(m):
    from decimal import Decimal
    from liquid import Environment
    env = Environment()
    bad = []
    for a, b in [(1, 0.9), (0.1, 0.2), (3, 0.1), (1.1, 3), (0.3, 0.1), (10, 0.3), (2.2, 1.1)]:
        for f, op in (("plus", lambda x, y: x + y), ("minus", lambda x, y: x - y), ("times", lambda x, y: x * y), ("modulo", lambda x, y: x % y)):
            want = str(float(op(Decimal(str(a)), Decimal(str(b)))))
            got = env.from_string("{{ a | " + f + ": b }}").render(a=a, b=b)
            if got != want:
                bad.append((f, a, b, got, want))
    return {"violated": bool(bad), "observed": bad[:4], "witness": "binary-float-arithmetic"}
'''


for _name in ("divided_by", "modulo"):
    def _mk(name):
        @contract(f"{MATH}:{name}", prop="C25", name=f"{name}[zero divisor]")
        def dz(c):
            std_globals(c)
            a = c.int("num")
            c.call(a, const(0))
            c.ensures("division-by-zero-is-a-filter-error-not-a-result", lambda r: z3.BoolVal(False))
            c.raises("FilterArgumentError")
            c.replay("code", code=REPLAY_MATH)
    _mk(_name)


REPLAY_MATH = r'''
def run(m):
    from liquid import Environment
    env = Environment()
    bad = []
    vals = [0, 1, -1, 2, -2, 3, 7, -7, 10**30 + 1, -(10**30) - 1]
    import math
    for a in vals:
        for b in vals:
            exp = {"plus": a + b, "minus": a - b, "times": a * b, "at_least": max(a, b), "at_most": min(a, b)}
            if b != 0:
                exp["divided_by"] = a // b
                exp["modulo"] = a % b
            for f, want in exp.items():
                got = env.from_string("{{ a | " + f + ": b }}").render(a=a, b=b)
                if got != str(want):
                    bad.append((f, a, b, got, want))
    return {"violated": bool(bad), "observed": bad[:5]}
'''


import contracts.C25_more  # noqa: E402,F401  (string, selection and array filters)

not_covered("C25", "numeric value of float results (floats are abstract: the shape of the computation is proved, its decimal value is compared with exact rationals in the bounded check only)",
            "arrays longer than 3 items (reverse, compact, uniq, concat, first, last, size, default are proved for every spine length 0..3 and all item values; longer arrays: bounded check)",
            "sort, sort_natural, map, where, reject (ordering by str(), property access on records), truncatewords and the split/join round trip are decided by the bounded check against references written from the statement")

bounded("C25", "bounded/C25.py")
