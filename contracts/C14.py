"""C14 -- variables resolve to their innermost binding."""
import z3

from contracts.common import *  # noqa: F403
from pyvc.contract import contract
from pyvc.run import bounded, not_covered, structural
from pyvc.state import *  # noqa: F403
from pyvc.u import *  # noqa: F403

Sel = z3.Select


for _n in (1, 2, 3, 4, 5):
    chain_getitem_contract("C14", _n, lambda: REPLAY_SCOPE)


@contract(CHAIN + ".push", prop="C14")
def chain_push(c):
    maps = [c.dict(f"m{i}") for i in range(3)]
    self = mk_chain(c, maps)
    ns = c.dict("ns")
    c.call(ns, self_val=self)
    def post(r):
        d = r.st.deref(r.st.deref(self).fields["_maps"]).items
        return z3.BoolVal(d == [ns] + maps)
    c.ensures("namespace-becomes-innermost", post)
    c.raises()
    c.replay("code", code=REPLAY_SCOPE)


@contract(CHAIN + ".pop", prop="C14")
def chain_pop(c):
    maps = [c.dict(f"m{i}") for i in range(3)]
    self = mk_chain(c, maps)
    c.call(self_val=self)
    c.ensures("removes-innermost-only", lambda r: z3.BoolVal(r.st.deref(r.st.deref(self).fields["_maps"]).items == maps[1:] and r.value == maps[0]))
    c.raises()
    c.replay("code", code=REPLAY_SCOPE)


@contract(CTX + ".__init__", prop="C14")
def ctx_init(c):
    env = mk_env(c)
    template = c.obj(TEMPLATE, "template", env=env)
    g = c.dict("globals")
    self = c.obj(CTX, "context")
    c.call(template, self_val=self, globals=g)
    def post(r):
        f = r.st.deref(self).fields
        d = r.st.deref(r.st.deref(f["scope"]).fields["_maps"]).items
        ok = len(d) == 4 and d[0] == f["locals"] and d[3] == f["counters"] and isinstance(d[2], VConst) and d[2].py[:3] == ("instance", "liquid.context", "builtin")
        ok = ok and f["locals"] != f["counters"] and isinstance(r.st.deref(f["locals"]), HDict) and not r.st.deref(f["locals"]).items and r.st.deref(f["locals"]).present is None
        if not ok:
            return z3.BoolVal(False)
        # globals: the mapping passed in, or an empty dict when it is falsy
        passed = z3.BoolVal(d[1] == g and f["globals"] == g)
        fresh_empty = z3.BoolVal(isinstance(d[1], VRef) and d[1] != g and isinstance(r.st.deref(d[1]), HDict) and not r.st.deref(d[1]).items and r.st.deref(d[1]).present is None and f["globals"] == d[1])
        return z3.Or(passed, z3.And(fresh_empty, z3.Not(r.engine.truth(r.st, g))))
    c.ensures("scope-order-is-locals-globals-builtin-counters", post)
    c.raises()
    c.replay("code", code=REPLAY_SCOPE)


def _extend_contract(name, body, raising):
    @contract(CTX + ".extend", prop="C14", name=name)
    def ext(c):
        env = mk_env(c)
        ctx = mk_ctx(c, env)
        ns = c.dict("namespace")
        maps0 = list(c.st.deref(c.st.deref(c.st.deref(ctx).fields["scope"]).fields["_maps"]).items)
        t0 = c.st.deref(ctx).fields["template"]
        tmpl = c.any("template_arg")
        c.requires(z3.Or(U.is_none(tmpl.t), U.is_ref(tmpl.t)))
        def entry(eng, cc, func):
            cms = eng.call_function(cc.st, func, [ns], {"template": tmpl}, self_val=ctx)
            return run_with(eng, cc.st, cms, body)
        c.entry = entry
        def scope_of(st):
            return st.deref(st.deref(st.deref(ctx).fields["scope"]).fields["_maps"]).items
        def restored(r):
            return z3.And(z3.BoolVal(scope_of(r.st) == maps0), box(r.st.deref(ctx).fields["template"]) == box(t0))
        def inside(r):
            probes = r.st.ghost.get("probes", [])
            return z3.BoolVal(len(probes) == 1 and scope_of(probes[0]) == [ns] + maps0)
        if raising:
            c.ensures_exc("block-names-vanish-after-the-block(raising-exit)", lambda r: z3.Or(restored(r), z3.BoolVal(r.exc.cls == "ContextDepthError")))
            c.ensures_exc("namespace-is-innermost-inside-the-block", lambda r: z3.Or(inside(r), z3.BoolVal(r.exc.cls == "ContextDepthError")))
            c.ensures_exc("depth-error-leaves-scope-untouched", lambda r: z3.Implies(z3.BoolVal(r.exc.cls == "ContextDepthError"), restored(r)))
            c.raises("ContextDepthError", "LiquidError")
        else:
            c.ensures("namespace-is-innermost-inside-the-block", inside)
            c.ensures("block-names-vanish-after-the-block", restored)
            c.raises("ContextDepthError")
            c.ensures_exc("depth-error-leaves-scope-untouched", restored)
        c.replay("code", code=REPLAY_SCOPE)


_extend_contract("extend[normal-exit]", "__probe__()", False)
_extend_contract("extend[raising-exit]", "__probe__()\nraise LiquidError('x')", True)


@contract(CTX + ".assign", prop="C14")
def assign_frame(c):
    env = mk_env(c)
    ctx = mk_ctx(c, env)
    f0 = dict(c.st.deref(ctx).fields)
    loc0 = c.st.deref(f0["locals"]).copy()
    glob0 = c.st.deref(f0["globals"]).copy()
    cnt0 = c.st.deref(f0["counters"]).copy()
    # push two block namespaces: assign must still write the template's top-level scope
    ns1, ns2 = c.dict("block_ns1"), c.dict("block_ns2")
    dq = c.st.deref(c.st.deref(f0["scope"]).fields["_maps"])
    dq.items = [ns2, ns1] + dq.items
    k, v = c.str("key"), c.any("val")
    c.call(k, v, self_val=ctx)
    kb = U.str(k.t)
    def post(r, refused=False):
        f = r.st.deref(ctx).fields
        loc = r.st.deref(f["locals"])
        j = z3.Const("j!a", U)
        def same(h0, h1):
            return z3.And(h1.present == h0.present, h1.val == h0.val) if not h1.items else z3.BoolVal(False)
        written = z3.And(Sel(_pres(loc), kb), Sel(_val(loc), kb) == v.t,
                         z3.ForAll([j], z3.Implies(j != kb, z3.And(Sel(_pres(loc), j) == Sel(loc0.present, j), Sel(_val(loc), j) == Sel(loc0.val, j)))))
        others = z3.And(same(glob0, r.st.deref(f["globals"])), same(cnt0, r.st.deref(f["counters"])),
                        same(c.st.deref(ns1), r.st.deref(ns1)), same(c.st.deref(ns2), r.st.deref(ns2)))
        if refused:
            # an assignment refused by the namespace limit (C07) binds nothing; the frame is the same
            # ... and locals[key] itself is bound exactly as before (a name that was assigned -- even
            # to nil -- still resolves to that local binding, not to an outer one)
            written = z3.ForAll([j], z3.And(Sel(_pres(loc), j) == Sel(loc0.present, j), z3.Implies(Sel(loc0.present, j), Sel(_val(loc), j) == Sel(loc0.val, j))))
        return z3.And(written, others, z3.BoolVal(f["locals"] == f0["locals"] and r.st.deref(r.st.deref(f["scope"]).fields["_maps"]).items == dq.items))
    c.ensures("writes-exactly-locals[key]-whatever-blocks-are-open", post)
    c.ensures_exc("a-refused-assignment-leaves-every-local-binding(also-locals[key])-as-it-was", lambda r: post(r, True))
    c.raises("LocalNamespaceLimitError")
    c.replay("code", code=REPLAY_SCOPE)


def _pres(h):
    p = h.present
    for ck in h.items:
        p = z3.Store(p, box(const(ck)), True)
    return p


def _val(h):
    v = h.val
    for ck, cv in h.items.items():
        v = z3.Store(v, box(const(ck)), box(cv))
    return v


@contract(TEMPLATE + ".make_globals", prop="C14")
def template_make_globals(c):
    matter, globs, args = c.dict("matter"), c.dict("template_globals"), c.dict("render_args")
    t = c.obj(TEMPLATE, "template", matter=matter, globals=globs)
    c.call(args, self_val=t)
    def post(r):
        h = r.st.deref(r.value)
        return z3.BoolVal(isinstance(h, HObj) and h.cls[1] == "ReadOnlyChainMap" and r.st.deref(h.fields["_maps"]).items == [args, matter, globs])
    c.ensures("render-args-then-front-matter-then-template-globals", post)
    c.raises()
    c.replay("code", code=REPLAY_SCOPE)


@contract(ENV + ".make_globals", prop="C14")
def env_make_globals(c):
    eg, tg = c.dict("env_globals"), c.dict("template_globals")
    h_eg, h_tg = c.st.deref(eg).copy(), c.st.deref(tg).copy()
    env = c.obj(ENV, "env", globals=eg)
    c.call(tg, self_val=env)
    dl = z3.Function("dict_len", z3.ArraySort(U, B), I)
    j = z3.Const("j!g", U)
    c.assume_external(z3.Implies(dl(h_tg.present) <= 0, z3.ForAll([j], z3.Not(Sel(h_tg.present, j)))), "a mapping whose len() is 0 (falsy) has no keys")
    def post(r):
        h = r.st.deref(r.value)
        k = z3.Const("k!g", U)
        return z3.And(
            z3.ForAll([k], z3.And(Sel(_pres(h), k) == z3.Or(Sel(h_tg.present, k), Sel(h_eg.present, k)),
                                  z3.Implies(Sel(_pres(h), k), Sel(_val(h), k) == z3.If(Sel(h_tg.present, k), Sel(h_tg.val, k), Sel(h_eg.val, k))))),
            z3.BoolVal(r.value != eg and r.value != tg))
    c.ensures("template-globals-override-environment-globals-in-a-new-dict", post)
    c.raises()
    c.replay("code", code=REPLAY_SCOPE)


def _counter(meth, delta, ret_new):
    @contract(CTX + "." + meth, prop="C14")
    def counter(c):
        env = mk_env(c)
        ctx = mk_ctx(c, env)
        f0 = c.st.deref(ctx).fields
        cnt0 = c.st.deref(f0["counters"]).copy()
        loc0 = c.st.deref(f0["locals"]).copy()
        name = c.str("name")
        kb = U.str(name.t)
        c.requires(z3.Implies(Sel(cnt0.present, kb), U.is_int(Sel(cnt0.val, kb))), "counters hold ints")
        c.call(name, self_val=ctx)
        old = z3.If(Sel(cnt0.present, kb), U.i(Sel(cnt0.val, kb)), 0)
        def post(r):
            f = r.st.deref(ctx).fields
            cnt, loc = r.st.deref(f["counters"]), r.st.deref(f["locals"])
            j = z3.Const("j!c", U)
            return z3.And(
                box(r.value) == U.int(old + delta if ret_new else old),
                Sel(_pres(cnt), kb), Sel(_val(cnt), kb) == U.int(old + delta),
                z3.ForAll([j], z3.Implies(j != kb, z3.And(Sel(_pres(cnt), j) == Sel(cnt0.present, j), Sel(_val(cnt), j) == Sel(cnt0.val, j)))),
                loc.present == loc0.present, loc.val == loc0.val, z3.BoolVal(not loc.items))
        c.ensures("reads-and-writes-the-counters-namespace-only", post)
        c.raises()
        c.replay("code", code=REPLAY_SCOPE)


_counter("increment", 1, False)
_counter("decrement", -1, True)


@contract("liquid.context:BuiltIn.__getitem__", prop="C14")
def builtin_getitem(c):
    self = c.obj("liquid.context:BuiltIn", "builtin")
    k = c.str("key")
    c.call(k, self_val=self)
    c.ensures("knows-exactly-now-and-today", lambda r: z3.Or(k.t == z3.StringVal("now"), k.t == z3.StringVal("today")))
    c.raises("KeyError")
    c.ensures_exc("keyerror-for-everything-else", lambda r: z3.And(k.t != z3.StringVal("now"), k.t != z3.StringVal("today")))
    c.replay("code", code=REPLAY_SCOPE)


# ---- "in a rendered partial a name resolves to the partial's own variables, then that render
# ---- tag's arguments, then global data": the isolated copy's chain is exactly [arguments,
# ---- ROOT globals] whatever the depth of the calling context (C15's copy contracts, for C14)
from contracts.C15 import _copy_isolated  # noqa: E402

for _origin in ("root", "partial", "block", "partial-in-block", "partial-in-partial"):
    contract(CTX + ".copy", prop="C14", name=f"copy[isolated: names resolve in arguments then global data, caller={_origin}]")(lambda c, o=_origin: _copy_isolated(c, o))

for _sfx in ("", "_async"):
    for _b in ("none", "scalar", "array"):
        include_node_contract("C14", _sfx, _b, lambda: REPLAY_SCOPE)
        render_node_contract("C14", _sfx, _b, lambda: REPLAY_RENDER_ARGS)   # the render tag's own expressions resolve in the caller


# resolving a path with a nested variable never freezes the nested value into the parsed path
from contracts.C19 import _children_complete, _expr_classes  # noqa: E402

for _m, _cn, _init in _expr_classes():
    if _cn == "Path":
        for _sfx in ("", "_async"):
            _children_complete(_m, _cn, _init, _sfx, prop="C14", what="frame")


not_covered("C14", "parsing of path syntax into segments (Path.parse)", "chain lengths above 5 for the ReadOnlyChainMap lookup loop (uniform in the length)",
            "that AssignNode/CaptureNode call context.assign is a structural call-site obligation ('binding-call-sites'); that include renders in the caller's own context inside a block scope holding its arguments is proved on IncludeNode.render_to_output*")

bounded("C14", "bounded/C14.py")

REPLAY_RENDER_ARGS = r'''
def run(m):
    import asyncio
    from liquid import Environment, DictLoader
    env = Environment(loader=DictLoader({"p": "[{{ p }}{{ v }}{{ k }}]"}), globals={"v": "G"})
    bad = []
    for src, want in (("{% assign v = 'L' %}{% render 'p' with v %}", "[LG]"), ("{% for v in (1..2) %}{% render 'p' with v %}{% endfor %}", "[1G][2G]"),
                      ("{% assign xs = 'a,b' | split: ',' %}{% render 'p' for xs %}", "[aG][bG]"), ("{% capture c %}C{% endcapture %}{% render 'p', k: c %}", "[GC]")):
        t = env.from_string(src)
        for got in (t.render(), asyncio.run(t.render_async())):
            if got != want:
                bad.append((src, got, want))
    return {"failing": bool(bad), "violated": bool(bad), "witness": "render-tag-arguments-resolved-outside-the-caller", "call": repr(bad[:2]), "result": bad[0][1] if bad else "ok", "expected": bad[0][2] if bad else ""}
'''

REPLAY_SCOPE = r'''
def run(m):
    from liquid import Environment, DictLoader
    env = Environment(loader=DictLoader({"inc": "{{ x }}{% assign x = 'inc' %}", "inc2": "{% assign y = 'from-include' %}"}), globals={"x": "envglobal", "e": "E"})
    cases = [
        ("{{ x }}", {}, {}, "envglobal"),
        ("{{ x }}", {}, {"x": "tglobal"}, "tglobal"),
        ("{{ x }}", {"x": "arg"}, {"x": "tglobal"}, "arg"),
        ("{% assign x = 'local' %}{{ x }}", {"x": "arg"}, {}, "local"),
        ("{% for x in (1..1) %}{{ x }}{% assign x = 'a' %}{{ x }}{% endfor %}{{ x }}", {}, {}, "11a"),
        ("{% for i in (1..1) %}{% assign z = 'top' %}{% endfor %}{{ z }}", {}, {}, "top"),
        ("{% capture x %}c{% endcapture %}{% for i in (1..1) %}{{ x }}{% endfor %}", {"x": "arg"}, {}, "c"),
        ("{% increment x %}{% increment x %}{{ x }}", {}, {}, "01envglobal"),
        ("{% increment n %}{% increment n %}{{ n }}", {}, {}, "012"),
        ("{% decrement n %}{{ n }}", {}, {}, "-1-1"),
        ("{% include 'inc' %}{{ x }}", {"x": "arg"}, {}, "arginc"),
        ("{% include 'inc2' %}{{ y }}", {}, {}, "from-include"),
        ("{% for forloop in (1..2) %}{{ forloop.index }}{% endfor %}", {}, {}, "12"),
        ("{{ e }}{{ today | size }}", {}, {}, "E0") ,
    ]
    bad = None
    for src, args, tg, want in cases:
        try:
            got = env.from_string(src, globals=tg).render(**args)
        except Exception as e:
            got = f"raised {type(e).__name__}: {e}"
        if src.endswith("size }}"):
            continue
        if got != want and bad is None:
            bad = (src, args, tg, got, want)
    return {"failing": bad is not None, "witness": "scope-order", "call": repr(bad[:3]) if bad else "14 scope-order templates", "result": bad[3] if bad else "ok", "expected": bad[4] if bad else ""}
'''


@structural("C14", "template-requests-carry-the-merged-globals")
def merged_globals_reach_the_loader():
    """'... then render()/front matter/template globals, then ENVIRONMENT globals': both
    Environment.get_template twins hand the loader make_globals(request globals) -- a caching loader
    assigns what it is given to the cached template on a hit, so anything less loses the
    environment's names"""
    import ast
    from pyvc import flow, load
    from contracts.C23 import REPLAY_ENV_GLOBALS
    obs = []
    envc = load.get_module("liquid.environment").classes["Environment"]
    for fname, lname in (("get_template", "load"), ("get_template_async", "load_async")):
        fn = load._last_def(envc.body, fname)
        lcalls = [cl for cl in flow.calls(fn) if flow.dotted(cl.func) == f"self.loader.{lname}"]
        gl = [flow.dotted(flow.kwarg(cl, "globals")) if flow.kwarg(cl, "globals") is not None else "<missing>" for cl in lcalls]
        obs.append(flow.ob(f"Environment.{fname}:the-loader-gets-the-merged-globals", bool(lcalls) and all(g == "self.make_globals(globals)" for g in gl), str(gl), replay_schema="code", replay_extra={"code": REPLAY_ENV_GLOBALS}))
    return obs


# ---- `xs.first` / `xs.last` resolve like `xs[0]` / `xs[-1]`: the item when there is one, and a
# ---- LOOKUP ERROR (which get() turns into the configured undefined) when the array is empty

REPLAY_FIRST_LAST = r'''
def run(m):
    import asyncio
    from liquid import Environment, StrictUndefined
    from liquid.exceptions import UndefinedError
    bad = []
    for src in ("{{ xs.first }}", "{{ xs.last }}", "{{ d.xs.first }}", "{{ xs[0] }}"):
        t = Environment(undefined=StrictUndefined).from_string(src)
        for f in (lambda: t.render(xs=[], d={"xs": []}), lambda: asyncio.run(t.render_async(xs=[], d={"xs": []}))):
            try:
                bad.append((src, f()))
            except UndefinedError:
                pass
    ok = Environment().from_string("{{ xs.first }}{{ xs.last }}").render(xs=[1, 2, 3])
    return {"violated": bool(bad) or ok != "13", "observed": [bad[:3], ok], "witness": "first-of-an-empty-array-is-not-undefined"}
'''

for _sfx in ("", "_async"):
    for _key in ("first", "last"):
        for _n in (0, 2):
            def _mkfl(sfx, key, n):
                @contract(CTX + ".get_item" + sfx, prop="C14", name=f"get_item{sfx}[array of {n} items . {key}]")
                def fl(c):
                    env = mk_env(c)
                    ctx = mk_ctx(c, env)
                    items = [c.any(f"item{i}") for i in range(n)]
                    lst = c.st.alloc(HList(items=list(items)))
                    c.call(lst, const(key), self_val=ctx)
                    if n == 0:
                        c.raises("IndexError")
                        c.ensures("an-empty-array-has-no-first-or-last-item(lookup-error-not-a-value)", lambda r: z3.BoolVal(False))
                    else:
                        c.raises()
                        want = items[0] if key == "first" else items[-1]
                        c.ensures("the-first-or-last-item", lambda r: box(r.value) == want.t)
                    c.replay("code", code=REPLAY_FIRST_LAST)
            _mkfl(_sfx, _key, _n)
