"""C09 -- parsing and rendering always terminate within the stack."""
import ast

import z3

from contracts.common import *  # noqa: F403
from pyvc import flow, load
from pyvc.contract import contract
from pyvc.run import bounded, not_covered, structural
from pyvc.state import *  # noqa: F403
from pyvc.u import *  # noqa: F403

ADVANCE_CALLS = {"next", "eat", "eat_one_of", "next_token", "parse", "get_node", "parse_block", "eat_block", "into_inner", "parse_primitive", "parse_identifier", "parse_string_or_identifier", "parse_string_or_path",
                 "parse_name", "parse_boolean_primitive", "parse_infix_expression", "parse_grouped_expression", "parse_arguments", "parse_filter", "parse_filters", "_parse_when", "parse_expression", "parse_path"}


def advances(expr):
    for c in [n for n in ast.walk(expr) if isinstance(n, ast.Call)]:
        name = flow.call_name(c)
        if name in ADVANCE_CALLS or name.startswith("parse"):
            return True
    return False


def falls_through_without_progress(stmts, progressed=False):
    """True if some path through `stmts` reaches the end (or `continue`) of the loop body
    without a stream-advancing call and without leaving the loop"""
    for i, st in enumerate(stmts):
        if isinstance(st, (ast.Break, ast.Return, ast.Raise)):
            return False
        if isinstance(st, ast.Continue):
            return not progressed
        if isinstance(st, ast.If):
            p = progressed or advances(st.test)
            rest = stmts[i + 1 :]
            body_bad = falls_through_without_progress(list(st.body) + rest, p)
            else_bad = falls_through_without_progress(list(st.orelse) + rest, p)
            return body_bad or else_bad
        if isinstance(st, ast.Try):
            rest = stmts[i + 1 :]
            bad = falls_through_without_progress(list(st.body) + list(st.orelse) + list(st.finalbody) + rest, progressed)
            for h in st.handlers:
                # an exception may be raised before the body advanced anything
                bad = bad or falls_through_without_progress(list(h.body) + list(st.finalbody) + rest, progressed)
            return bad
        if isinstance(st, (ast.While, ast.For)):
            if advances(st):
                progressed = True
            continue
        if isinstance(st, (ast.With,)):
            return falls_through_without_progress(list(st.body) + stmts[i + 1 :], progressed or any(advances(it.context_expr) for it in st.items))
        if advances(st):
            progressed = True
    return not progressed


PARSER_MODULES = ["liquid.parser", "liquid.stream"] + [m for m in load.all_modules() if m.startswith(("liquid.builtin.tags.", "liquid.extra.tags.", "liquid.builtin.expressions."))]


@structural("C09", "loop-variants")
def loop_variants():
    """variant len(tokens) - pos: every iteration of every token-stream `while` loop either
    leaves the loop (break/return/raise) or calls something that consumes a token"""
    obs = []
    n = 0
    for m in PARSER_MODULES:
        mod = load.get_module(m)
        for fn in [x for x in ast.walk(mod.tree) if isinstance(x, (ast.FunctionDef, ast.AsyncFunctionDef))]:
            for k, loop in enumerate(sorted([x for x in ast.walk(fn) if isinstance(x, ast.While)], key=lambda x: x.lineno)):
                test = flow.dotted(loop.test)
                if not any(t in test for t in ("stream", "tokens", "True", "current", "peek")):
                    continue
                n += 1
                bad = falls_through_without_progress(list(loop.body), advances(loop.test))
                obs.append(flow.ob(f"{m.split('.')[-1]}.{fn.name}:while#{k}:every-iteration-consumes-a-token-or-exits", not bad, f"while {test[:70]} (line {loop.lineno})", replay_schema="code", replay_extra={"code": REPLAY}))
    obs.append(flow.ob("token-stream-loops-found", n >= 5, f"{n} loops"))
    return obs


def _free_names(loop):
    return {n.id for n in ast.walk(loop) if isinstance(n, ast.Name) and isinstance(n.ctx, ast.Load)}


def _loop_step_at_eof(m, fn, loop, cls):
    """Symbolically execute `test; body` of a token-stream loop once, from a state in which the
    stream is at its end (current token = EOF; every other local arbitrary).  Outcomes: the loop
    is left (test false / break / return / raise) or the iteration completes (falls through)."""
    import z3 as _z3

    from pyvc.contract import Contract, ContractDef
    from pyvc.engine import Engine
    from pyvc.state import BRK, CONT, Raised, Ret, const
    from pyvc.u import HList, HObj, U, VConst, VInt, VStr, VU

    c = Contract(ContractDef(f"{m}:{fn.name}", "C09", lambda c_: None))
    c.summary("liquid.stream:TokenStream._operator", lambda eng, st, a, k: [(st, VStr(_z3.String("operator_name")))])
    eng = Engine(c)
    st = c.st
    mod = load.get_module(m)
    EOFK = "end of expression"
    eof = st.alloc(HObj(("liquid.token", "Token"), {"kind": const(EOFK), "value": const(EOFK), "start_index": const(-1), "source": const("")}, {}, "eof"))
    stream = st.alloc(HObj(("liquid.stream", "TokenStream"), {"tokens": st.alloc(HList(items=[])), "pos": const(0), "block_depth": VInt(_z3.Int("depth")), "eof": eof}, {}, "stream"))
    locs = {"__frame__": VConst({"module": mod, "cls": (m, cls.name) if cls else None, "closure": None, "qual": fn.name, "self_name": "self"})}
    for name in _free_names(loop):
        if name in ("stream", "tokens"):
            locs[name] = stream
        elif name == "self" and cls is not None:
            locs[name] = st.alloc(HObj((m, cls.name), {}, {"*": "U"}, "self"))
        elif name in ("token", "tok"):
            locs[name] = eof      # a local that caches the current token
        elif name in ("kind", "value"):
            locs[name] = const(EOFK)
    # locals that cache the stream's current token (`x = stream.current`, refreshed by the loop):
    # at the loop head of the EOF state they hold the EOF token
    for a in ast.walk(fn):
        if isinstance(a, ast.Assign) and len(a.targets) == 1 and isinstance(a.targets[0], ast.Name) and a.targets[0].id in _free_names(loop) and a.targets[0].id not in locs:
            v = a.value
            if (isinstance(v, ast.Attribute) and v.attr == "current" and isinstance(v.value, ast.Name) and v.value.id in ("stream", "tokens")) or \
               (isinstance(v, ast.Call) and isinstance(v.func, ast.Name) and v.func.id == "next" and v.args and isinstance(v.args[0], ast.Name) and v.args[0].id in ("stream", "tokens")):
                locs[a.targets[0].id] = eof
    st.locals = locs
    # locals initialised as containers before the loop hold arbitrary contents when it is reached
    from pyvc.u import SeqU
    for a in ast.walk(fn):
        tgt = a.targets[0] if isinstance(a, ast.Assign) and len(a.targets) == 1 else (a.target if isinstance(a, ast.AnnAssign) else None)
        if isinstance(tgt, ast.Name) and tgt.id in _free_names(loop) and tgt.id not in locs and a.lineno < loop.lineno:
            if isinstance(a.value, ast.List):
                locs[tgt.id] = st.alloc(HList(seq=_z3.Const(f"list_{tgt.id}", SeqU)))
            elif isinstance(a.value, ast.Dict):
                locs[tgt.id] = c.dict(f"dict_{tgt.id}")
    for name in _free_names(loop):
        if name not in locs and eng.module_name(mod, name) is None and eng.builtin_name(name) is None:
            locs[name] = VU(_z3.Const(f"local_{name}", U))
    outs = []
    for s, tv in eng.ev(loop.test, st):
        if isinstance(tv, Raised):
            outs.append("raise")
            continue
        for s2, t in eng.branch(s, eng.truth(s, tv)):
            if not t:
                outs.append("test-false")
                continue
            for _s3, o in eng.exec_block(loop.body, s2):
                outs.append("raise" if isinstance(o, Raised) else ("break" if o is BRK else ("return" if isinstance(o, Ret) else "completes-the-iteration")))
    return outs


@structural("C09", "loops-end-at-eof")
def loops_end_at_eof():
    """next() does not advance a stream that is at its end, so the variant len(tokens) - pos
    stops decreasing there: every token-stream loop must be LEFT by an iteration that starts at
    EOF.  Decided by symbolic execution of one loop step from the EOF state (pyvc, no solver query
    beyond path feasibility); together with 'loop-variants' (progress before EOF) this is
    termination of the parse loops."""
    obs = []
    n = 0
    for m in PARSER_MODULES:
        mod = load.get_module(m)
        pm = flow.parents(mod.tree)
        for fn in [x for x in ast.walk(mod.tree) if isinstance(x, (ast.FunctionDef, ast.AsyncFunctionDef))]:
            for k, loop in enumerate(sorted([x for x in ast.walk(fn) if isinstance(x, ast.While)], key=lambda x: x.lineno)):
                test = flow.dotted(loop.test)
                if not any(t in test for t in ("stream", "tokens", "True", "current", "peek")):
                    continue
                n += 1
                cls = next(iter(flow.enclosing(pm, fn, (ast.ClassDef,))), None)
                label = f"{m.split('.')[-1]}.{fn.name}:while#{k}:an-iteration-that-starts-at-EOF-leaves-the-loop"
                try:
                    outs = _loop_step_at_eof(m, fn, loop, cls)
                    ok = bool(outs) and "completes-the-iteration" not in outs
                    obs.append(flow.ob(label, ok, f"outcomes at EOF: {sorted(set(outs))} (while {test[:60]}, line {loop.lineno})", replay_schema="code", replay_extra={"code": REPLAY_EOF}))
                except Exception as e:  # noqa: BLE001
                    o = flow.ob(label, False, f"{type(e).__name__}: {e}")
                    o["status"] = "undecided"
                    obs.append(o)
    obs.append(flow.ob("token-stream-loops-found", n >= 5, f"{n} loops"))
    return obs


REPLAY_EOF = r'''
def run(m):
    import signal
    from liquid import Environment, Mode
    class Hang(BaseException):
        pass
    def alarm(*_):
        raise Hang()
    signal.signal(signal.SIGALRM, alarm)
    bad = []
    heads = ["{% doc %}", "{% comment %}", "{% if x %}", "{% for a in b %}", "{% case x %}", "{% unless x %}", "{% raw %}", "{% capture c %}", "{% if a", "{{ a | f: ", "{% for a in (1..", "{% case x %}{% when "]
    tails = ["", " text", "{{ a }}", "{% assign q = 1 %}", "{% if y %}"]
    for h in heads:
        for t in tails:
            for mode in (Mode.STRICT, Mode.LAX):
                signal.setitimer(signal.ITIMER_REAL, 3)
                try:
                    Environment(tolerance=mode).from_string(h + t)
                except Hang:
                    bad.append((h + t, mode.name))
                except Exception:
                    pass
                finally:
                    signal.setitimer(signal.ITIMER_REAL, 0)
    return {"violated": bool(bad), "observed": bad[:3], "witness": "parse-hangs-on-unterminated-input"}
'''


@structural("C09", "extends-cycle-guard")
def extends_cycle_guard():
    """the chain walk loads template X only after `X in seen` failed and X was added to `seen`:
    every iteration adds a new element of the finite set of template names (variant), so a
    circular chain is cut off -- for the sync and the async walk alike"""
    obs = []
    mod = load.get_module("liquid.extra.tags.extends_tag")
    for fname in ("_build_block_stacks", "_build_block_stacks_async"):
        fn = mod.funcs[fname]
        tests = [flow.dotted(c.left) for c in ast.walk(fn) if isinstance(c, ast.Compare) and len(c.ops) == 1 and isinstance(c.ops[0], ast.In) and flow.dotted(c.comparators[0]) == "seen"]
        adds = [flow.dotted(c.args[0]) for c in flow.calls(fn) if flow.dotted(c.func) == "seen.add" and c.args]
        loads = [flow.dotted(c.args[0]) for c in flow.calls(fn) if flow.call_name(c) in ("get_template", "get_template_async") and c.args]
        ok = len(tests) == 1 and adds == tests and loads == tests
        obs.append(flow.ob(f"{fname}:the-name-tested-is-the-name-recorded-is-the-name-loaded", ok, f"tested {tests}, recorded {adds}, loaded {loads}", replay_schema="code", replay_extra={"code": REPLAY_EXTENDS}))
        # the guard raises
        guards = [i for i in ast.walk(fn) if isinstance(i, ast.If) and "in seen" in flow.dotted(i.test)]
        obs.append(flow.ob(f"{fname}:a-repeated-name-raises-TemplateInheritanceError", bool(guards) and all(any(isinstance(x, ast.Raise) and "TemplateInheritanceError" in flow.dotted(x.exc) for x in g.body) for g in guards), ""))
    return obs


REPLAY_EXTENDS = r'''
def run(m):
    import asyncio, signal
    from liquid import DictLoader, Environment
    from liquid.exceptions import TemplateInheritanceError
    class Hang(BaseException):
        pass
    def alarm(*_):
        raise Hang()
    signal.signal(signal.SIGALRM, alarm)
    env = Environment(extra=True, loader=DictLoader({"d/a": "{% extends 'd/b' %}", "d/b": "{% extends 'd/a' %}"}))
    out = []
    for f in (lambda: env.get_template("d/a").render(), lambda: asyncio.run(env.get_template("d/a").render_async())):
        signal.setitimer(signal.ITIMER_REAL, 5)
        try:
            f(); out.append("completed")
        except TemplateInheritanceError:
            out.append("cut-off")
        except Hang:
            out.append("hang")
        finally:
            signal.setitimer(signal.ITIMER_REAL, 0)
    return {"violated": out != ["cut-off", "cut-off"], "observed": out}
'''


@contract(CTX + ".copy", prop="C09", name="copy[depth-ghost]")
def copy_depth(c):
    env = mk_env(c)
    ctx = mk_ctx(c, env)
    c.call(c.dict("namespace"), self_val=ctx, block_scope=c.bool("block_scope"), carry_loop_iterations=c.bool("carry"))
    d0 = c.st.deref(ctx).fields["_copy_depth"].t
    lim = c.st.deref(env).fields["context_depth_limit"].t
    c.ensures("every-copy-is-one-level-deeper-and-within-the-limit", lambda r: z3.And(r.st.deref(r.value).fields["_copy_depth"].t == d0 + 1, d0 <= lim))
    c.raises("ContextDepthError")
    c.ensures_exc("cut-off-exactly-beyond-the-limit", lambda r: d0 > lim)
    c.replay("code", code=REPLAY)


@contract(CTX + ".extend", prop="C09", name="extend[depth-ghost]")
def extend_depth(c):
    env = mk_env(c)
    ctx = mk_ctx(c, env)
    lim = c.st.deref(env).fields["context_depth_limit"].t
    n0 = len(c.st.deref(c.st.deref(c.st.deref(ctx).fields["scope"]).fields["_maps"]).items)
    def entry(eng, cc, func):
        return run_with(eng, cc.st, eng.call_function(cc.st, func, [c.dict("ns")], {}, self_val=ctx))
    c.entry = entry
    def post(r):
        p = r.st.ghost.get("probes", [])
        if len(p) != 1:
            return z3.BoolVal(False)
        inside = len(p[0].deref(p[0].deref(p[0].deref(ctx).fields["scope"]).fields["_maps"]).items)
        return z3.And(z3.BoolVal(inside == n0 + 1), z3.IntVal(n0) <= lim)
    c.ensures("block-runs-one-scope-deeper-and-only-within-the-limit", post)
    c.raises("ContextDepthError")
    c.ensures_exc("cut-off-exactly-beyond-the-limit", lambda r: z3.IntVal(n0) > lim)
    c.replay("code", code=REPLAY)


@structural("C09", "recursion-passes-a-depth-check")
def recursion_guard():
    """every place a node renders ANOTHER template (or a macro / parent block) does so through
    RenderContext.extend or RenderContext.copy, whose depth checks are verified above"""
    obs = []
    n = 0
    for m, cname, cnode in flow.iter_classes():
        for fn in [s for s in cnode.body if isinstance(s, (ast.FunctionDef, ast.AsyncFunctionDef)) and (s.name.startswith("render_to_output") or s.name == "__getitem__")]:
            pm = flow.parents(fn)
            for cl in flow.calls(fn):
                nm = flow.call_name(cl)
                recv = flow.dotted(cl.func.value) if isinstance(cl.func, ast.Attribute) else ""
                other = nm in ("render_with_context", "render_with_context_async") or (nm in ("render", "render_async") and recv in ("macro.block", "stack_item.block.block", "self.parent.block.block"))
                if not other:
                    continue
                n += 1
                ctx_arg = flow.dotted(cl.args[0]) if cl.args else "?"
                guarded = False
                # (a) the context comes from <x>.copy(...) in this function
                for a in ast.walk(fn):
                    if isinstance(a, ast.Assign) and any(flow.dotted(t) == ctx_arg for t in a.targets) and isinstance(a.value, ast.Call) and flow.call_name(a.value) == "copy":
                        guarded = True
                # (b) or the call is inside `with <ctx>.extend(...)`
                for w in flow.enclosing(pm, cl, (ast.With, ast.AsyncWith)):
                    for it in w.items:
                        e = it.context_expr
                        if isinstance(e, ast.Call) and flow.call_name(e) in ("extend", "loop", "iterations") and flow.dotted(e.func.value) == ctx_arg:
                            guarded = guarded or flow.call_name(e) == "extend"
                # (c) or the callee's first act is `with context.extend` (render_with_context itself)
                if nm.startswith("render_with_context"):
                    guarded = True if guarded else "render_with_context-extends"
                obs.append(flow.ob(f"{cname}.{fn.name}@{cl.lineno - fn.lineno}:renders-other-template-through-a-depth-check", bool(guarded), f"{flow.dotted(cl)[:80]}", replay_schema="code", replay_extra={"code": REPLAY}))
    rwc = load.find_method("liquid.template", "BoundTemplate", "render_with_context")[2]
    first_with = [s for s in rwc.body if isinstance(s, ast.With)]
    obs.append(flow.ob("render_with_context:body-runs-inside-context.extend", bool(first_with) and "context.extend(" in flow.dotted(first_with[0].items[0].context_expr), ""))
    obs.append(flow.ob("cross-template-render-sites-found", n >= 4, f"{n} sites"))
    return obs


parse_block_guard_contract("C09", lambda: REPLAY_NESTING)

REPLAY_NESTING = r'''
def run(m):
    from liquid import Environment, Mode
    from liquid.exceptions import LiquidError, BlockNestingError
    bad = []
    for depth in (40, 700):
        src = "{% if true %}" * depth + "x" + "{% endif %}" * depth
        for mode in (Mode.LAX, Mode.WARN):
            import warnings
            with warnings.catch_warnings():
                warnings.simplefilter("ignore")
                try:
                    Environment(tolerance=mode).from_string(src).render()
                except BaseException as e:
                    bad.append((depth, mode.name, type(e).__name__))
        try:
            Environment().from_string(src)
            bad.append((depth, "STRICT", "parsed"))
        except BlockNestingError:
            pass
        except BaseException as e:
            bad.append((depth, "STRICT", type(e).__name__))
    return {"violated": bool(bad), "observed": bad[:4], "witness": "nesting-guard"}
'''

not_covered("C09", "'parsing finishes promptly' for the regular-expression lexers (backtracking cost of `.*?` under DOTALL): no contract on the `re` engine's complexity can decide it",
            "the loop-variant obligations are syntactic (a consuming call on every path); callee contracts 'pos does not decrease' are assumed for the parse helpers",
            "the Python-frame budget: (depth limit) x (block nesting limit) x frames-per-level exceeds sys.getrecursionlimit() -- see the known finding")

bounded("C09", "bounded/C09.py")

REPLAY = r'''
def run(m):
    from bounded.C09 import run as brun
    r = brun("quick", 0)
    v = r["violations"]
    return {"failing": bool(v), "witness": v[0]["witness"] if v else "termination", "call": v[0]["source"] if v else "recursion sweep", "result": v[0]["got"] if v else "ok"}
'''


# ---- callees summarised elsewhere, verified here: eat_block stops at the first end tag or at the
# ---- end of the stream and never raises

def _eat_block_contract(kinds, end_at):
    @contract("liquid.parser:eat_block", prop="C09", name=f"eat_block[{','.join(kinds) or 'empty'}: stops at {'the end tag' if end_at is not None else 'EOF'}]")
    def eb(c):
        toks = []
        for i, k in enumerate(kinds):
            kind = "tag" if k.startswith("tag:") else k
            value = const(k.split(":", 1)[1]) if k.startswith("tag:") else c.str(f"value{i}")
            toks.append(c.obj("liquid.token:Token", f"token{i}", kind=const(kind), value=value, start_index=c.int(f"start{i}"), source=c.str("source")))
        eof = c.obj("liquid.token:Token", "eof", kind=const("eof"), value=const(""), start_index=const(-1), source=const(""))
        import pyvc.flow as _flow
        import ast as _ast
        tokmod = load.get_module("liquid.token")
        eof_kind = _flow.const_eval(tokmod, tokmod.consts["TOKEN_EOF"])
        tag_kind = _flow.const_eval(tokmod, tokmod.consts["TOKEN_TAG"])
        for t, k in zip(toks, kinds):
            if k.startswith("tag:"):
                c.st.deref(t).fields["kind"] = const(tag_kind)
        c.st.deref(eof).fields["kind"] = const(eof_kind)
        stream = c.obj("liquid.stream:TokenStream", "stream", tokens=c.st.alloc(HList(items=list(toks))), pos=const(0), block_depth=const(0), eof=eof)
        from pyvc.expr import _Frozen
        c.call(stream, VConst(_Frozen(frozenset(("endif", "else")))))
        want = end_at if end_at is not None else len(kinds)
        c.ensures("stops-exactly-there", lambda r: r.st.deref(stream).fields["pos"].t == want)
        c.raises()
        c.replay("code", code=REPLAY_NESTING)


_eat_block_contract((), None)
_eat_block_contract(("content", "tag:for", "output"), None)
_eat_block_contract(("content", "tag:for", "tag:endif", "content"), 2)
_eat_block_contract(("tag:else", "tag:endif"), 0)
