"""C16 -- strict undefined types only refine the default behaviour."""
import ast

import z3

from contracts.common import *  # noqa: F403
from pyvc import flow, load
from pyvc.contract import contract
from pyvc.run import bounded, not_covered, structural
from pyvc.state import *  # noqa: F403
from pyvc.u import *  # noqa: F403

UMOD = "liquid.undefined"
STRICT = ["StrictUndefined", "StrictDefaultUndefined", "FalsyStrictUndefined"]
# methods the engine calls on undefined values, with their arity (besides self)
METHODS = {"__contains__": 1, "__eq__": 1, "__getitem__": 1, "__len__": 0, "__iter__": 0, "__str__": 0, "__int__": 0, "__reversed__": 0, "__liquid__": 0, "poke": 0}


def mk_undef(c, cls, tag=""):
    return c.obj(f"{UMOD}:{cls}", cls + tag, name=c.str("name" + tag), token=NONE, obj=VConst(("sentinel", UMOD, "UNDEFINED")), hint=c.any("hint" + tag), msg=c.str("msg" + tag))


def val_repr(st, eng, v):
    """comparable abstraction of a result value"""
    if isinstance(v, VRef):
        h = st.deref(v)
        if isinstance(h, HObj):
            return ("obj", h.cls[1])
        if isinstance(h, HList):
            items = h.items if h.items is not None else None
            return ("list", tuple(items) if items is not None else "sym")
        if isinstance(h, (HIter, HCIter)):
            rest = h.items[h.pos:] if isinstance(h, HCIter) else "sym"
            return ("iter", tuple(rest) if rest != "sym" else "sym")
    return v


def _refine(S, m, arity):
    res = load.find_method(UMOD, S, m)
    if res is None:
        return
    target = f"{res[0]}:{res[1]}.{m}"

    @contract(target, prop="C16", name=f"{S}.{m}[refines Undefined.{m}]")
    def refine(c):
        s_obj = mk_undef(c, S, "_s")
        d_obj = mk_undef(c, "Undefined", "_d")
        args = [c.any(f"arg{i}") for i in range(arity)]
        base = load.find_method(UMOD, "Undefined", m)
        def entry(eng, cc, func):
            outs = []
            for s, o in eng.run(func, cc.st, args, {}, self_val=s_obj):
                if isinstance(o, Raised):
                    outs.append((s, o))
                    continue
                bf = VFunc(base[2], load.get_module(base[0]), None, f"Undefined.{m}", (base[0], base[1]))
                for s2, o2 in eng.run(bf, s, args, {}, self_val=d_obj):
                    if isinstance(o2, Raised):
                        outs.append((s2, Ret(VTuple((o.val, VConst(("raised", o2.exc.cls)))))))
                    else:
                        outs.append((s2, Ret(VTuple((o.val, o2.val)))))
            return outs
        c.entry = entry
        def post(r):
            a, b = r.value.items
            if isinstance(b, VConst) and isinstance(b.py, tuple) and b.py[0] == "raised":
                return z3.BoolVal(False)
            ra, rb = val_repr(r.st, r.engine, a), val_repr(r.st, r.engine, b)
            # `return self`: both return their own receiver
            if a == s_obj and b == d_obj:
                return z3.BoolVal(True)
            if isinstance(ra, tuple) or isinstance(rb, tuple):
                return z3.BoolVal(ra == rb)
            try:
                return box(ra) == box(rb)
            except Unsupported:
                return z3.BoolVal(ra == rb)
        c.ensures("returns-what-the-default-undefined-returns", post)
        c.raises("UndefinedError")
        c.replay("code", code=REPLAY)


for _S in STRICT:
    for _m, _ar in METHODS.items():
        if _S == "FalsyStrictUndefined" and _m == "__eq__":
            continue  # deliberate difference; discharged at the consumers below
        _refine(_S, _m, _ar)


@contract(f"{UMOD}:FalsyStrictUndefined.__bool__", prop="C16")
def falsy_bool(c):
    o = mk_undef(c, "FalsyStrictUndefined")
    c.call(self_val=o)
    c.ensures("falsy-like-the-default-undefined(len==0)", lambda r: z3.Not(r.truth()))
    c.raises()
    c.replay("code", code=REPLAY)


for _m, _ar in METHODS.items():
    def _mk(m, ar):
        @contract(f"{UMOD}:Undefined.{m}", prop="C16", name=f"Undefined.{m}[total]")
        def total(c):
            o = mk_undef(c, "Undefined")
            c.call(*[c.any(f"arg{i}") for i in range(ar)], self_val=o)
            c.ensures("default-undefined-never-raises", lambda r: z3.BoolVal(True))
            c.raises()
            c.replay("code", code=REPLAY)
    _mk(_m, _ar)


# ---- consumers: two runs, strict vs default undefined ------------------------------------

def _consumer(target, name, mk_call, strict_classes=STRICT):
    for S in strict_classes:
        def _mk(S):
            @contract(target, prop="C16", name=f"{name}[{S} refines Undefined]")
            def cons(c):
                s_obj = mk_undef(c, S, "_s")
                d_obj = mk_undef(c, "Undefined", "_d")
                other = c.any("other")
                c.requires(z3.Not(z3.And(U.is_ref(other.t), z3.Function("ref_hasattr$__liquid__", U, B)(other.t))), "other operand is not a drop")
                for cls in ("Undefined", "Empty", "Blank", "Decimal"):
                    c.requires(z3.Not(z3.And(U.is_ref(other.t), z3.Function("ref_isinstance$" + cls, U, B)(other.t))))
                def entry(eng, cc, func):
                    outs = []
                    a1, k1 = mk_call(s_obj, other)
                    a2, k2 = mk_call(d_obj, other)
                    for s, o in eng.run(func, cc.st, a1, k1):
                        if isinstance(o, Raised):
                            outs.append((s, o))
                            continue
                        for s2, o2 in eng.run(func, s, a2, k2):
                            if isinstance(o2, Raised):
                                outs.append((s2, Ret(VTuple((o.val, VConst(("raised", o2.exc.cls)))))))
                            else:
                                outs.append((s2, Ret(VTuple((o.val, o2.val)))))
                    return outs
                c.entry = entry
                def post(r):
                    a, b = r.value.items
                    if isinstance(b, VConst) and isinstance(b.py, tuple) and b.py[0] == "raised":
                        return z3.BoolVal(False)
                    if a == s_obj and b == d_obj:
                        return z3.BoolVal(True)  # both return the undefined operand itself
                    try:
                        return box(a) == box(b)
                    except Unsupported:
                        return z3.BoolVal(a == b)
                c.ensures("strict-result-equals-default-result", post)
                c.raises("UndefinedError", "LiquidTypeError")
                c.replay("code", code=REPLAY)
        _mk(S)


LOGICAL = "liquid.builtin.expressions.logical"
_consumer(LOGICAL + ":is_truthy", "is_truthy(undefined)", lambda u, o: ([u], {}))
_consumer(LOGICAL + ":_eq", "_eq(undefined, x)", lambda u, o: ([u, o], {}))
_consumer(LOGICAL + ":_eq", "_eq(x, undefined)", lambda u, o: ([o, u], {}))
_consumer(LOGICAL + ":_lt", "_lt(undefined, x)", lambda u, o: ([NONE, u, o], {}))
_consumer(LOGICAL + ":_contains", "_contains(undefined, x)", lambda u, o: ([NONE, u, o], {}))
_consumer(LOGICAL + ":_contains", "_contains(x, undefined)", lambda u, o: ([NONE, o, u], {}))
_consumer("liquid.builtin.filters.misc:default", "default(undefined, x)", lambda u, o: ([u, o], {}))
_consumer("liquid.builtin.filters.misc:size", "size(undefined)", lambda u, o: ([u], {}))


@structural("C16", "undefined-constructor-only")
def ctor_only():
    """RenderContext depends on env.undefined only through calling it (constructor): no
    isinstance/attribute test on the configured class."""
    mod = load.get_module("liquid.context")
    cls = mod.classes["RenderContext"]
    obs = []
    uses = 0
    for fn in [s for s in cls.body if isinstance(s, (ast.FunctionDef, ast.AsyncFunctionDef))]:
        pm = flow.parents(fn)
        for n in ast.walk(fn):
            if isinstance(n, ast.Attribute) and n.attr == "undefined" and flow.dotted(n.value) in ("self.env", "context.env"):
                uses += 1
                par = pm.get(n)
                ok = isinstance(par, ast.Call) and par.func is n
                obs.append(flow.ob(f"{fn.name}@{n.lineno - fn.lineno}:env.undefined-is-only-called", ok, flow.dotted(par)[:100] if par is not None else ""))
    obs.append(flow.ob("uses-found", uses >= 2, f"{uses} uses of env.undefined in RenderContext"))
    return obs


# ---- a missing path never raises with the default Undefined: the item getter raises only the
# ---- lookup errors that RenderContext.get / get_async turn into Undefined

for _sfx in ("", "_async"):
    def _mk(sfx):
        @contract(CTX + ".get_item" + sfx, prop="C16", name=f"get_item{sfx}[raises-only-lookup-errors]")
        def gi(c):
            env = mk_env(c)
            ctx = mk_ctx(c, env)
            obj, key = c.any("obj"), c.any("key")
            c.call(obj, key, self_val=ctx)
            c.raises("KeyError", "IndexError", "TypeError")
            c.ensures("completes", lambda r: z3.BoolVal(True))
            c.replay("code", code=REPLAY_FIRST)
    _mk(_sfx)

# ---- statement: "the default undefined type never raises for a missing variable or path".
# ---- RenderContext.get / get_async turn every lookup error of the scope chain and of the item
# ---- getter (contract above: only KeyError / IndexError / TypeError) into env.undefined(...)

for _sfx in ("", "_async"):
    for _n in (1, 2, 3):
        def _mkget(sfx, n):
            @contract(CTX + ".get" + sfx, prop="C16", name=f"get{sfx}[path-length-{n}: a missing path resolves to env.undefined(...), never raises]")
            def g(c):
                c.model_int_str_limit()   # path segments are values of the render data, huge ints included
                env = mk_env(c, undefined=VClass("liquid.undefined", "Undefined"))  # the default undefined type
                ctx = mk_ctx(c, env)
                root = c.any("root")
                segs = [c.any(f"segment{i}") for i in range(1, n)]
                path = c.st.alloc(HList(items=[root, *segs]))

                def item(eng, st, a, k):
                    outs = [(st.fork(), VU(z3.Const(f"item_{len(st.log)}", U)))]
                    for cls in ("KeyError", "IndexError", "TypeError"):
                        outs.append((st.fork(), Raised(VExc(cls, (const(cls),)))))
                    st.log.append(("get_item",))
                    return outs

                c.summary(CTX + ".get_item" + sfx, item)
                c.call(path, self_val=ctx, token=NONE)
                c.raises()
                c.ensures("completes-with-a-value", lambda r: z3.BoolVal(True))
                c.assume_note("get_item raises only the lookup errors of its own contract; the default Undefined is constructed by its real __init__")
                c.replay("code", code=REPLAY_MISSING)
        _mkget(_sfx, _n)

# ---- statement: "With StrictUndefined, ... iterating ... a missing variable raises
# ---- UndefinedError" -- whatever limit/offset say; and the default type iterates as empty

LOOPX = "liquid.builtin.expressions.loop:LoopExpression"


def _loop_over_undefined(fname, S, limit_present, offset_kind):
    @contract(f"{LOOPX}.{fname}", prop="C16", name=f"LoopExpression.{fname}[iterable={S},limit={'yes' if limit_present else 'no'},offset={offset_kind}]")
    def le(c):
        std_globals(c)
        EXP = "liquid.expression:Expression"
        u = mk_undef(c, S, "_it")
        lim_v, off_v = c.any("limit_value"), c.any("offset_value")
        iterable = c.obj(EXP, "iterable_expr", __value__=u, token=NONE)
        limit = c.obj(EXP, "limit_expr", __value__=lim_v, token=NONE) if limit_present else NONE
        if offset_kind == "expression":
            offset = c.obj(EXP, "offset_expr", __value__=off_v, token=NONE)
        elif offset_kind == "continue":
            offset = c.obj("liquid.builtin.expressions.primitive:StringLiteral", "offset_literal", value=const("continue"), token=NONE)
        else:
            offset = NONE
        ev = lambda eng, st, a, k: [(st, st.deref(a[0]).fields["__value__"])]  # noqa: E731
        c.summary("liquid.expression:Expression.evaluate", ev)
        c.summary("liquid.expression:Expression.evaluate_async", ev)
        c.summary(LOOPX + "._slice", lambda eng, st, a, k: [(st, VTuple((NONE, const(0))))])
        ctx = mk_ctx(c)
        self = c.obj(LOOPX, "loop", iterable=iterable, limit=limit, offset=offset, identifier=c.str("ident"), reversed=c.bool("rev"), cols=NONE)
        c.call(ctx, self_val=self)
        if S == "Undefined":
            c.raises("LiquidTypeError", "LiquidValueError")   # only from a limit/offset value that is not an (acceptable) integer
            c.ensures("default-undefined-iterates-as-empty", lambda r: z3.BoolVal(True))
        else:
            c.raises("UndefinedError", "LiquidTypeError", "LiquidValueError")
            c.ensures("iterating-a-strict-undefined-never-completes", lambda r: z3.BoolVal(False))
        c.assume_note("limit/offset expressions evaluate to arbitrary values; _slice is summarised (its contract is C13's)")
        c.replay("code", code=REPLAY_LOOP_UNDEF)


for _f in ("evaluate", "evaluate_async"):
    for _S in ("StrictUndefined", "StrictDefaultUndefined", "Undefined"):
        for _lp in (False, True):
            for _ok in ("none", "expression", "continue"):
                _loop_over_undefined(_f, _S, _lp, _ok)

REPLAY_LOOP_UNDEF = r'''
def run(m):
    import asyncio
    from liquid import Environment, StrictUndefined
    from liquid.exceptions import UndefinedError
    bad = []
    for src in ["{% for x in nosuch %}a{% else %}e{% endfor %}", "{% for x in nosuch limit: 0 %}a{% else %}e{% endfor %}", "{% for x in nosuch.things limit: n offset: 1 reversed %}a{% else %}e{% endfor %}", "{% tablerow x in nosuch limit: 0 %}a{% endtablerow %}"]:
        for a in (False, True):
            t = Environment(undefined=StrictUndefined).from_string(src)
            try:
                out = asyncio.run(t.render_async(n=-1)) if a else t.render(n=-1)
                bad.append((src, a, out))
            except UndefinedError:
                pass
            d = Environment().from_string(src)
            out = asyncio.run(d.render_async(n=-1)) if a else d.render(n=-1)
            if "a" in out:
                bad.append((src, a, "default:" + out))
    return {"violated": bool(bad), "observed": bad[:3], "witness": "strict-undefined-iterated"}
'''

REPLAY_MISSING = r'''
def run(m):
    import asyncio
    from liquid import Environment
    t = Environment().from_string("[{{ xs[5] }}|{{ xs[-9] }}|{{ e.first }}|{{ e.last }}|{{ d.a.b }}|{{ n.x }}|{{ s[2] }}]")
    data = dict(xs=[1, 2], e=[], d={}, n=None, s="ab")
    out = []
    for f in (lambda: t.render(**data), lambda: asyncio.run(t.render_async(**data))):
        try:
            out.append(f())
        except BaseException as ex:
            out.append(type(ex).__name__)
    return {"violated": out != ["[||||||]", "[||||||]"], "observed": out, "witness": "missing-path-raises"}
'''

REPLAY_FIRST = r'''
def run(m):
    import asyncio
    from liquid import Environment
    t = Environment().from_string("[{{ d.first }}|{{ d.last }}|{{ d.size }}|{{ e.first }}]")
    out = []
    for f in (lambda: t.render(d={}, e=[]), lambda: asyncio.run(t.render_async(d={}, e=[]))):
        try:
            out.append(f())
        except BaseException as ex:
            out.append(type(ex).__name__)
    return {"violated": out != ["[||0|]", "[||0|]"], "observed": out}
'''


not_covered("C16", "every other place a value is consumed (covered only as far as those functions are kernels of C02/C25)", "FalsyStrictUndefined.__eq__ differs from Undefined.__eq__ by design; shown unobservable at the consumers _eq/_contains/default (they go through __liquid__() first)")

bounded("C16", "bounded/C16.py")

REPLAY = r'''
def run(m):
    from bounded.C16 import run as brun
    r = brun("quick", 0)
    v = r["violations"]
    return {"failing": bool(v), "witness": v[0]["witness"] if v else "strict-refines-default", "call": v[0]["source"] if v else "template sweep", "result": v[0]["got"] if v else "ok"}
'''


# ---- "With StrictUndefined, ... filtering a missing variable raises UndefinedError": many filters
# ---- and tags first meet a value in `is_undefined(value)`; for the strict types that guard itself
# ---- raises (Undefined is an ABC: isinstance reads value.__class__, which the strict
# ---- __getattribute__ refuses), and for the default type it answers True without raising

REPLAY_IS_UNDEFINED = r'''
def run(m):
    from liquid import Environment, StrictUndefined, StrictDefaultUndefined
    from liquid.exceptions import UndefinedError
    bad = []
    for U_ in (StrictUndefined, StrictDefaultUndefined):
        env = Environment(undefined=U_)
        for src in ("{{ nosuch | date: '%Y' }}", "{{ arr | where: 'k', nosuch }}", "{{ 1.5 | round: nosuch }}", "{% cycle nosuch: 'a', 'b' %}", "{{ arr | sum: nosuch }}"):
            try:
                out = env.from_string(src).render(arr=[{"k": 1}])
                bad.append((U_.__name__, src, out))
            except UndefinedError:
                pass
            except Exception as e:
                bad.append((U_.__name__, src, type(e).__name__))
    return {"violated": bool(bad), "observed": bad[:4], "witness": "strict-undefined-passes-an-is_undefined-guard-silently"}
'''

for _S in ("Undefined", "StrictUndefined", "StrictDefaultUndefined", "FalsyStrictUndefined"):
    def _mkisu(S):
        @contract(UMOD + ":is_undefined", prop="C16", name=f"is_undefined[{S}]")
        def isu(c):
            u = mk_undef(c, S, "_v")
            c.call(u)
            if S in ("Undefined", "FalsyStrictUndefined"):
                # (FalsyStrictUndefined allows __class__ by design: it is falsy in conditions and strict elsewhere)
                c.raises()
                c.ensures("recognised-as-undefined-without-raising", lambda r: r.truth())
            else:
                c.raises("UndefinedError")
                c.ensures("a-strict-undefined-never-passes-the-guard-silently", lambda r: z3.BoolVal(False))
            c.replay("code", code=REPLAY_IS_UNDEFINED)
    _mkisu(_S)


@contract(UMOD + ":is_undefined", prop="C16", name="is_undefined[any other value: False, never raises]")
def isu_other(c):
    v = c.any("value")
    c.requires(z3.Not(z3.And(U.is_ref(v.t), z3.Function("ref_isinstance$Undefined", U, B)(v.t))), "not an undefined")
    c.call(v)
    c.raises()
    c.ensures("false", lambda r: z3.Not(r.truth()))


# ---- array filters that take a VALUE argument (where, reject, find, find_index, has): a missing
# ---- variable passed as the value must give the default type's result whenever the strict run
# ---- returns (the strict __eq__ of FalsyStrictUndefined differs from Undefined.__eq__ by design, so
# ---- the filters may not let the undefined object reach an item comparison)

ARRF = "liquid.builtin.filters.array"

REPLAY_VALUE_ARG = r'''
def run(m):
    from liquid import Environment, FalsyStrictUndefined, StrictDefaultUndefined
    from liquid.exceptions import LiquidError
    bad = []
    data = {"arr": [{"t": "hat", "k": False}, {"t": "scarf"}, {"t": "cap", "k": None}]}
    for src in ("{{ arr | find: 'k', nosuch | map: 't' }}", "{% assign f = arr | find: 'k', nosuch %}{{ f.t }}", "{{ arr | where: 'k', nosuch | map: 't' | join: ',' }}", "{{ arr | reject: 'k', nosuch | map: 't' | join: ',' }}",
                "{{ arr | has: 'k', nosuch }}", "{{ arr | find_index: 'k', nosuch }}"):
        want = Environment().from_string(src).render(**data)
        for U_ in (FalsyStrictUndefined, StrictDefaultUndefined):
            try:
                got = Environment(undefined=U_).from_string(src).render(**data)
            except LiquidError:
                continue
            if got != want:
                bad.append((U_.__name__, src, got, want))
    return {"violated": bool(bad), "observed": bad[:4], "witness": "value-argument-undefined-compared-with-items"}
'''


def _value_arg_filter(fname):
    for S in STRICT:
        def _mk(S):
            @contract(f"{ARRF}:{fname}", prop="C16", name=f"{fname}(array, key, undefined)[{S} refines Undefined]")
            def vf(c):
                c.eager_generators = True
                std_globals(c)
                s_obj = mk_undef(c, S, "_s")
                d_obj = mk_undef(c, "Undefined", "_d")
                recs = [c.dict(None, k=const(False), t=const("hat")), c.dict(None, t=const("scarf")), c.dict(None, k=NONE, t=const("cap"))]

                def entry(eng, cc, func):
                    outs = []
                    for s, o in eng.run(func, cc.st, [s.alloc(HList(items=list(recs))) if False else cc.st.alloc(HList(items=list(recs))), const("k"), s_obj], {}):
                        if isinstance(o, Raised):
                            outs.append((s, o))
                            continue
                        for s2, o2 in eng.run(func, s, [s.alloc(HList(items=list(recs))), const("k"), d_obj], {}):
                            if isinstance(o2, Raised):
                                outs.append((s2, Ret(VTuple((o.val, VConst(("raised", o2.exc.cls)))))))
                            else:
                                outs.append((s2, Ret(VTuple((o.val, o2.val)))))
                    return outs
                c.entry = entry

                def norm(r, v):
                    items = r.engine.concrete_items(r.st, v) if isinstance(v, VRef) and isinstance(r.st.deref(v), HList) else None
                    return ("list", tuple(items)) if items is not None else ("value", v)

                def post(r):
                    a, b = r.value.items
                    if isinstance(b, VConst) and isinstance(b.py, tuple) and b.py[0] == "raised":
                        return z3.BoolVal(False)
                    na, nb = norm(r, a), norm(r, b)
                    if na == nb:
                        return z3.BoolVal(True)
                    if na[0] == "value" and nb[0] == "value":
                        try:
                            return box(a) == box(b)
                        except Unsupported:
                            return z3.BoolVal(False)
                    return z3.BoolVal(False)
                c.ensures("strict-result-equals-default-result", post)
                c.raises("UndefinedError", "LiquidTypeError", "FilterArgumentError")
                c.crosscheck(off=True)
                c.replay("code", code=REPLAY_VALUE_ARG)
        _mk(S)


for _f in ("where", "reject", "find", "find_index", "has"):
    if load.find("liquid.builtin.filters.array:" + _f) is not None:
        _value_arg_filter(_f)


# ---- `Template(source, undefined=...)`: two templates that differ only in their undefined type
# ---- never share an environment (the type is read at render time)
from contracts.C05 import implicit_env_param_obligation  # noqa: E402

REPLAY_TEMPLATE_UNDEFINED = r'''
def run(m):
    from liquid import Template, StrictUndefined
    from liquid.exceptions import UndefinedError
    a = Template("[{{ nosuch }}]")
    b = Template("[{{ nosuch }}]", undefined=StrictUndefined)
    out = []
    for t in (a, b):
        try:
            out.append(t.render())
        except UndefinedError:
            out.append("UndefinedError")
    return {"violated": out != ["[]", "UndefinedError"], "observed": out, "witness": "undefined-type-shared-between-implicit-environments"}
'''


@structural("C16", "implicit-environments-are-keyed-on-undefined")
def implicit_env_keyed_on_undefined():
    return implicit_env_param_obligation("undefined", REPLAY_TEMPLATE_UNDEFINED)


# ---- what an undefined prints as for diagnostics (repr) depends on its NAME only, for every class:
# ---- tags that key state on the repr of their arguments (unnamed cycle groups) then treat the same
# ---- missing name alike under the default and the strict types

for _S in ("Undefined",) + tuple(STRICT):
    def _mkrepr(S):
        res = load.find_method(UMOD, S, "__repr__")
        if res is None:
            return

        @contract(f"{res[0]}:{res[1]}.__repr__", prop="C16", name=f"{S}.__repr__[depends on the name only]")
        def rp(c):
            n = c.str("name")
            u1 = c.obj(f"{UMOD}:{S}", S + "_1", name=n, token=NONE, obj=VConst(("sentinel", UMOD, "UNDEFINED")), hint=c.any("hint1"), msg=c.str("msg1"))
            u2 = c.obj(f"{UMOD}:{S}", S + "_2", name=n, token=NONE, obj=VConst(("sentinel", UMOD, "UNDEFINED")), hint=c.any("hint2"), msg=c.str("msg2"))

            def entry(eng, cc, func):
                outs = []
                for s1, r1 in eng.run(func, cc.st, [], {}, self_val=u1):
                    if isinstance(r1, Raised):
                        outs.append((s1, r1))
                        continue
                    for s2, r2 in eng.run(func, s1, [], {}, self_val=u2):
                        outs.append((s2, r2 if isinstance(r2, Raised) else Ret(VTuple((r1.val, r2.val)))))
                return outs
            c.entry = entry
            c.ensures("same-name-same-repr", lambda r: r.value.items[0].t == r.value.items[1].t)
            c.raises()
            c.replay("code", code=REPLAY_REPR)
    _mkrepr(_S)

REPLAY_REPR = r'''
def run(m):
    from liquid import Environment, FalsyStrictUndefined
    src = "{% cycle 'a','b', x.m1 %}{% cycle 'a','b', x.m2 %}"
    a = Environment().from_string(src).render(x={})
    b = Environment(undefined=FalsyStrictUndefined).from_string(src).render(x={})
    return {"violated": a != b, "observed": [a, b], "witness": "cycle-groups-differ-under-a-strict-undefined"}
'''
