"""C23 -- caching loaders are transparent."""
import ast

import z3

from contracts.common import *  # noqa: F403
from pyvc import flow, load
from pyvc.contract import contract
from pyvc.run import bounded, not_covered, structural
from pyvc.state import *  # noqa: F403
from pyvc.u import *  # noqa: F403

MIXIN = "liquid.builtin.loaders.mixins:CachingLoaderMixin"


@contract(MIXIN + ".cache_key", prop="C23", name="cache_key[injective on (namespace, name)]")
def cache_key_injective(c):
    """two requests that get the same cache key are the same request (same namespace, same
    name; 'no namespace' is distinct from every namespace)"""
    nk = c.str("namespace_key")
    c.requires(z3.Length(nk.t) > 0, "namespacing configured")
    self = c.obj(MIXIN, "loader", namespace_key=nk)
    n1, n2 = c.str("name1"), c.str("name2")
    ns1, ns2 = c.any("ns1"), c.any("ns2")   # none = request without a namespace
    for ns in (ns1, ns2):
        c.requires(z3.Or(U.is_none(ns.t), U.is_str(ns.t)), "namespace is a string or absent")
    def entry(eng, cc, func):
        outs = []
        def args_for(ns, st):
            d = HDict(items={})
            ref = st.alloc(d)
            return ref
        base = cc.st
        for s1, has1 in eng.branch(base.fork(), U.is_str(ns1.t)):
            a1 = s1.alloc(HDict(items={}))
            if has1:
                for s1b, _o in eng.set_item(s1, a1, nk, VStr(U.s(ns1.t))):
                    s1 = s1b
            for s2, o1 in eng.run(func, s1, [n1, NONE, a1], {}, self_val=self):
                if isinstance(o1, Raised):
                    outs.append((s2, o1)); continue
                for s3, has2 in eng.branch(s2, U.is_str(ns2.t)):
                    a2 = s3.alloc(HDict(items={}))
                    if has2:
                        for s3b, _o in eng.set_item(s3, a2, nk, VStr(U.s(ns2.t))):
                            s3 = s3b
                    for s4, o2 in eng.run(func, s3, [n2, NONE, a2], {}, self_val=self):
                        outs.append((s4, o2 if isinstance(o2, Raised) else Ret(VTuple((o1.val, o2.val)))))
        return outs
    c.entry = entry
    c.ensures("equal-keys-imply-equal-requests", lambda r: z3.Implies(r.value.items[0].t == r.value.items[1].t, z3.And(n1.t == n2.t, ns1.t == ns2.t)))
    slash = z3.StringVal("/")
    no_slash = z3.And(z3.Not(z3.Contains(n1.t, slash)), z3.Not(z3.Contains(n2.t, slash)), z3.Implies(U.is_str(ns1.t), z3.Not(z3.Contains(U.s(ns1.t), slash))), z3.Implies(U.is_str(ns2.t), z3.Not(z3.Contains(U.s(ns2.t), slash))))
    c.ensures("equal-keys-imply-equal-requests(names-and-namespaces-without-slash)", lambda r: z3.Implies(z3.And(no_slash, r.value.items[0].t == r.value.items[1].t), z3.And(n1.t == n2.t, ns1.t == ns2.t)))
    c.raises()
    c.replay("code", code=REPLAY_KEY)


def _mk_check_cache(kind, sfx="", prop="C23"):
    @contract(MIXIN + "._check_cache" + sfx, prop=prop, name=f"_check_cache{sfx}[{kind}]")
    def cc_(c):
        key = c.str("cache_key")
        globs = c.any("globals")
        c.requires(z3.Or(U.is_none(globs.t), U.is_ref(globs.t)), "globals: mapping or None")
        cached = c.obj(TEMPLATE, "cached_template", globals=c.any("stale_globals"), name=c.str("cached_name"))
        fresh = c.obj(TEMPLATE, "fresh_template", globals=globs, name=c.str("fresh_name"))
        self = c.obj(MIXIN, "loader", auto_reload=c.bool("auto_reload"), cache=c.obj("liquid.utils.lru_cache:LRUCache", "cache"))
        calls = []
        def getitem(eng, st, args, kwargs):
            st.log.append(("cache-get", box(args[1])))
            if kind == "miss":
                return [eng.raised(st, "KeyError", "miss")]
            return [(st, cached)]
        def setitem(eng, st, args, kwargs):
            st.log.append(("cache-set", box(args[1]), args[2]))
            return [(st, NONE)]
        def uptodate(eng, st, args, kwargs):
            t, f = st.fork(), st.fork()
            t.log.append(("uptodate", True)); f.log.append(("uptodate", False))
            return [(t, VBool(z3.BoolVal(True))), (f, VBool(z3.BoolVal(False)))]
        def load_func(eng, st, args, kwargs):
            st.log.append(("load",))
            return [(st, fresh)]
        c.summary("liquid.utils.lru_cache:LRUCache.__getitem__", getitem)
        c.summary("liquid.utils.lru_cache:LRUCache.__setitem__", setitem)
        c.summary(TEMPLATE + ".is_up_to_date" + sfx, uptodate)
        lf = VFunc(ast.parse("def load_func(): pass").body[0], load.get_module("liquid.builtin.loaders.mixins"), None, "load_func", None)
        c.summary("liquid.builtin.loaders.mixins:load_func", load_func)
        c.call(c.any("env"), key, globs, lf, self_val=self)
        def loads(r):
            return len([e for e in r.st.log if e[0] == "load"])
        def stale(r):
            return any(e == ("uptodate", False) for e in r.st.log)
        ar = c.st.deref(self).fields["auto_reload"].t
        if kind == "miss":
            c.ensures("miss-loads-exactly-once-and-stores-under-the-key", lambda r: z3.BoolVal(loads(r) == 1 and r.value == fresh and [e for e in r.st.log if e[0] == "cache-set"] == [("cache-set", box(key), fresh)]))
        else:
            def post(r):
                reloaded = loads(r) == 1
                sets = [e for e in r.st.log if e[0] == "cache-set"]
                if stale(r):
                    # a changed source is picked up when auto-reload is on
                    return z3.BoolVal(reloaded and r.value == fresh and sets == [("cache-set", box(key), fresh)])
                return z3.BoolVal(not reloaded and r.value == cached and not sets)
            c.ensures("hit-returns-cached-unless-stale-then-reloads-once", post)
            c.ensures("stale-check-happens-iff-auto-reload", lambda r: z3.BoolVal(True) if not [e for e in r.st.log if e[0] == "uptodate"] else ar)
            def globals_apply(r):
                if r.value != cached:
                    return z3.BoolVal(True)
                g = r.st.deref(cached).fields["globals"]
                # the returned template carries the globals of THIS request (an absent/empty
                # mapping means: no request globals -- never an earlier request's)
                return z3.Or(box(g) == globs.t, z3.And(z3.Not(r.engine.truth(r.st, globs)), z3.BoolVal(isinstance(g, VRef) and isinstance(r.st.deref(g), HDict) and not r.st.deref(g).items and r.st.deref(g).present is None)))
            c.ensures("globals-passed-with-the-request-apply-to-the-returned-template", globals_apply)
        c.raises()
        c.replay("code", code=REPLAY_CACHE)


for _sfx in ("", "_async"):
    _mk_check_cache("miss", _sfx)
    _mk_check_cache("hit", _sfx)


@structural("C23", "wiring")
def wiring():
    """load/load_async call _check_cache* with (cache_key(name, context, kwargs), a loader of the
    SAME request (env, name, globals, context, **kwargs)); entries of either path are usable by
    the other: the built-in uptodate callables are synchronous (bool) on both paths."""
    obs = []
    mod = load.get_module("liquid.builtin.loaders.mixins")
    cls = mod.classes["CachingLoaderMixin"]
    for fname, chk, sup in (("load", "_check_cache", "load"), ("load_async", "_check_cache_async", "load_async")):
        fn = load._last_def(cls.body, fname)
        calls = [cl for cl in flow.calls(fn) if flow.call_name(cl) == chk]
        ok = False
        detail = ""
        if len(calls) == 1:
            cl = calls[0]
            a = [flow.dotted(x) for x in cl.args]
            detail = ", ".join(a)[:200]
            ok = len(a) == 4 and a[0] == "env" and a[1] == "cache_key" and a[2] == "globals" and a[3].replace("\n", "").replace(" ", "").startswith(f"partial(super().{sup},env,name,globals=globals,context=context,**kwargs)")
        keys = [flow.dotted(s.value) for s in fn.body if isinstance(s, ast.Assign) and flow.dotted(s.targets[0]) == "cache_key"]
        ok = ok and keys == ["self.cache_key(name, context, kwargs)"]
        obs.append(flow.ob(f"{fname}:checks-cache-under-cache_key-and-loads-the-same-request", ok, detail, replay_schema="code", replay_extra={"code": REPLAY_CACHE}))
        # ... and answers EVERY request through that check (freshness, globals of this request): no
        # other return, in particular no shortcut that hands out a cache entry directly
        rets = [r_ for r_ in ast.walk(fn) if isinstance(r_, ast.Return)]
        def _is_check(v):
            v = v.value if isinstance(v, ast.Await) else v
            return isinstance(v, ast.Call) and flow.call_name(v) == chk
        direct = [ast.unparse(x)[:60] for x in ast.walk(fn) if isinstance(x, ast.Subscript) and flow.dotted(x.value) == "self.cache"] + [ast.unparse(x)[:60] for x in flow.calls(fn) if flow.dotted(x.func).startswith("self.cache.")]
        obs.append(flow.ob(f"{fname}:every-answer-comes-from-the-cache-check", bool(rets) and all(r_.value is not None and _is_check(r_.value) for r_ in rets) and not direct, f"returns: {[ast.unparse(r_)[:50] for r_ in rets]}; direct cache reads: {direct}", replay_schema="code", replay_extra={"code": REPLAY_CACHE}))
    # the environment hands the loader the MERGED globals (environment globals + request globals): a
    # cache hit assigns them to the cached template, so raw request globals would wipe the environment's
    envc = load.get_module("liquid.environment").classes["Environment"]
    for fname, lname in (("get_template", "load"), ("get_template_async", "load_async")):
        fn = load._last_def(envc.body, fname)
        lcalls = [cl for cl in flow.calls(fn) if flow.dotted(cl.func) == f"self.loader.{lname}"]
        gl = [flow.dotted(flow.kwarg(cl, "globals")) if flow.kwarg(cl, "globals") is not None else "<missing>" for cl in lcalls]
        obs.append(flow.ob(f"Environment.{fname}:the-loader-gets-the-merged-globals", bool(lcalls) and all(g == "self.make_globals(globals)" for g in gl), str(gl), replay_schema="code", replay_extra={"code": REPLAY_ENV_GLOBALS}))
    fs = load.get_module("liquid.builtin.loaders.file_system_loader").classes["FileSystemLoader"]
    for fname in ("get_source", "get_source_async"):
        fn = load._last_def(fs.body, fname)
        ups = [flow.dotted(n) for n in ast.walk(fn) if isinstance(n, ast.Call) and flow.dotted(n.func) == "partial"]
        ok = bool(ups) and all("self._uptodate," in u and "_uptodate_async" not in u for u in ups)
        obs.append(flow.ob(f"FileSystemLoader.{fname}:uptodate-is-usable-from-sync-and-async-requests", ok, "; ".join(ups)[:200], replay_schema="code", replay_extra={"code": REPLAY_CACHE}))
    return obs


FSL = "liquid.builtin.loaders.file_system_loader:FileSystemLoader"

for _sfx in ("", "_async"):
    def _mku(sfx):
        @contract(FSL + "._uptodate" + sfx, prop="C23", name=f"FileSystemLoader._uptodate{sfx}")
        def upd(c):
            """a cached template is current exactly when the file's modification time EQUALS the one
            recorded at load time -- an older file (restored backup, mv, rsync -t) is a change too"""
            path = VOpaque(z3.Const("source_path", U), "path")
            mtime = c.any("recorded_mtime")
            c.requires(z3.Or(U.is_int(mtime.t), U.is_flt(mtime.t)), "a modification time")

            def entry(eng, cc, func):
                eng.mk_path(cc.st, path.t)
                return eng.run(func, cc.st, [path, mtime], {})
            c.entry = entry

            def post(r):
                t = z3.simplify(r.truth()) if hasattr(r, "truth") else None
                # the verdict is an equality test between the recorded time and the file's current time
                def is_eq_with_recorded(e):
                    if z3.is_eq(e):
                        return any(z3.eq(ch, mtime.t) or (z3.is_app(ch) and any(z3.eq(x, mtime.t) for x in ch.children())) for ch in e.children())
                    return False
                def walk(e):
                    if is_eq_with_recorded(e):
                        return True
                    if z3.is_app(e) and e.decl().name() in ("if", "and", "or", "not") :
                        return any(walk(ch) for ch in e.children())
                    return False
                has_order = any(n in str(t) for n in ("<=", ">=", "flt_lt", "flt_le", "<", ">")) if t is not None else True
                return z3.BoolVal(t is not None and walk(t) and not has_order)
            c.ensures("up-to-date-iff-the-modification-time-equals-the-recorded-one", post)
            c.raises("OSError")
            c.assume_note("Path.stat() is uninterpreted (may raise OSError); the verdict must be an equality between its st_mtime and the recorded value, not an ordering")
            c.replay("code", code=REPLAY_MTIME)
    _mku(_sfx)

REPLAY_MTIME = r'''
def run(m):
    import os, tempfile, time
    from liquid import CachingFileSystemLoader, Environment
    with tempfile.TemporaryDirectory() as d:
        p = os.path.join(d, "t.liquid")
        open(p, "w").write("new")
        env = Environment(loader=CachingFileSystemLoader(d, auto_reload=True))
        first = env.get_template("t.liquid").render()
        open(p, "w").write("old")
        past = time.time() - 10000
        os.utime(p, (past, past))
        second = env.get_template("t.liquid").render()
    return {"violated": [first, second] != ["new", "old"], "observed": [first, second]}
'''


not_covered("C23", "concurrent async tasks racing on one key (both load; last write wins)", "the LRU map itself (C24)", "loaders other than the built-in ones")

bounded("C23", "bounded/C23.py")

REPLAY_KEY = r'''
def run(m):
    from liquid import CachingDictLoader, Environment
    n1, n2, ns1, ns2 = m.get("name1"), m.get("name2"), m.get("ns1"), m.get("ns2")
    loader = CachingDictLoader({}, namespace_key="ns")
    k1 = loader.cache_key(n1, None, {} if ns1 is None else {"ns": ns1})
    k2 = loader.cache_key(n2, None, {} if ns2 is None else {"ns": ns2})
    failing = k1 == k2 and (n1, ns1) != (n2, ns2)
    has_slash = any("/" in (x or "") for x in (n1, n2, ns1, ns2))
    w = ("slash-collision" if has_slash else "namespace-ignored") if failing else "none"
    return {"failing": failing, "witness": w, "call": f"cache_key({n1!r}, ns={ns1!r}) vs cache_key({n2!r}, ns={ns2!r})", "result": f"{k1!r} == {k2!r}"}
'''

REPLAY_CACHE = r'''
def run(m):
    from bounded.C23 import run as brun
    r = brun("quick", 0)
    v = r["violations"]
    return {"failing": bool(v), "witness": v[0]["witness"] if v else "cache", "call": v[0]["source"] if v else "request sequences", "result": v[0]["got"] if v else "ok"}
'''


REPLAY_ENV_GLOBALS = r'''
def run(m):
    import asyncio
    from liquid import Environment, CachingDictLoader
    bad = []
    for a in (False, True):
        env = Environment(loader=CachingDictLoader({"t": "[{{ site }}|{{ x }}]"}), globals={"site": "S"})
        outs = []
        for i in range(3):
            t = asyncio.run(env.get_template_async("t", globals={"x": i})) if a else env.get_template("t", globals={"x": i})
            outs.append(t.render())
        if outs != ["[S|0]", "[S|1]", "[S|2]"]:
            bad.append((a, outs))
    return {"violated": bool(bad), "observed": bad, "witness": "environment-globals-lost-on-a-cache-hit"}
'''


# ---- "namespaces are never substituted": a namespace given with the request (keyword argument)
# ---- takes priority over one found in the render context, and either one prefixes the key

@contract(MIXIN + ".cache_key", prop="C23", name="cache_key[request argument before context variable]")
def cache_key_priority(c):
    nk = c.str("namespace_key")
    c.requires(z3.Length(nk.t) > 0, "namespacing configured")
    self = c.obj(MIXIN, "loader", namespace_key=nk)
    name = c.str("name")
    arg_ns, ctx_ns = c.str("argument_namespace"), c.str("context_namespace")
    has_arg, has_ctx = c.bool("argument_given"), c.bool("context_has_it")

    def entry(eng, cc, func):
        outs = []
        for s1, ha in eng.branch(cc.st, has_arg.t):
            args = s1.alloc(HDict(items={}))
            if ha:
                for s1b, _o in eng.set_item(s1, args, nk, arg_ns):
                    s1 = s1b
            for s2, hc in eng.branch(s1, has_ctx.t):
                g = s2.alloc(HDict(items={}))
                if hc:
                    for s2b, _o in eng.set_item(s2, g, nk, ctx_ns):
                        s2 = s2b
                ctx = s2.alloc(HObj(("liquid.context", "RenderContext"), {"globals": g}, {}, "context"))
                outs.extend(eng.run(func, s2, [name, ctx, args], {}, self_val=self))
        return outs
    c.entry = entry
    want = z3.If(has_arg.t, z3.Concat(arg_ns.t, z3.StringVal("/"), name.t), z3.If(has_ctx.t, z3.Concat(ctx_ns.t, z3.StringVal("/"), name.t), name.t))
    c.ensures("argument-namespace-first-then-context-namespace-then-the-bare-name", lambda r: r.value.t == want)
    c.raises()
    c.replay("code", code=REPLAY_KEY)
