"""C01 -- synchronous and asynchronous APIs behave identically.

One relational obligation per (f, f_async) pair found mechanically in liquid/**: the async
body, run as a single task, is the sync body (await-erasure congruence, or congruence modulo
the justified rewrite rules of pyvc/rel.py).  Callees are paired by name (m_async <-> m): that
is the callee's own obligation, i.e. the induction hypothesis (partial correctness)."""
import ast
import copy

from pyvc import flow, load, rel
from pyvc.run import bounded, not_covered, structural

from contracts.twins import pair_obligations


@structural("C01", "pairs")
def pairs():
    return pair_obligations()


@structural("C01", "preconditions")
def preconditions():
    """the structural side of the rewrite rules' preconditions"""
    obs = []
    # P1: nothing in liquid/** defines filter_async or __getitem_async__
    defs = []
    for m in load.all_modules():
        mod = load.get_module(m)
        for n in ast.walk(mod.tree):
            if isinstance(n, (ast.FunctionDef, ast.AsyncFunctionDef)) and n.name in ("filter_async", "__getitem_async__"):
                defs.append(f"{m}:{n.name}")
            if isinstance(n, ast.Attribute) and isinstance(n.ctx, ast.Store) and n.attr in ("filter_async", "__getitem_async__"):
                if m != "liquid.context":
                    defs.append(f"{m}:store {n.attr}")
    obs.append(flow.ob("P1:no-builtin-defines-filter_async-or-__getitem_async__", not defs, str(defs)))
    # P2: every store into tag_namespace['macros'] stores a Macro(...)
    stores = []
    for m in load.all_modules():
        mod = load.get_module(m)
        for n in ast.walk(mod.tree):
            if isinstance(n, ast.Assign) and any(isinstance(t, ast.Subscript) and "tag_namespace['macros']" in ast.unparse(t) for t in n.targets):
                stores.append((m, ast.unparse(n.value)[:40]))
    obs.append(flow.ob("P2:macros-namespace-holds-Macro-objects", bool(stores) and all(v.startswith("Macro(") for _m, v in stores), str(stores)))
    # R7: is_undefined is isinstance(obj, Undefined)
    u = load.get_module("liquid.undefined").funcs["is_undefined"]
    body = [s for s in u.body if not (isinstance(s, ast.Expr) and isinstance(s.value, ast.Constant))]
    obs.append(flow.ob("R7:is_undefined-is-isinstance-Undefined", len(body) == 1 and ast.unparse(body[0]) == "return isinstance(obj, Undefined)", ast.unparse(body[0]) if body else ""))
    # L-strlit: StringLiteral.evaluate returns self.value or Markup(self.value)
    res = load.find_method("liquid.builtin.expressions.primitive", "StringLiteral", "evaluate")
    rets = [ast.unparse(r.value) for r in ast.walk(res[2]) if isinstance(r, ast.Return)]
    obs.append(flow.ob("L-strlit:StringLiteral.evaluate-returns-value-or-Markup(value)", sorted(rets) == ["Markup(self.value)", "self.value"], str(rets)))
    # A-elsif: shapes
    cb = load.get_module("liquid.ast").classes["ConditionalBlockNode"]
    for fname in ("render_to_output", "render_to_output_async"):
        fn = load._last_def(cb.body, fname)
        src = ast.unparse(rel.erase(fn))
        ok = "if self.expression.evaluate(context):\n        return self.block.render(context, buffer)\n    return 0" in src
        obs.append(flow.ob(f"A-elsif:ConditionalBlockNode.{fname}-is-`if cond: render block`", ok, src[-200:]))
    nd = load.get_module("liquid.ast").classes["Node"]
    for fname in ("render", "render_async"):
        fn = load._last_def(nd.body, fname)
        src = ast.unparse(rel.erase(fn))
        ok = "if context.disabled_tags:\n        self.raise_for_disabled(context.disabled_tags)\n    return self.render_to_output(context, buffer)" in src
        obs.append(flow.ob(f"A-elsif:Node.{fname}-is-disabled-check-then-render_to_output", ok, src[-200:]))
    # R3: consumers of children()/children_async() only iterate the result
    bad = []
    for m in load.all_modules():
        mod = load.get_module(m)
        pm = flow.parents(mod.tree)
        for n in ast.walk(mod.tree):
            if isinstance(n, ast.Call) and isinstance(n.func, ast.Attribute) and n.func.attr in ("children", "children_async") and (n.args or n.keywords):
                par = pm.get(n)
                if isinstance(par, ast.Await):
                    par = pm.get(par)
                ok = isinstance(par, (ast.For, ast.AsyncFor, ast.comprehension, ast.YieldFrom, ast.Return)) or (isinstance(par, ast.Call) and ast.unparse(par.func) in ("list", "tuple", "iter"))
                if isinstance(par, ast.Expr):
                    ok = False
                if not ok and not (isinstance(par, ast.Call) and isinstance(par.func, ast.Attribute) and par.func.attr in ("extend",)):
                    bad.append(f"{m}@{n.lineno}:{type(par).__name__}")
    obs.append(flow.ob("R3:children-results-are-only-iterated", not bad, str(bad)))
    return obs


not_covered("C01", "true concurrency between tasks (single-task assumption)", "user-defined async drops/filters/loaders (excluded by precondition P1)", "termination (partial correctness only)",
            "uptodate callables are assumed to return bool on the sync path and bool/awaitable-bool on the async path (mixed use is C23)")

bounded("C01", "bounded/C01.py")

REPLAY = r'''
def run(m):
    from bounded.C01 import run as brun
    r = brun("quick", 0)
    v = r["violations"]
    return {"failing": bool(v), "witness": v[0]["witness"] if v else "sync==async", "call": v[0]["source"] if v else "sync/async sweep", "result": v[0]["got"] if v else "ok"}
'''
