"""Shared builders for contracts over RenderContext / Environment objects."""
import ast

import z3

from pyvc.lib import ContextManagerCall
from pyvc.state import *  # noqa: F403
from pyvc.u import *  # noqa: F403

CTX = "liquid.context:RenderContext"
ENV = "liquid.environment:Environment"
TEMPLATE = "liquid.template:BoundTemplate"
CHAIN = "liquid.utils.chain_map:ReadOnlyChainMap"
LSIO = "liquid.output:LimitedStringIO"


def optint(c, name):
    """Optional[int] configuration value"""
    v = c.any(name)
    c.requires(z3.Or(U.is_none(v.t), U.is_int(v.t)), f"{name}: Optional[int]")
    return v


def mk_env(c, **over):
    f = dict(
        loop_iteration_limit=optint(c, "loop_iteration_limit"),
        local_namespace_limit=optint(c, "local_namespace_limit"),
        output_stream_limit=optint(c, "output_stream_limit"),
        context_depth_limit=c.int("context_depth_limit"),
        block_nesting_limit=c.int("block_nesting_limit"),
        autoescape=c.bool("autoescape"),
        string_sequences=c.bool("string_sequences"),
        string_first_and_last=c.bool("string_first_and_last"),
        strict_filters=c.bool("strict_filters"),
    )
    f.update(over)
    return c.obj(ENV, "env", **f)


def mk_chain(c, maps):
    return c.obj(CHAIN, "scope", _maps=c.st.alloc(HDeque(list(maps))))


def mk_ctx(c, env=None, **over):
    env = env or mk_env(c)
    locals_ = over.pop("locals", None) or c.dict("locals")
    globals_ = over.pop("globals", None) or c.dict("globals")
    counters = over.pop("counters", None) or c.dict("counters")
    builtin = c.dict("builtin")
    template = over.pop("template", None) or c.obj(TEMPLATE, "template", env=env)
    loops = over.pop("loops", None) or c.list("loops")
    f = dict(
        env=env, template=template, locals=locals_, globals=globals_, counters=counters,
        scope=mk_chain(c, over.pop("maps", None) or [locals_, globals_, builtin, counters]),
        tag_namespace=c.dict(None, cycles=c.dict('cycles'), ifchanged=c.str('ifchanged_state'), stopindex=c.dict('stopindex'), extends=c.dict('extends_ns'), macros=c.dict('macros')), loops=loops, disabled_tags=c.list("disabled_tags"),
        autoescape=c.bool("ctx_autoescape"), _copy_depth=c.int("copy_depth"), parent_context=NONE,
        loop_iteration_carry=c.int("loop_iteration_carry"), local_namespace_size_carry=c.int("local_namespace_size_carry"),
    )
    f.update(over)
    ctx = c.obj(CTX, "context", **f)
    return ctx


def run_with(eng, st, cm_results, body_src="__probe__()"):
    """Execute `with <cm>: __probe__()` for the ContextManagerCall(s) in cm_results."""
    body = ast.parse(body_src).body
    out = []
    for s, cm in cm_results:
        if isinstance(cm, Raised):
            out.append((s, cm))
            continue
        assert isinstance(cm, ContextManagerCall), cm
        for s2, o in eng.inline_contextmanager(s, cm, None, body):
            out.append((s2, o if isinstance(o, Raised) else Ret(NONE)))
    return out


def std_globals(c):
    """module-level values computed at import time, given their documented ranges"""
    m = c.int("MAX_STR_INT")
    c.requires(z3.And(z3.Or(m.t == 0, m.t >= 640), m.t < 2**31), "liquid.limits.MAX_STR_INT is 0 (unlimited) or >= 640 (sys.get_int_max_str_digits(): a C int)")
    c.override_global("liquid.limits", "MAX_STR_INT", m)
    c.pools["MAX_STR_INT"] = [4300]  # CPython's default int-to-str digit limit (the value the native side runs with)


# ---- ReadOnlyChainMap lookup: shared by C14 (innermost binding) and C27 (with/macro arguments
# ---- shadow outer names, also when the bound value is nil)

def lookup_spec(dicts, k, i=0):
    """value of the first map containing k; None (python) if no map contains it"""
    if i == len(dicts):
        return None
    rest = lookup_spec(dicts, k, i + 1)
    here = z3.Select(dicts[i].val, k)
    return here if rest is None else z3.If(z3.Select(dicts[i].present, k), here, rest)


def chain_getitem_contract(prop, n, replay_code):
    from pyvc.contract import contract

    @contract(CHAIN + ".__getitem__", prop=prop, name=f"ReadOnlyChainMap.__getitem__[chain-length-{n}]")
    def chain_getitem(c):
        maps = [c.dict(f"m{i}") for i in range(n)]
        hs = [c.st.deref(m).copy() for m in maps]
        self = mk_chain(c, maps)
        k = c.str("key")
        kb = U.str(k.t)
        c.call(k, self_val=self)
        anyp = z3.Or(*[z3.Select(h.present, kb) for h in hs])
        c.ensures("returns-innermost-binding", lambda r: z3.And(anyp, box(r.value) == lookup_spec(hs, kb)))
        c.raises("KeyError")
        c.ensures_exc("keyerror-iff-unbound-everywhere", lambda r: z3.Not(anyp))
        c.cover("innermost-binding-is-nil-and-an-outer-map-binds-the-key-too", lambda r: z3.And(z3.Select(hs[0].present, kb), z3.Select(hs[0].val, kb) == U.none, *( [z3.Select(hs[1].present, kb), z3.Select(hs[1].val, kb) != U.none] if n > 1 else [])) if r.exc is None else None)
        c.assume_note(f"BOUNDED in the chain length only: chain of {n} maps, each map arbitrary (the lookup loop is unrolled over the concrete deque)")
        c.replay("code", code=replay_code())
    return chain_getitem


# ---- Parser.parse_block: the block-nesting guard aborts, in every tolerance mode.  Shared by
# ---- C03 (the enclosing tag suppresses the error in lax/warn mode and parsing goes on), C08 (a
# ---- limit only aborts) and C09 (the parser's recursion is cut at the limit)

def parse_block_guard_contract(prop, replay_code):
    from pyvc.contract import contract

    for mode in ("STRICT", "WARN", "LAX"):
        def _mk(mode):
            @contract("liquid.parser:Parser.parse_block", prop=prop, name=f"parse_block[over the nesting limit, mode={mode}]")
            def pb(c):
                depth, limit = c.int("block_depth"), c.int("block_nesting_limit")
                c.requires(z3.And(depth.t >= 0, depth.t + 1 > limit.t), "this block would exceed the nesting limit")
                env = c.obj(ENV, "env", mode=VConst(("enum", "Mode", mode)), block_nesting_limit=limit, tags=c.st.alloc(HDict(items={k: c.obj("liquid.tag:Tag", "tag_" + k) for k in ("illegal", "content", "output")})))
                # a stream at its end: whatever the guard does, the token loop that follows it is empty
                eof = c.obj("liquid.token:Token", "eof", kind=const("end of expression"), value=const("end of expression"), start_index=const(-1), source=const(""))
                stream = c.obj("liquid.stream:TokenStream", "stream", tokens=c.st.alloc(HList(items=[])), pos=const(0), block_depth=depth, eof=eof)
                parser = c.obj("liquid.parser:Parser", "parser", env=env)
                c.summary("liquid.exceptions:lookup_warning", lambda eng, st, a, k: [(st, VConst(("warning-class",)))])
                c.call(stream, VConst(_frozen(())), self_val=parser)
                c.raises("BlockNestingError")
                c.ensures("a-block-over-the-nesting-limit-is-never-parsed(the-guard-aborts-in-every-mode)", lambda r: z3.BoolVal(False))
                # the counter is the measure that bounds the parser's recursion: a refused block must not
                # LOWER it (in lax/warn mode parsing goes on after the error is reported)
                c.ensures_exc("a-refused-block-does-not-lower-the-depth-counter", lambda r: r.st.deref(stream).fields["block_depth"].t >= depth.t)
                c.replay("code", code=replay_code())
        _mk(mode)

    @contract("liquid.parser:Parser.parse_block", prop=prop, name="parse_block[within the nesting limit: the depth counter is restored when the block ends]")
    def pb_ok(c):
        depth, limit = c.int("block_depth"), c.int("block_nesting_limit")
        c.requires(z3.And(depth.t >= 0, depth.t + 1 <= limit.t), "this block is within the nesting limit")
        env = c.obj(ENV, "env", mode=VConst(("enum", "Mode", "STRICT")), block_nesting_limit=limit, tags=c.st.alloc(HDict(items={k: c.obj("liquid.tag:Tag", "tag_" + k) for k in ("illegal", "content", "output")})))
        eof = c.obj("liquid.token:Token", "eof", kind=const("end of expression"), value=const("end of expression"), start_index=const(-1), source=const(""))
        stream = c.obj("liquid.stream:TokenStream", "stream", tokens=c.st.alloc(HList(items=[])), pos=const(0), block_depth=depth, eof=eof)
        parser = c.obj("liquid.parser:Parser", "parser", env=env)
        c.call(stream, VConst(_frozen(())), self_val=parser)
        c.raises()
        c.ensures("depth-counter-restored", lambda r: r.st.deref(stream).fields["block_depth"].t == depth.t)
        c.assume_note("a stream at its end (the token loop is the obligation 'loops end at EOF'); nested blocks restore the counter by the same contract")
        c.replay("code", code=replay_code())


def _frozen(data):
    from pyvc.expr import _Frozen
    return _Frozen(data)


# ---- RenderNode.render_to_output*: one contract, two readings -- C15 (the partial's context is an
# ---- isolated copy: arguments + global data, include disabled; the caller's context is not
# ---- written) and C06 (the copy carries the caller's iteration product; a bound array multiplies
# ---- it by its length, within the limit)

RENDERNODE = "liquid.builtin.tags.render_tag:RenderNode"


def render_node_contract(prop, sfx, bound, replay_code):
    """bound: 'none' | 'scalar' | 'array' (the `for`/`with` variable of the render tag)"""
    from pyvc.contract import contract
    from pyvc.exec import Obligation

    @contract(RENDERNODE + ".render_to_output" + sfx, prop=prop, name=f"RenderNode.render_to_output{sfx}[bound variable: {bound}]")
    def rn(c):
        EXP = "liquid.expression:Expression"
        env = mk_env(c, undefined=VClass("liquid.undefined", "Undefined"))
        caller = mk_ctx(c, env)
        tmpl = c.obj(TEMPLATE, "partial_template", name=c.str("partial_name"), env=env)
        name_expr = c.obj("liquid.builtin.expressions.primitive:StringLiteral", "name", value=c.str("name_text"), token=NONE)
        argv = c.any("argument_value")
        arg = c.obj("liquid.builtin.expressions.arguments:KeywordArgument", "kwarg", name=c.str("argument_name"), value=c.obj(EXP, "argument_expr", __value__=argv, token=NONE), token=NONE)
        items = [c.any("item0"), c.any("item1")]
        if bound == "array":
            val = c.st.alloc(HList(items=list(items)))
        elif bound == "scalar":
            val = c.any("bound_value")
            c.requires(z3.Not(U.is_ref(val.t)), "a bound value that is not array-like")
        else:
            val = None
        var = c.obj(EXP, "bound_expr", __value__=val, token=NONE) if val is not None else NONE
        self = c.obj(RENDERNODE, "render", name=name_expr, var=var, loop=VBool(z3.BoolVal(bound == "array")), alias=c.str("alias"), args=c.st.alloc(HList(items=[arg])), token=NONE, tag=const("render"))
        c.requires(z3.Length(c.st.deref(self).fields["alias"].t) > 0, "an alias is given (otherwise the key is derived from the template name)")
        partial_ctx = mk_ctx(c, env, locals=c.dict("partial_locals"), counters=c.dict("partial_counters"), loops=c.st.alloc(HList(items=[])), loop_iteration_carry=c.int("partial_carry"))
        def evx(eng, st, a, k):
            st.log.append(("evaluate", a[0], a[1] if len(a) > 1 else k.get("context")))
            return [(st, st.deref(a[0]).fields["__value__"])]
        c.summary(EXP + ".evaluate", evx)
        c.summary(EXP + ".evaluate_async", evx)
        c.summary(ENV + ".get_template" + sfx, lambda eng, st, a, k: [(st, tmpl)])

        def copy(eng, st, a, k):
            st.log.append(("copy", a[0], a[1], dict(k)))
            return [(st, partial_ctx)]
        c.summary(CTX + ".copy", copy)
        Lm = c.st.deref(env).fields["loop_iteration_limit"].t
        limited = U.is_int(Lm)
        carry = c.st.deref(partial_ctx).fields["loop_iteration_carry"].t

        def measure(st):
            f = st.deref(partial_ctx).fields
            acc = f["loop_iteration_carry"].t
            for x in st.deref(f["loops"]).items:
                acc = acc * st.deref(x).fields["length"].t
            return acc

        def render_with_context(eng, st, a, k):
            st.log.append(("render", a[0], a[1], dict(k)))
            if bound == "array":
                eng.obligations.append(Obligation("callee-pre", "partial-render:iteration-product-is-the-carried-product-times-the-array-length-and-within-the-limit", list(st.pc),
                                                  z3.And(measure(st) == carry * 2, z3.Implies(limited, carry * 2 <= U.i(Lm))), "RenderNode bound array"))
            return [(st, VInt(z3.Int(f"chars_{len(st.log)}")))]
        c.summary(TEMPLATE + ".render_with_context" + sfx, render_with_context)
        caller_addrs = {caller.addr} | {v.addr for v in c.st.deref(caller).fields.values() if isinstance(v, VRef)}
        c.call(caller, c.obj("io:StringIO", "buffer", __text__=c.str("out")), self_val=self)
        if bound == "array":
            c.unroll_iterators = 3   # the ForLoop iterator over a 2-item spine is exhausted after 2 steps (exact)

        def post(r):
            copies = [e for e in r.st.log if e[0] == "copy"]
            renders = [e for e in r.st.log if e[0] == "render"]
            if len(copies) != 1 or copies[0][1] != caller:
                return z3.BoolVal(False)
            kw = copies[0][3]
            ns = copies[0][2]
            nh = r.st.deref(ns) if isinstance(ns, VRef) else None
            ok_ns = isinstance(nh, HObj) and nh.cls[1] == "ReadOnlyChainMap"
            dt = kw.get("disabled_tags")
            dts = r.engine.concrete_items(r.st, dt) if dt is not None else None
            ok_dis = dts is not None and any(concrete(x) == (True, "include") for x in dts)
            ok_carry = concrete(kw.get("carry_loop_iterations", const(False))) == (True, True)
            ok_iso = "block_scope" not in kw or concrete(kw["block_scope"]) == (True, False)
            ok_tmpl = kw.get("template") == tmpl
            n_want = 2 if bound == "array" else 1
            ok_renders = len(renders) == n_want and all(e[1] == tmpl and e[2] == partial_ctx and concrete(e[3].get("partial")) == (True, True) and concrete(e[3].get("block_scope")) == (True, True) for e in renders)
            writes = [e for e in r.st.log if e[0] in ("setitem", "delitem", "setattr") and e[1] in caller_addrs]
            return z3.BoolVal(bool(ok_ns and ok_dis and ok_carry and ok_iso and ok_tmpl and ok_renders and not writes))
        c.ensures("the-partial-renders-in-an-isolated-copy(arguments+globals,include-disabled,product-carried)-and-the-caller-is-not-written", post)

        def post_eval(r):
            evals = [e for e in r.st.log if e[0] == "evaluate"]
            want = 1 + (1 if val is not None else 0)   # the keyword argument and the bound variable (the name is a literal)
            return z3.BoolVal(len(evals) >= want and all(e[2] == caller for e in evals))
        c.ensures("the-tags-own-expressions(bound-variable,arguments)-are-evaluated-in-the-callers-context", post_eval)
        c.ensures("the-iteration-product-of-the-partial-context-is-restored", lambda r: measure(r.st) == carry)
        c.raises("LoopIterationLimitError", "TemplateNotFoundError", "ContextDepthError")
        if bound == "array":
            c.ensures_exc("limit-error-exactly-when-the-array-would-exceed-the-limit", lambda r: z3.Implies(z3.BoolVal(r.exc.cls == "LoopIterationLimitError"), z3.And(limited, carry * 2 > U.i(Lm))))
            c.assume_note("BOUNDED in the array length only: a bound array with a spine of 2 arbitrary items")
        c.assume_note("context.copy is summarised here (its isolation and carry contracts are C15's and C06's own copy contracts); the partial's body is an arbitrary callee")
        c.replay("code", code=replay_code())
    return rn


# ---- IncludeNode.render_to_output*: the included template renders in the CALLER's context (C14:
# ---- include shares the caller's scope, arguments and the bound variable are block-scoped around
# ---- it) and a bound array multiplies the iteration product (C06)

INCLUDENODE = "liquid.builtin.tags.include_tag:IncludeNode"


def include_node_contract(prop, sfx, bound, replay_code):
    from pyvc.contract import contract
    from pyvc.exec import Obligation

    @contract(INCLUDENODE + ".render_to_output" + sfx, prop=prop, name=f"IncludeNode.render_to_output{sfx}[bound variable: {bound}]")
    def inc(c):
        EXP = "liquid.expression:Expression"
        env = mk_env(c)
        c.requires(c.st.deref(env).fields["context_depth_limit"].t >= 8, "context depth limit not reached")
        caller = mk_ctx(c, env, loops=c.st.alloc(HList(items=[])))
        tmpl = c.obj(TEMPLATE, "partial_template", name=c.str("partial_name"), env=env)
        name_expr = c.obj(EXP, "name_expr", __value__=c.str("name_text"), token=NONE)
        argv = c.any("argument_value")
        argname = c.str("argument_name")
        arg = c.obj("liquid.builtin.expressions.arguments:KeywordArgument", "kwarg", name=argname, value=c.obj(EXP, "argument_expr", __value__=argv, token=NONE), token=NONE)
        items = [c.any("item0"), c.any("item1")]
        if bound == "array":
            val = c.st.alloc(HList(items=list(items)))
        elif bound == "scalar":
            val = c.any("bound_value")
            c.requires(z3.Not(U.is_ref(val.t)), "a bound value that is not array-like")
        else:
            val = None
        var = c.obj(EXP, "bound_expr", __value__=val, token=NONE) if val is not None else NONE
        alias = c.str("alias")
        c.requires(z3.And(z3.Length(alias.t) > 0, alias.t != argname.t), "an alias is given, distinct from the argument name")
        self = c.obj(INCLUDENODE, "include", name=name_expr, var=var, alias=alias, args=c.st.alloc(HList(items=[arg])), token=NONE, tag=const("include"))
        evx = lambda eng, st, a, k: [(st, st.deref(a[0]).fields["__value__"])]  # noqa: E731
        c.summary(EXP + ".evaluate", evx)
        c.summary(EXP + ".evaluate_async", evx)
        c.summary(ENV + ".get_template" + sfx, lambda eng, st, a, k: [(st, tmpl)])
        scope = c.st.deref(caller).fields["scope"]
        maps0 = list(c.st.deref(c.st.deref(scope).fields["_maps"]).items)
        Lm = c.st.deref(env).fields["loop_iteration_limit"].t
        limited = U.is_int(Lm)
        carry = c.st.deref(caller).fields["loop_iteration_carry"].t

        def measure(st):
            f = st.deref(caller).fields
            acc = f["loop_iteration_carry"].t
            for x in st.deref(f["loops"]).items:
                acc = acc * (st.deref(x).fields["length"].t if isinstance(x, VRef) else x.t)
            return acc

        def render_with_context(eng, st, a, k):
            maps = st.deref(st.deref(scope).fields["_maps"]).items
            st.log.append(("render", a[0], a[1], dict(k), len(maps), maps[0]))
            ns = maps[0]
            got_arg = eng.get_item(st.fork(), ns, argname)
            ok_arg = z3.And(*[box(v) == argv.t for _s, v in got_arg if not isinstance(v, Raised)]) if got_arg and not any(isinstance(v, Raised) for _s, v in got_arg) else z3.BoolVal(False)
            eng.obligations.append(Obligation("callee-pre", "partial-render:the-arguments-are-bound-in-the-innermost-scope-of-the-callers-context", list(st.pc), z3.And(z3.BoolVal(len(maps) == len(maps0) + 1), ok_arg), "IncludeNode"))
            if bound == "array":
                eng.obligations.append(Obligation("callee-pre", "partial-render:iteration-product-is-the-callers-product-times-the-array-length-and-within-the-limit", list(st.pc),
                                                  z3.And(measure(st) == carry * 2, z3.Implies(limited, carry * 2 <= U.i(Lm))), "IncludeNode bound array"))
            return [(st, VInt(z3.Int(f"chars_{len(st.log)}")))]
        c.summary(TEMPLATE + ".render_with_context" + sfx, render_with_context)
        c.call(caller, c.obj("io:StringIO", "buffer", __text__=c.str("out")), self_val=self)

        def post(r):
            renders = [e for e in r.st.log if e[0] == "render"]
            n_want = 2 if bound == "array" else 1
            ok = len(renders) == n_want and all(e[1] == tmpl and e[2] == caller and concrete(e[3].get("partial")) == (True, True) and "block_scope" not in e[3] for e in renders)
            restored = r.st.deref(r.st.deref(scope).fields["_maps"]).items == maps0
            return z3.BoolVal(bool(ok and restored))
        c.ensures("the-included-template-renders-in-the-callers-own-context-and-the-argument-scope-is-removed-afterwards", post)
        c.ensures("the-iteration-product-is-restored", lambda r: measure(r.st) == carry)
        c.raises("LoopIterationLimitError", "TemplateNotFoundError", "ContextDepthError")
        if bound == "array":
            c.ensures_exc("limit-error-exactly-when-the-array-would-exceed-the-limit", lambda r: z3.Implies(z3.BoolVal(r.exc.cls == "LoopIterationLimitError"), z3.And(limited, carry * 2 > U.i(Lm))))
            c.assume_note("BOUNDED in the array length only: a bound array with a spine of 2 arbitrary items")
        c.assume_note("context.extend and context.iterations are executed from their real source; the included template's body is an arbitrary callee")
        c.replay("code", code=replay_code())
    return inc


# ---- CallNode.render_to_output*: the macro body renders in an isolated copy whose namespace binds
# ---- every parameter (its argument's value, or undefined), `args` and `kwargs` (C27), that carries
# ---- the caller's iteration product (C06), and the caller's context is not written (C15)

CALLNODE = "liquid.extra.tags.macro_tag:CallNode"


def call_node_contract(prop, sfx, replay_code):
    from pyvc.contract import contract

    @contract(CALLNODE + ".render_to_output" + sfx, prop=prop, name=f"CallNode.render_to_output{sfx}")
    def cn(c):
        EXP = "liquid.expression:Expression"
        MT = "liquid.extra.tags.macro_tag"
        env = mk_env(c, undefined=VClass("liquid.undefined", "Undefined"))
        body = c.obj("liquid.ast:BlockNode", "macro_body")
        macro = c.obj(MT + ":Macro", "macro", args=c.dict("parameters"), block=body)
        macros = c.st.alloc(HDict(items={"m": macro}))
        caller = mk_ctx(c, env)
        c.st.deref(c.st.deref(caller).fields["tag_namespace"]).items["macros"] = macros
        vals = {n: c.any(f"value_{n}") for n in ("bound", "extra_positional", "extra_keyword")}
        ex = {n: c.obj(EXP, f"expr_{n}", __value__=v, token=NONE) for n, v in vals.items()}
        bound = c.obj(MT + ":BoundArgs", "bound_args", args=c.st.alloc(HDict(items={"p": ex["bound"], "q": NONE})), excess_args=c.st.alloc(HList(items=[ex["extra_positional"]])),
                      excess_kwargs=c.st.alloc(HDict(items={"k": ex["extra_keyword"]})))
        self = c.obj(CALLNODE, "call", name=const("m"), args=c.st.alloc(HList(items=[])), kwargs=c.st.alloc(HList(items=[])), token=NONE)
        evx = lambda eng, st, a, k: [(st, st.deref(a[0]).fields["__value__"])]  # noqa: E731
        c.summary(EXP + ".evaluate", evx)
        c.summary(EXP + ".evaluate_async", evx)
        c.summary(CALLNODE + ".macro_args", lambda eng, st, a, k: [(st, bound)] if a[1] == macro else [eng.raised(st, "AssertionError", "other macro")])
        macro_ctx = mk_ctx(c, env, locals=c.dict("macro_locals"), counters=c.dict("macro_counters"))

        def copy(eng, st, a, k):
            st.log.append(("copy", a[0], dict(k), list(a[1:])))
            return [(st, macro_ctx)]
        c.summary(CTX + ".copy", copy)

        def render(eng, st, a, k):
            st.log.append(("rendered", a[0], a[1]))
            return [(st, VInt(z3.Int("n_chars")))]
        c.summary("liquid.ast:BlockNode.render" + sfx, render)
        c.summary("liquid.ast:Node.render" + sfx, render)
        caller_addrs = {caller.addr} | {v.addr for v in c.st.deref(caller).fields.values() if isinstance(v, VRef)} | {macros.addr}
        c.call(caller, c.obj("io:StringIO", "buffer", __text__=c.str("out")), self_val=self)

        def post(r):
            copies = [e for e in r.st.log if e[0] == "copy"]
            rs = [e for e in r.st.log if e[0] == "rendered"]
            if len(copies) != 1 or copies[0][1] != caller or rs != [("rendered", body, macro_ctx)]:
                return z3.BoolVal(False)
            kw = copies[0][2]
            ns = kw.get("namespace") if "namespace" in kw else (copies[0][3][0] if copies[0][3] else None)
            nh = r.st.deref(ns) if isinstance(ns, VRef) else None
            if not isinstance(nh, HDict) or nh.present is not None or set(nh.items) != {"args", "kwargs", "p", "q"}:
                return z3.BoolVal(False)
            a_items = r.engine.concrete_items(r.st, nh.items["args"])
            kwh = r.st.deref(nh.items["kwargs"]) if isinstance(nh.items["kwargs"], VRef) else None
            q = nh.items["q"]
            q_undef = isinstance(q, VRef) and r.st.deref(q).cls[1] == "Undefined"
            dt = r.engine.concrete_items(r.st, kw.get("disabled_tags")) if kw.get("disabled_tags") is not None else None
            ok = (a_items is not None and len(a_items) == 1 and isinstance(kwh, HDict) and set(kwh.items) == {"k"} and q_undef
                  and concrete(kw.get("carry_loop_iterations", const(False))) == (True, True) and ("block_scope" not in kw or concrete(kw["block_scope"]) == (True, False))
                  and dt is not None and any(concrete(x) == (True, "include") for x in dt))
            writes = [e for e in r.st.log if e[0] in ("setitem", "delitem", "setattr") and e[1] in caller_addrs]
            if not ok or writes:
                return z3.BoolVal(False)
            return z3.And(box(nh.items["p"]) == vals["bound"].t, box(a_items[0]) == vals["extra_positional"].t, box(kwh.items["k"]) == vals["extra_keyword"].t)
        c.ensures("the-macro-body-renders-in-an-isolated-copy-binding-parameters-args-and-kwargs(product-carried,include-disabled,caller-not-written)", post)
        c.raises("ContextDepthError")
        c.assume_note("macro_args is summarised by a BoundArgs value of one bound parameter, one unbound parameter, one surplus positional and one surplus keyword argument (its own contract: C27 macro_args[...]); context.copy is summarised (C15/C06 copy contracts)")
        c.replay("code", code=replay_code())
    return cn


# ---- exceptions.lookup_warning is total on the Liquid error classes: the callee contract that
# ---- Environment.error / RenderContext.error rely on in WARN mode (C03: a warning instead of an
# ---- error; C02: nothing but a Liquid error escapes in any tolerance mode)

REPLAY_WARN = r'''
def run(m):
    import warnings, inspect
    import liquid.exceptions as ex
    from liquid import Environment, Mode
    bad = []
    for name, cls in inspect.getmembers(ex, inspect.isclass):
        if issubclass(cls, ex.LiquidError) and not issubclass(cls, getattr(ex, "LiquidInterrupt", ())):
            with warnings.catch_warnings(record=True) as w:
                warnings.simplefilter("always")
                try:
                    Environment(tolerance=Mode.WARN).error(cls("x", token=None))
                    if len(w) != 1:
                        bad.append((name, f"{len(w)} warnings"))
                except BaseException as e:
                    bad.append((name, type(e).__name__))
    return {"violated": bool(bad), "observed": bad[:4], "witness": "warn-mode-error-class"}
'''


def lookup_warning_contracts(prop, error_classes):
    from pyvc.contract import contract

    for cls in error_classes:
        def _mk_lw(cls):
            @contract("liquid.exceptions:lookup_warning", prop=prop, name=f"lookup_warning[{cls}]")
            def lw(c):
                c.call(VExcClass(cls))
                c.raises()
                c.ensures("a-warning-class-for-every-liquid-error-class", lambda r: z3.BoolVal(not isinstance(r.value, VNone)))
                c.replay("code", code=REPLAY_WARN)
        _mk_lw(cls)
