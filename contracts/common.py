"""Shared builders for contracts over RenderContext / Environment objects."""
import ast

import z3

from pyvc.lib import ContextManagerCall
from pyvc.state import *  # noqa: F403
from pyvc.u import *  # noqa: F403

CTX = "liquid.context:RenderContext"
ENV = "liquid.environment:Environment"
TEMPLATE = "liquid.template:BoundTemplate"
CHAIN = "liquid.utils.chain_map:ReadOnlyChainMap"
LSIO = "liquid.output:LimitedStringIO"


def optint(c, name):
    """Optional[int] configuration value"""
    v = c.any(name)
    c.requires(z3.Or(U.is_none(v.t), U.is_int(v.t)), f"{name}: Optional[int]")
    return v


def mk_env(c, **over):
    f = dict(
        loop_iteration_limit=optint(c, "loop_iteration_limit"),
        local_namespace_limit=optint(c, "local_namespace_limit"),
        output_stream_limit=optint(c, "output_stream_limit"),
        context_depth_limit=c.int("context_depth_limit"),
        block_nesting_limit=c.int("block_nesting_limit"),
        autoescape=c.bool("autoescape"),
        string_sequences=c.bool("string_sequences"),
        string_first_and_last=c.bool("string_first_and_last"),
        strict_filters=c.bool("strict_filters"),
    )
    f.update(over)
    return c.obj(ENV, "env", **f)


def mk_chain(c, maps):
    return c.obj(CHAIN, "scope", _maps=c.st.alloc(HDeque(list(maps))))


def mk_ctx(c, env=None, **over):
    env = env or mk_env(c)
    locals_ = over.pop("locals", None) or c.dict("locals")
    globals_ = over.pop("globals", None) or c.dict("globals")
    counters = over.pop("counters", None) or c.dict("counters")
    builtin = c.dict("builtin")
    template = over.pop("template", None) or c.obj(TEMPLATE, "template", env=env)
    loops = over.pop("loops", None) or c.list("loops")
    f = dict(
        env=env, template=template, locals=locals_, globals=globals_, counters=counters,
        scope=mk_chain(c, over.pop("maps", None) or [locals_, globals_, builtin, counters]),
        tag_namespace=c.dict(None, cycles=c.dict('cycles'), ifchanged=c.str('ifchanged_state'), stopindex=c.dict('stopindex'), extends=c.dict('extends_ns'), macros=c.dict('macros')), loops=loops, disabled_tags=c.list("disabled_tags"),
        autoescape=c.bool("ctx_autoescape"), _copy_depth=c.int("copy_depth"), parent_context=NONE,
        loop_iteration_carry=c.int("loop_iteration_carry"), local_namespace_size_carry=c.int("local_namespace_size_carry"),
    )
    f.update(over)
    ctx = c.obj(CTX, "context", **f)
    return ctx


def run_with(eng, st, cm_results, body_src="__probe__()"):
    """Execute `with <cm>: __probe__()` for the ContextManagerCall(s) in cm_results."""
    body = ast.parse(body_src).body
    out = []
    for s, cm in cm_results:
        if isinstance(cm, Raised):
            out.append((s, cm))
            continue
        assert isinstance(cm, ContextManagerCall), cm
        for s2, o in eng.inline_contextmanager(s, cm, None, body):
            out.append((s2, o if isinstance(o, Raised) else Ret(NONE)))
    return out


def std_globals(c):
    """module-level values computed at import time, given their documented ranges"""
    m = c.int("MAX_STR_INT")
    c.requires(z3.Or(m.t == 0, m.t >= 640), "liquid.limits.MAX_STR_INT is 0 (unlimited) or >= 640")
    c.override_global("liquid.limits", "MAX_STR_INT", m)
    c.pools["MAX_STR_INT"] = [4300]  # CPython's default int-to-str digit limit (the value the native side runs with)


# ---- ReadOnlyChainMap lookup: shared by C14 (innermost binding) and C27 (with/macro arguments
# ---- shadow outer names, also when the bound value is nil)

def lookup_spec(dicts, k, i=0):
    """value of the first map containing k; None (python) if no map contains it"""
    if i == len(dicts):
        return None
    rest = lookup_spec(dicts, k, i + 1)
    here = z3.Select(dicts[i].val, k)
    return here if rest is None else z3.If(z3.Select(dicts[i].present, k), here, rest)


def chain_getitem_contract(prop, n, replay_code):
    from pyvc.contract import contract

    @contract(CHAIN + ".__getitem__", prop=prop, name=f"ReadOnlyChainMap.__getitem__[chain-length-{n}]")
    def chain_getitem(c):
        maps = [c.dict(f"m{i}") for i in range(n)]
        hs = [c.st.deref(m).copy() for m in maps]
        self = mk_chain(c, maps)
        k = c.str("key")
        kb = U.str(k.t)
        c.call(k, self_val=self)
        anyp = z3.Or(*[z3.Select(h.present, kb) for h in hs])
        c.ensures("returns-innermost-binding", lambda r: z3.And(anyp, box(r.value) == lookup_spec(hs, kb)))
        c.raises("KeyError")
        c.ensures_exc("keyerror-iff-unbound-everywhere", lambda r: z3.Not(anyp))
        c.cover("innermost-binding-is-nil-and-an-outer-map-binds-the-key-too", lambda r: z3.And(z3.Select(hs[0].present, kb), z3.Select(hs[0].val, kb) == U.none, *( [z3.Select(hs[1].present, kb), z3.Select(hs[1].val, kb) != U.none] if n > 1 else [])) if r.exc is None else None)
        c.assume_note(f"BOUNDED in the chain length only: chain of {n} maps, each map arbitrary (the lookup loop is unrolled over the concrete deque)")
        c.replay("code", code=replay_code())
    return chain_getitem


# ---- Parser.parse_block: the block-nesting guard aborts, in every tolerance mode.  Shared by
# ---- C03 (the enclosing tag suppresses the error in lax/warn mode and parsing goes on), C08 (a
# ---- limit only aborts) and C09 (the parser's recursion is cut at the limit)

def parse_block_guard_contract(prop, replay_code):
    from pyvc.contract import contract

    for mode in ("STRICT", "WARN", "LAX"):
        def _mk(mode):
            @contract("liquid.parser:Parser.parse_block", prop=prop, name=f"parse_block[over the nesting limit, mode={mode}]")
            def pb(c):
                depth, limit = c.int("block_depth"), c.int("block_nesting_limit")
                c.requires(z3.And(depth.t >= 0, depth.t + 1 > limit.t), "this block would exceed the nesting limit")
                env = c.obj(ENV, "env", mode=VConst(("enum", "Mode", mode)), block_nesting_limit=limit, tags=c.st.alloc(HDict(items={k: c.obj("liquid.tag:Tag", "tag_" + k) for k in ("illegal", "content", "output")})))
                # a stream at its end: whatever the guard does, the token loop that follows it is empty
                eof = c.obj("liquid.token:Token", "eof", kind=const("end of expression"), value=const("end of expression"), start_index=const(-1), source=const(""))
                stream = c.obj("liquid.stream:TokenStream", "stream", tokens=c.st.alloc(HList(items=[])), pos=const(0), block_depth=depth, eof=eof)
                parser = c.obj("liquid.parser:Parser", "parser", env=env)
                c.summary("liquid.exceptions:lookup_warning", lambda eng, st, a, k: [(st, VConst(("warning-class",)))])
                c.call(stream, VConst(_frozen(())), self_val=parser)
                c.raises("BlockNestingError")
                c.ensures("a-block-over-the-nesting-limit-is-never-parsed(the-guard-aborts-in-every-mode)", lambda r: z3.BoolVal(False))
                c.replay("code", code=replay_code())
        _mk(mode)


def _frozen(data):
    from pyvc.expr import _Frozen
    return _Frozen(data)
