"""C19 -- static analysis reports everything a render can touch.

Local completeness per node class (found mechanically): every expression-valued field a
render method may evaluate is produced by expressions(); every node field it may render is
produced by children().  The traversal (analyze._visit) is covered by the bounded check."""
import ast

from pyvc import flow, load
from pyvc.run import bounded, not_covered, structural


def node_classes():
    out = []
    for m, cname, cnode in flow.iter_classes():
        names = [c[1] for c in load.mro(m, cname)]
        if "Node" in names[1:]:
            out.append((m, cname, cnode))
    return out


def self_fields(node, attr_calls):
    """names X such that `self.X` (possibly through iteration / attribute chains) is the
    receiver root of a call to one of `attr_calls` inside `node`"""
    fields = set()
    # local aliases: `for arg in self.args`, `x = self.y`, comprehension targets
    alias = {}
    for n in ast.walk(node):
        if isinstance(n, (ast.For, ast.AsyncFor, ast.comprehension)):
            src = n.iter
            root = src
            while isinstance(root, (ast.Attribute, ast.Subscript, ast.Call)):
                root = root.func if isinstance(root, ast.Call) else root.value
            fld = None
            cur = src
            while isinstance(cur, (ast.Attribute, ast.Subscript, ast.Call)):
                if isinstance(cur, ast.Attribute) and isinstance(cur.value, ast.Name) and cur.value.id == "self":
                    fld = cur.attr
                cur = cur.func if isinstance(cur, ast.Call) else cur.value
            if fld:
                for t in ast.walk(n.target):
                    if isinstance(t, ast.Name):
                        alias[t.id] = fld
        if isinstance(n, ast.Assign) and len(n.targets) == 1 and isinstance(n.targets[0], ast.Name):
            cur = n.value
            while isinstance(cur, (ast.Attribute, ast.Subscript)):
                if isinstance(cur, ast.Attribute) and isinstance(cur.value, ast.Name) and cur.value.id == "self":
                    alias[n.targets[0].id] = cur.attr
                cur = cur.value
    for n in ast.walk(node):
        if isinstance(n, ast.Call) and isinstance(n.func, ast.Attribute) and n.func.attr in attr_calls:
            cur = n.func.value
            while isinstance(cur, (ast.Attribute, ast.Subscript)):
                if isinstance(cur, ast.Attribute) and isinstance(cur.value, ast.Name) and cur.value.id == "self":
                    fields.add(cur.attr)
                    break
                cur = cur.value
            else:
                if isinstance(cur, ast.Name) and cur.id in alias:
                    fields.add(alias[cur.id])
    return fields


def yielded_fields(fn):
    """fields of self mentioned in what the meta method yields/returns"""
    out = set()
    for n in ast.walk(fn):
        if isinstance(n, (ast.Yield, ast.YieldFrom, ast.Return)) and n.value is not None:
            for a in ast.walk(n.value):
                if isinstance(a, ast.Attribute) and isinstance(a.value, ast.Name) and a.value.id == "self":
                    out.add(a.attr)
        if isinstance(n, ast.Call) and isinstance(n.func, ast.Attribute) and n.func.attr in ("append", "extend"):
            for a in ast.walk(n):
                if isinstance(a, ast.Attribute) and isinstance(a.value, ast.Name) and a.value.id == "self":
                    out.add(a.attr)
    # aliases through loops inside the meta method
    for n in ast.walk(fn):
        if isinstance(n, (ast.For, ast.comprehension)):
            for a in ast.walk(n.iter):
                if isinstance(a, ast.Attribute) and isinstance(a.value, ast.Name) and a.value.id == "self":
                    out.add(a.attr)
    return out


@structural("C19", "local-completeness")
def local_completeness():
    obs = []
    n = 0
    for m, cname, cnode in node_classes():
        renders = [s for s in cnode.body if isinstance(s, (ast.FunctionDef, ast.AsyncFunctionDef)) and s.name in ("render_to_output", "render_to_output_async")]
        if not renders:
            continue
        n += 1
        evaluated = set()
        rendered = set()
        for fn in renders:
            evaluated |= self_fields(fn, ("evaluate", "evaluate_async"))
            rendered |= self_fields(fn, ("render", "render_async"))
        # helper methods of the same class called from render (e.g. macro_args) that read fields
        ex = load.find_method(m, cname, "expressions")
        ch = load.find_method(m, cname, "children")
        ex_fields = yielded_fields(ex[2]) if ex else set()
        ch_fields = yielded_fields(ch[2]) if ch else set()
        # expressions reachable through other expressions count (e.g. self.expression covers its parts)
        # a field that is itself a child node (e.g. IfNode.alternatives) reports its own expressions
        miss_e = sorted(f for f in evaluated if f not in ex_fields and f not in ch_fields)
        miss_c = sorted(f for f in rendered if f not in ch_fields)
        obs.append(flow.ob(f"{cname}:every-evaluated-expression-field-is-reported-by-expressions()", not miss_e, f"{m}: evaluated {sorted(evaluated)}, expressions() mentions {sorted(ex_fields)}; missing {miss_e}", replay_schema="code", replay_extra={"code": REPLAY}))
        obs.append(flow.ob(f"{cname}:every-rendered-node-field-is-reported-by-children()", not miss_c, f"{m}: rendered {sorted(rendered)}, children() mentions {sorted(ch_fields)}; missing {miss_c}", replay_schema="code", replay_extra={"code": REPLAY}))
    obs.append(flow.ob("node-classes-with-render-methods", n >= 4, f"{n} classes"))
    return obs


GUARD_OK = ("self.", "include_partials", "template", "isinstance(self.")


def _presence_test(test):
    """`self.X`, `self.X is not None`, `isinstance(self.X, T)`, `include_partials`, a local"""
    if isinstance(test, ast.Attribute) and isinstance(test.value, ast.Name):
        return True   # self.X, or item.value for the item of a comprehension over a field
    if isinstance(test, ast.Name):
        return True
    if isinstance(test, ast.Compare) and len(test.ops) == 1 and isinstance(test.ops[0], ast.IsNot) and isinstance(test.comparators[0], ast.Constant) and test.comparators[0].value is None:
        return _presence_test(test.left)
    if isinstance(test, ast.Call) and flow.dotted(test.func) == "isinstance" and _presence_test(test.args[0]):
        return True
    return False


@structural("C19", "meta-guards")
def meta_guards():
    """children()/expressions() report a field under no condition other than that the field is
    present (the render methods use it whenever it is present); the partial's bound-variable
    name is in scope exactly when render binds it (a with/for variable was given)"""
    obs = []
    n = 0
    for m in load.all_modules():
        mod = load.get_module(m)
        for cname, cnode in mod.classes.items():
            for fn in [x for x in cnode.body if isinstance(x, (ast.FunctionDef, ast.AsyncFunctionDef)) and x.name in ("children", "expressions")]:
                tests = [t.test for t in ast.walk(fn) if isinstance(t, (ast.If, ast.IfExp))] + [i for c in ast.walk(fn) if isinstance(c, ast.comprehension) for i in c.ifs]
                bad = [flow.dotted(t)[:60] for t in tests if not _presence_test(t)]
                if tests:
                    n += 1
                    obs.append(flow.ob(f"{cname}.{fn.name}:reports-a-field-whenever-it-is-present", not bad, str(bad), replay_schema="code", replay_extra={"code": REPLAY_GUARD}))
    obs.append(flow.ob("guarded-meta-methods-found", n >= 4, f"{n}"))
    for m, cname in (("liquid.builtin.tags.render_tag", "RenderNode"), ("liquid.builtin.tags.include_tag", "IncludeNode")):
        ps = load.find_method(m, cname, "partial_scope")[2]
        pm = flow.parents(ps)
        apps = [c for c in flow.calls(ps) if flow.dotted(c.func) == "scope.append"]
        ok = bool(apps)
        for a in apps:
            guards = [flow.dotted(i.test) for i in flow.enclosing(pm, a, (ast.If,))]
            ok = ok and any(g in ("self.var", "self.var is not None") for g in guards)
        rt = load.find_method(m, cname, "render_to_output")[2]
        binds = [flow.dotted(i.test) for i in ast.walk(rt) if isinstance(i, ast.If) and "self.var" in flow.dotted(i.test)]
        obs.append(flow.ob(f"{cname}.partial_scope:the-bound-variable-name-is-in-scope-only-when-a-variable-is-bound", ok and bool(binds), f"appends guarded by self.var: {ok}; render binds under {binds[:2]}", replay_schema="code", replay_extra={"code": REPLAY_GUARD}))
        # a partial is visited once per KEY: two tags that put different names in the partial's scope
        # must not share a key, so the key is computed from the whole in-scope list (arguments AND the
        # bound variable's name), not from part of it
        for call in flow.calls(ps):
            if flow.dotted(call.func) != "Partial":
                continue
            kexpr = flow.kwarg(call, "key")
            sexpr = flow.kwarg(call, "in_scope")
            if kexpr is None:
                continue   # no key: visited every time
            def deps(e, seen=()):
                names = {n_.id for n_ in ast.walk(e) if isinstance(n_, ast.Name)}
                out = set(names)
                for st_ in ast.walk(ps):
                    if isinstance(st_, ast.Assign) and any(isinstance(t, ast.Name) and t.id in names and t.id not in seen for t in st_.targets):
                        out |= deps(st_.value, tuple(seen) + tuple(names))
                return out
            scope_var = sexpr.id if isinstance(sexpr, ast.Name) else None
            obs.append(flow.ob(f"{cname}.partial_scope:the-visit-key-is-computed-from-every-name-put-in-scope", scope_var is not None and scope_var in deps(kexpr), f"key = {ast.unparse(kexpr)[:80]} depends on {sorted(deps(kexpr))}; in_scope = {ast.unparse(sexpr) if sexpr is not None else None}", replay_schema="code", replay_extra={"code": REPLAY_KEY}))
    return obs


REPLAY_KEY = r'''
def run(m):
    import asyncio
    from liquid import Environment, DictLoader
    e = Environment(loader=DictLoader({"p": "{{ x }}{{ y }}"}))
    t = e.from_string("{% render 'p' with a as x %}{% render 'p' with a as y %}")
    bad = []
    for an in (t.analyze(), asyncio.run(t.analyze_async())):
        if not {"a", "x", "y"} <= set(an.globals):
            bad.append(sorted(an.globals))
    return {"violated": bool(bad), "observed": bad, "witness": "second-render-with-another-bound-name-not-visited"}
'''


@structural("C19", "traversal-shape")
def traversal_shape():
    """both _visit variants record tags, variables, filters and template-scope names before any
    early return, and the only early return is the 'same partial, same key' one"""
    obs = []
    mod = load.get_module("liquid.static_analysis")
    for outer in ("analyze", "analyze_async"):
        fn = mod.funcs[outer]
        visit = [n for n in ast.walk(fn) if isinstance(n, (ast.FunctionDef, ast.AsyncFunctionDef)) and n.name == "_visit"][0]
        rets = [r for r in ast.walk(visit) if isinstance(r, ast.Return)]
        pm = flow.parents(visit)
        shapes = []
        for r in rets:
            iff = flow.enclosing(pm, r, (ast.If,))
            shapes.append(flow.dotted(iff[0].test) if iff else "?")
        # a partial may only be skipped when its scope cannot differ from the first visit
        # (isolated scope, same argument names) or when it is being visited right now
        ok = len(shapes) == 1 and shapes[0].startswith("partial.key in seen[partial_name] and (") and "PartialScope.ISOLATED" in shapes[0] and "in active" in shapes[0]
        obs.append(flow.ob(f"{outer}._visit:only-early-return-is-same-partial-same-key", ok, str(shapes), replay_schema="code", replay_extra={"code": REPLAY}))
        src = ast.unparse(visit)
        order_ok = src.index("node.expressions()") < src.index("node.template_scope()") < src.index("node.partial_scope()") < src.index("return")
        obs.append(flow.ob(f"{outer}._visit:records-expressions-and-locals-before-descending", order_ok, ""))
    return obs


# ---- _analyze_variables: every Path reference is recorded as a variable, and as a global exactly
# ---- when its root name is not in scope; every child expression is analysed, inside the scope
# ---- the expression opens (lambda parameters) and not beyond it

import z3  # noqa: E402

from contracts.common import *  # noqa: F403,E402
from pyvc.contract import contract  # noqa: E402
from pyvc.state import *  # noqa: F403,E402
from pyvc.u import *  # noqa: F403,E402

SA = "liquid.static_analysis"


@contract(f"{SA}:_analyze_variables", prop="C19", name="_analyze_variables[Path reference]")
def analyze_path(c):
    in_scope = c.bool("root_in_scope")
    root = c.str("root_name")
    tok = c.obj("liquid.token:Token", "token", start_index=c.int("start_index"), kind=const("word"), value=root, source=c.str("source"))
    expr = c.obj("liquid.builtin.expressions.path:Path", "path", token=tok, path=c.st.alloc(HList(items=[root, c.str("segment1")])))
    scope = c.obj(f"{SA}:_StaticScope", "scope")
    globs = c.obj(f"{SA}:_VariableMap", "globals")
    variables = c.obj(f"{SA}:_VariableMap", "variables")

    def add(eng, st, a, k):
        st.log.append(("add", a[0], a[1]))
        # whatever add() returns (None today) must not decide whether the global is recorded
        return [(st.fork(), NONE), (st.fork(), VBool(z3.BoolVal(True))), (st.fork(), VBool(z3.BoolVal(False)))]

    def contains(eng, st, a, k):
        st.log.append(("scope-test", box(a[1])))
        return [(st, VBool(in_scope.t))]
    c.summary(f"{SA}:_VariableMap.add", add)
    c.summary(f"{SA}:_StaticScope.__contains__", contains)
    c.summary("liquid.builtin.expressions.path:Path.children", lambda eng, st, a, k: [(st, st.alloc(HList(items=[])))])
    c.summary("liquid.builtin.expressions.path:Path.scope", lambda eng, st, a, k: [(st, st.alloc(HList(items=[])))])
    c.summary("liquid.expression:Expression.scope", lambda eng, st, a, k: [(st, st.alloc(HList(items=[])))])
    c.call(expr, c.str("template_name"), scope, globs, variables)

    def post(r):
        adds = [e for e in r.st.log if e[0] == "add"]
        to_vars = [e for e in adds if e[1] == variables]
        to_globs = [e for e in adds if e[1] == globs]
        tests = [e for e in r.st.log if e[0] == "scope-test"]
        ok_shape = len(to_vars) == 1 and len(to_globs) <= 1 and len(tests) == 1 and (not to_globs or to_globs[0][2] == to_vars[0][2])
        if not ok_shape:
            return z3.BoolVal(False)
        return z3.And(tests[0][1] == U.str(root.t), z3.BoolVal(bool(to_globs)) == z3.Not(in_scope.t))
    c.ensures("a-path-is-recorded-as-a-variable-and-as-a-global-exactly-when-its-root-is-out-of-scope", post)
    c.raises()
    c.replay("code", code=REPLAY)


# the two callee contracts assumed above are verified on the real methods

@contract(f"{SA}:_StaticScope.__contains__", prop="C19", name="_StaticScope.__contains__[a name is in scope iff some open scope binds it]")
def static_scope_contains(c):
    s0, s1, s2 = c.dict("template_scope"), c.dict("block_scope_1"), c.dict("block_scope_2")
    self = c.obj(f"{SA}:_StaticScope", "scope", stack=c.st.alloc(HList(items=[s0, s1, s2])))
    k = c.str("name")
    kb = U.str(k.t)
    hs = [c.st.deref(x).copy() for x in (s0, s1, s2)]
    c.call(k, self_val=self)
    c.ensures("membership-in-any-open-scope", lambda r: r.truth() == z3.Or(*[z3.Select(h.present, kb) for h in hs]))
    c.raises()
    c.assume_note("BOUNDED in the number of open scopes only: a stack of 3 arbitrary name sets")
    c.replay("code", code=REPLAY)


def _analyze_children(opens_scope):
    @contract(f"{SA}:_analyze_variables", prop="C19", name=f"_analyze_variables[children, expression {'opens a scope' if opens_scope else 'opens no scope'}]")
    def ac(c):
        kids = [c.obj("liquid.expression:Expression", f"child{i}") for i in range(2)]
        expr = c.obj("liquid.expression:Expression", "expr")
        scope = c.obj(f"{SA}:_StaticScope", "scope", stack=c.st.alloc(HList(items=[c.st.alloc(HList(items=[]))])))
        globs = c.obj(f"{SA}:_VariableMap", "globals")
        variables = c.obj(f"{SA}:_VariableMap", "variables")
        names = c.st.alloc(HList(items=[c.str("param")])) if opens_scope else c.st.alloc(HList(items=[]))
        c.summary("liquid.expression:Expression.children", lambda eng, st, a, k: [(st, st.alloc(HList(items=list(kids))))])
        c.summary("liquid.expression:Expression.scope", lambda eng, st, a, k: [(st, names)])

        top = []

        def rec(eng, st, a, k):
            if a[0] == expr and not top:
                top.append(1)
                return None   # the call under contract itself
            depth = len(st.deref(st.deref(scope).fields["stack"]).items)
            st.log.append(("analysed", a[0], depth, a[2], a[3], a[4]))
            return [(st, NONE)]
        c.summary(f"{SA}:_analyze_variables", rec)
        c.summary("builtin:set", lambda eng, st, a, k: [(st, a[0])])
        c.call(expr, c.str("template_name"), scope, globs, variables)
        want_depth = 2 if opens_scope else 1

        def post(r):
            seen = [e for e in r.st.log if e[0] == "analysed"]
            ok = [e[1] for e in seen] == kids and all(e[2] == want_depth and e[3] == scope and e[4] == globs and e[5] == variables for e in seen)
            return z3.BoolVal(ok and len(r.st.deref(r.st.deref(scope).fields["stack"]).items) == 1)
        c.ensures("every-child-is-analysed-inside-the-scope-the-expression-opens-and-the-scope-is-closed-again", post)
        c.raises()
        c.replay("code", code=REPLAY)


for _os in (True, False):
    _analyze_children(_os)


# ---- children() completeness of every expression class, as a relation between the real
# ---- evaluate()/evaluate_async() and the real children(): in every presence configuration of the
# ---- optional parts, every sub-expression that an evaluation may evaluate is returned by
# ---- children() -- so _analyze_variables (contract above) reaches every path a render evaluates

import itertools  # noqa: E402

EXPR = "liquid.expression:Expression"
FILTER = "liquid.builtin.expressions.filtered:Filter"
FILT = "liquid.builtin.expressions.filtered"
LOGI = "liquid.builtin.expressions.logical"


def _field_options(c, ann, fname):
    """symbolic values for one constructor parameter, by its annotation"""
    a = (ann or "").replace(" ", "")
    stub = lambda tag="": c.obj(EXPR, f"{fname}{tag}", token=NONE)  # noqa: E731
    if a == "FilteredExpression":
        # a filtered expression is never itself a variable reference: a parent may list its
        # children instead of it (TernaryFilteredExpression flattens `left`)
        return [("x", c.obj(EXPR, fname, token=NONE, __kid__=stub("_child"), __flattenable__=const(True)))]
    if a == "Expression":
        return [("x", stub())]
    if a in ("Expression|None", "Optional[Expression]"):
        return [("none", NONE), ("x", stub())]
    if a in ("list[Filter]|None", "Optional[list[Filter]]"):
        f1 = c.obj(FILTER, f"{fname}_filter", name=c.str(f"{fname}_filter_name"), token=NONE, args=c.st.alloc(HList(items=[])), __arg__=stub("_arg"))
        return [("none", NONE), ("empty", c.st.alloc(HList(items=[]))), ("one", c.st.alloc(HList(items=[f1])))]
    if a == "list[Expression]":
        return [("two", c.st.alloc(HList(items=[stub("0"), stub("1")])))]
    if a == "Token":
        return [("tok", NONE)]
    if a == "str":
        return [("s", c.str(fname))]
    if a == "bool":
        return [("b", c.bool(fname))]
    return None


# sub-expressions that the OWNING NODE reports itself (so the expression need not list them)
SHARED = {("_AnyExpression", "left"): "the case subject is yielded by CaseNode.expressions() (obligation 'shared-subexpressions' below)"}


@structural("C19", "shared-subexpressions")
def shared_subexpressions():
    """_AnyExpression.left is the CaseNode's own expression: CaseTag.parse builds every
    _AnyExpression with the `left` it hands to the CaseNode, and CaseNode.expressions yields it"""
    mod = load.get_module("liquid.builtin.tags.case_tag")
    node = mod.classes["CaseNode"]
    ex = load._last_def(node.body, "expressions")
    yields = [ast.unparse(y.value) for y in ast.walk(ex) if isinstance(y, ast.Yield) and y.value is not None]
    tag = mod.classes["CaseTag"]
    parse = load._last_def(tag.body, "parse")
    anys = [cl for cl in flow.calls(parse) if flow.dotted(cl.func) == "_AnyExpression"]
    rets = [cl for cl in flow.calls(parse) if flow.dotted(cl.func) == "self.node_class"]
    same = bool(anys) and bool(rets) and all(len(cl.args) >= 2 and isinstance(cl.args[1], ast.Name) and any(isinstance(a, ast.Name) and a.id == cl.args[1].id for r in rets for a in r.args) for cl in anys)
    return [flow.ob("CaseNode.expressions-yields-the-case-subject", "self.expression" in yields, str(yields)),
            flow.ob("CaseTag.parse-gives-every-when-clause-the-node's-own-subject", same, f"{len(anys)} _AnyExpression(...) constructions")]


def _expr_classes():
    out = []
    for m, cname, cnode in flow.iter_classes():
        names = [c_[1] for c_ in load.mro(m, cname)]
        if "Expression" not in names[1:]:
            continue
        if load._last_def(cnode.body, "children") is None or load._last_def(cnode.body, "evaluate") is None:
            continue
        init = load.find_method(m, cname, "__init__")
        out.append((m, cname, init[2] if init else None))
    return out


def _children_complete(m, cname, init, sfx, prop="C19", what="children"):
    """what == 'children': children() covers evaluate (C19); what == 'frame': evaluate leaves the
    expression object -- its fields and the lists they hold -- exactly as it found them (C17)"""
    params = [(a.arg, ast.unparse(a.annotation) if a.annotation else None) for a in (init.args.args[1:] + init.args.kwonlyargs)] if init is not None else []
    title = f"{cname}.children() covers evaluate{sfx}()" if what == "children" else f"{cname}.evaluate{sfx}() does not write the expression"

    @contract(f"{m}:{cname}.evaluate{sfx}", prop=prop, name=title)
    def cc(c):
        std_globals(c)
        opts = []
        for pn, ann in params:
            if cname == "Path" and pn == "path":
                inner = c.obj("liquid.builtin.expressions.path:Path", "nested_path", token=NONE, path=c.st.alloc(HList(items=[c.str("inner_root")])))
                o = [("segments", c.st.alloc(HList(items=[c.str("root"), inner, c.str("prop")])))]
            else:
                o = _field_options(c, ann, pn)
            if o is None:
                raise Unsupported(f"no symbolic value for {cname}.__init__({pn}: {ann})")
            opts.append([(pn, lab, v) for lab, v in o])
        ctx = mk_ctx(c)

        def ev_stub(eng, st, a, k):
            st.log.append(("evaluated", a[0]))
            return [(st, VU(z3.Const(f"value_of_{a[0].addr}_{len(st.log)}", U)))]

        def filt_eval(eng, st, a, k):
            st.log.append(("evaluated", st.deref(a[0]).fields["__arg__"]))
            return [(st, VU(z3.Const(f"filtered_{len(st.log)}", U)))]

        def filt_children(eng, st, a, k):
            return [(st, st.alloc(HList(items=[st.deref(a[0]).fields["__arg__"]])))]

        def get(eng, st, a, k):
            return [(st, VU(z3.Const(f"resolved_{len(st.log)}", U)))]
        for n_ in ("evaluate", "evaluate_async"):
            c.summary(f"{EXPR}.{n_}", ev_stub)
            c.summary(f"{FILTER}.{n_}", filt_eval)
            c.summary(f"liquid.builtin.expressions.path:Path.{n_}", lambda eng, st, a, k, _n=n_: (None if st.deref(a[0]).name != "nested_path" else ev_stub(eng, st, a, k)))
        c.summary(f"{FILTER}.children", filt_children)
        c.summary(f"{EXPR}.children", lambda eng, st, a, k: [(st, st.alloc(HList(items=[st.deref(a[0]).fields["__kid__"]] if "__kid__" in st.deref(a[0]).fields else [])))])
        c.summary(CTX + ".get", get)
        c.summary(CTX + ".get_async", get)
        c.summary("liquid.builtin.expressions.loop:LoopExpression._slice", lambda eng, st, a, k: [(st, VTuple((NONE, const(0))))])
        c.summary("liquid.builtin.expressions.loop:LoopExpression._to_iter", lambda eng, st, a, k: [(st, VTuple((NONE, const(0))))])
        c.summary("liquid.builtin.expressions.primitive:RangeLiteral._make_range", lambda eng, st, a, k: [(st, NONE)])
        c.summary("liquid.builtin.expressions.loop:LoopExpression._to_int", lambda eng, st, a, k: [(st, VInt(z3.Int(f"int_{len(st.log)}")))])

        def entry(eng, cc_, func):
            outs = []
            ch = load.find_method(m, cname, "children")
            chf = VFunc(ch[2], load.get_module(ch[0]), None, f"{ch[1]}.children", (ch[0], ch[1]))
            for combo in itertools.product(*opts):
                base = cc_.st.fork()
                fields = {("reversed" if pn == "reversed_" else pn): v for pn, _lab, v in combo}
                fields.setdefault("token", NONE)
                obj = base.alloc(HObj((m, cname), fields, {}, cname + ":" + ",".join(f"{pn}={lab}" for pn, lab, _v in combo)))
                label = base.deref(obj).name
                for s1, r1 in eng.call_function(base.fork(), chf, [], {}, self_val=obj):
                    if isinstance(r1, Raised):
                        outs.append((s1, r1))
                        continue
                    kids = eng.concrete_items(s1, r1)

                    def snapshot(s_):
                        snap = {}
                        for fn_, fv in s_.deref(obj).fields.items():
                            spine = eng.concrete_items(s_, fv) if isinstance(fv, VRef) and isinstance(s_.deref(fv), HList) else None
                            snap[fn_] = (fv, tuple(spine) if spine is not None else None)
                        return snap
                    before = snapshot(s1)
                    for s2, r2 in eng.call_function(s1, func, [ctx], {}, self_val=obj):
                        if what == "frame":
                            after = snapshot(s2)
                            changed = sorted(k for k in set(before) | set(after) if before.get(k) != after.get(k))
                            s2.ghost["__cfg__"] = (label, changed)
                            outs.append((s2, Ret(VBool(z3.BoolVal(not changed)))))
                            continue
                        evald = [e[1] for e in s2.log if e[0] == "evaluated"]
                        def covered(x):
                            if kids is None:
                                return False
                            f = s2.deref(x).fields
                            shared = (cname, next((pn for pn, _l, v in combo if v == x), None)) in SHARED
                            return x in kids or shared or ("__flattenable__" in f and f["__kid__"] in kids)
                        missing = [x for x in evald if not covered(x)]
                        s2.ghost["__cfg__"] = (label, [s2.deref(x).name for x in missing] if kids is not None else ["children() has no concrete spine"])
                        outs.append((s2, Ret(VBool(z3.BoolVal(not missing)))))
            return outs
        c.entry = entry
        c.ensures("every-sub-expression-an-evaluation-evaluates-is-returned-by-children()" if what == "children" else "evaluation-leaves-the-parsed-expression-unchanged(fields-and-their-lists)", lambda r: r.value.t)
        c.assume_note("sub-expressions are opaque Expression stubs; a Filter stub evaluates (and lists as its children) one argument expression -- Filter.children/evaluate_args have their own contract below")
        c.replay("code", code=REPLAY_CHILDREN)


for _m, _cn, _init in _expr_classes():
    _anns = [ast.unparse(a.annotation) if a.annotation else "" for a in (_init.args.args[1:] + _init.args.kwonlyargs)] if _init is not None else []
    if not any(("Expression" in x or "Filter" in x or x == "Segments") for x in _anns):
        continue   # literals: no sub-expressions
    for _sfx in ("", "_async"):
        if load._last_def(load.get_module(_m).classes[_cn].body, "evaluate" + _sfx) is not None:
            _children_complete(_m, _cn, _init, _sfx)


def _filter_children(sfx):
    @contract(f"{FILTER}.evaluate_args{sfx}", prop="C19", name=f"Filter.children() covers evaluate_args{sfx}()")
    def fc(c):
        vals = [c.obj(EXPR, f"arg_value{i}", token=NONE) for i in range(2)]
        args = [c.obj("liquid.builtin.expressions.arguments:PositionalArgument", "positional", value=vals[0], token=NONE),
                c.obj("liquid.builtin.expressions.arguments:KeywordArgument", "keyword", name=c.str("kw"), value=vals[1], token=NONE)]
        self = c.obj(FILTER, "filter", name=c.str("filter_name"), token=NONE, args=c.st.alloc(HList(items=list(args))))

        def ev_stub(eng, st, a, k):
            st.log.append(("evaluated", a[0]))
            return [(st, VU(z3.Const(f"value_{len(st.log)}", U)))]
        c.summary(f"{EXPR}.evaluate", ev_stub)
        c.summary(f"{EXPR}.evaluate_async", ev_stub)

        def entry(eng, cc_, func):
            outs = []
            ch = load.find_method(FILT, "Filter", "children")
            chf = VFunc(ch[2], load.get_module(ch[0]), None, "Filter.children", (ch[0], ch[1]))
            for s1, r1 in eng.call_function(cc_.st, chf, [], {}, self_val=self):
                kids = eng.concrete_items(s1, r1) if not isinstance(r1, Raised) else None
                for s2, r2 in eng.call_function(s1, func, [mk_ctx(c)], {}, self_val=self):
                    evald = [e[1] for e in s2.log if e[0] == "evaluated"]
                    outs.append((s2, Ret(VBool(z3.BoolVal(kids is not None and all(x in kids for x in evald) and len(evald) == 2)))))
            return outs
        c.entry = entry
        c.ensures("every-argument-value-evaluated-is-a-child", lambda r: r.value.t)
        c.replay("code", code=REPLAY_CHILDREN)


for _sfx in ("", "_async"):
    _filter_children(_sfx)


REPLAY_CHILDREN = r'''
def run(m):
    from liquid import Environment
    class E(Environment):
        ternary_expressions = True
        logical_not_operator = True
        logical_parentheses = True
    bad = []
    srcs = {"{{ a if b || append: y }}": {"a", "b", "y"}, "{{ a | append: p if b else c | append: q || append: r }}": {"a", "p", "b", "c", "q", "r"},
            "{% if not (a and b) or c contains d %}{% endif %}": {"a", "b", "c", "d"}, "{% for x in (lo..hi) limit: n offset: o %}{% endfor %}": {"lo", "hi", "n", "o"},
            "{{ a[b.c][d] }}": {"a", "b", "d"}, "{% case v %}{% when p, q or r %}{% endcase %}": {"v", "p", "q", "r"}}
    for src, want in srcs.items():
        got = set(E().from_string(src).analyze().variables)
        if not want <= got:
            bad.append((src, sorted(want - got)))
    return {"violated": bool(bad), "observed": bad[:3], "witness": "children-incomplete"}
'''


# ---- the analysis has a synchronous and an asynchronous entry point; the obligations of this file
# ---- are read off the synchronous code, so the asynchronous traversal must be congruent to it
from contracts.twins import pair_obligations  # noqa: E402


@structural("C19", "async-analysis-is-the-sync-analysis")
def async_twin():
    return pair_obligations(lambda m: m == "liquid.static_analysis", min_pairs=1, replay=REPLAY)


not_covered("C19", "dynamic partial names (the analysis evaluates them statically by design)", "names bound into namespaces vs block_scope()/template_scope() (bounded check)",
            "the ghost-scope obligation on the partial de-duplication (first visit's scope must be contained in later visits' scope) is decided by the bounded dynamic-reads check")

bounded("C19", "bounded/C19.py")

REPLAY_GUARD = r'''
def run(m):
    from liquid import DictLoader, Environment
    env = Environment(loader=DictLoader({"product": "{{ product }}"}))
    a = env.from_string("{% render 'product' %}{% for x in y %}{% else %}{% assign z = fallback | upcase %}{% endfor %}").analyze()
    g = sorted(a.globals)
    return {"violated": g != ["fallback", "product", "y"], "observed": g}
'''


REPLAY = r'''
def run(m):
    from bounded.C19 import run as brun
    r = brun("quick", 0)
    v = r["violations"]
    return {"failing": bool(v), "witness": v[0]["witness"] if v else "analysis", "call": v[0]["source"] if v else "template sweep", "result": v[0]["got"] if v else "ok"}
'''


# ---- "every variable path evaluated during any render appears in the reported variables and
# ---- variable paths": a reference is recorded unless the SAME reference (same segments at the
# ---- same place: template name AND offset) is already there -- never dropped because another
# ---- reference merely shares its root name or its offset

SA = "liquid.static_analysis"

REPLAY_VARMAP = r'''
def run(m):
    import asyncio
    from liquid import Environment, DictLoader
    env = Environment(loader=DictLoader({"a": "{{ site.name }}", "b": "{{ site.year }}"}))
    t = env.from_string("{% include 'a' %}{% include 'b' %}")
    bad = []
    for an in (t.analyze(), asyncio.run(t.analyze_async())):
        paths = sorted(str(v) for v in an.variables.get("site", []))
        if paths != ["site.name", "site.year"]:
            bad.append(paths)
    return {"violated": bool(bad), "observed": bad, "witness": "reference-dropped-by-de-duplication"}
'''


@contract(SA + ":_VariableMap.add", prop="C19", name="_VariableMap.add[a reference is kept unless the same segments at the same template and offset are already recorded]")
def varmap_add(c):
    def var(tag):
        segs = c.st.alloc(HList(items=[const("site"), c.str(tag + "_segment")]))
        span = c.obj("liquid.span:Span", tag + "_span", template_name=c.str(tag + "_template"), index=c.int(tag + "_index"))
        return c.obj(SA + ":Variable", tag, segments=segs, span=span), segs, span
    old, osegs, ospan = var("recorded")
    new, nsegs, nspan = var("added")
    box_ = {}

    def entry(eng, cc, func):
        # the map is built by its real constructor and the first reference recorded by the real add()
        outs = []
        for s0, m_ in eng.instantiate(cc.st, VClass(SA, "_VariableMap"), [], {}):
            if isinstance(m_, Raised):
                outs.append((s0, m_))
                continue
            box_["self"] = m_
            for s1, r1 in eng.run(func, s0, [old], {}, self_val=m_):
                if isinstance(r1, Raised):
                    outs.append((s1, r1))
                    continue
                outs.extend(eng.run(func, s1, [new], {}, self_val=m_))
        return outs
    c.entry = entry

    def post(r):
        self = box_["self"]
        data = r.st.deref(r.st.deref(self).fields["_data"])
        items = r.engine.concrete_items(r.st, data.items["site"]) if isinstance(data, HDict) and "site" in data.items else None
        if items is None or not items or items[0] != old:
            return z3.BoolVal(False)
        f = lambda o, k: r.st.deref(o).fields[k].t  # noqa: E731
        same = z3.And(r.st.deref(osegs).items[1].t == r.st.deref(nsegs).items[1].t, f(ospan, "template_name") == f(nspan, "template_name"), f(ospan, "index") == f(nspan, "index"))
        if items == [old]:
            return same           # dropped only as an exact duplicate
        return z3.BoolVal(items == [old, new])
    c.ensures("recorded-references-stay-and-the-new-one-is-appended-unless-it-is-an-exact-duplicate", post)
    c.raises()
    c.replay("code", code=REPLAY_VARMAP)


@structural("C19", "partial-scope-push-pop-and-load-context")
def partial_scope_balance_and_load_context():
    """(1) the scope pushed for a partial is popped on every way out of the visit: no `return` sits
    between the push and the pop; (2) analysis loads a partial exactly as rendering does: every
    get_template[_async] call in a node's children()/children_async() passes the same `context=` /
    `tag=` keywords as the node's render method (a loader may pick the template by its load
    context)"""
    obs = []
    mod = load.get_module("liquid.static_analysis")
    for fname in ("analyze", "analyze_async"):
        fn = mod.funcs[fname]
        for inner in ast.walk(fn):
            if isinstance(inner, (ast.FunctionDef, ast.AsyncFunctionDef)) and inner.name == "_visit":
                pushes = [c_.lineno for c_ in flow.calls(inner) if isinstance(c_.func, ast.Attribute) and c_.func.attr == "push" and flow.dotted(c_.func.value) == "root_scope"]
                pops = [c_.lineno for c_ in flow.calls(inner) if flow.dotted(c_.func) == "partial_scope.pop"]
                rets = [r_.lineno for r_ in ast.walk(inner) if isinstance(r_, ast.Return)]
                bad = [r_ for r_ in rets if pushes and pops and min(pushes) < r_ < max(pops)]
                obs.append(flow.ob(f"{fname}._visit:no-return-between-pushing-and-popping-the-partials-scope", bool(pushes) and bool(pops) and not bad, f"push@{pushes} pop@{pops} returns@{rets}", replay_schema="code", replay_extra={"code": REPLAY_SCOPE_LEAK}))
    n = 0
    for m in load.all_modules():
        for cname, cnode in load.get_module(m).classes.items():
            render = {f.name: f for f in cnode.body if isinstance(f, (ast.FunctionDef, ast.AsyncFunctionDef))}
            for meth, rmeth in (("children", "render_to_output"), ("children_async", "render_to_output_async")):
                if meth not in render or rmeth not in render:
                    continue
                def kws(f):
                    return [sorted(k.arg for k in c_.keywords if k.arg) for c_ in flow.calls(f) if isinstance(c_.func, ast.Attribute) and c_.func.attr in ("get_template", "get_template_async")]
                ck, rk = kws(render[meth]), kws(render[rmeth])
                if not ck or not rk:
                    continue
                n += 1
                want = set(rk[0])
                obs.append(flow.ob(f"{cname}.{meth}:loads-the-partial-with-the-same-keywords-as-{rmeth}", all(set(k) == want for k in ck), f"{meth}: {ck}; {rmeth}: {rk}", replay_schema="code", replay_extra={"code": REPLAY_LOAD_CONTEXT}))
    obs.append(flow.ob("partial-loading-nodes-found", n >= 2, f"{n}"))
    return obs


REPLAY_SCOPE_LEAK = r'''
def run(m):
    import asyncio
    from liquid import Environment, DictLoader
    env = Environment(loader=DictLoader({"rec": "{% if depth %}{% include 'rec', title: 'x' %}{% endif %}{{ title }}"}))
    t = env.from_string("{% include 'rec', title: 'top' %}{{ title }}")
    bad = []
    for an in (t.analyze(), asyncio.run(t.analyze_async())):
        if "title" not in an.globals:
            bad.append(sorted(an.globals))
    return {"violated": bool(bad), "observed": bad, "witness": "argument-name-left-in-scope-after-a-recursive-include"}
'''

REPLAY_LOAD_CONTEXT = r'''
def run(m):
    import asyncio
    from liquid import Environment
    from liquid.loader import BaseLoader, TemplateSource
    class L(BaseLoader):
        def get_source(self, env, template_name, *, context=None, **kwargs):
            tag = kwargs.get("tag")
            return TemplateSource("{{ in_render }}" if tag == "render" else "{{ elsewhere }}", template_name, None)
    env = Environment(loader=L())
    t = env.from_string("{% render 'p' %}")
    a, b = t.analyze(), asyncio.run(t.analyze_async())
    return {"violated": sorted(a.variables) != sorted(b.variables) or "in_render" not in a.variables, "observed": [sorted(a.variables), sorted(b.variables)], "witness": "analysis-loads-another-template-than-rendering"}
'''
