"""C19 -- static analysis reports everything a render can touch.

Local completeness per node class (found mechanically): every expression-valued field a
render method may evaluate is produced by expressions(); every node field it may render is
produced by children().  The traversal (analyze._visit) is covered by the bounded check."""
import ast

from pyvc import flow, load
from pyvc.run import bounded, not_covered, structural


def node_classes():
    out = []
    for m, cname, cnode in flow.iter_classes():
        names = [c[1] for c in load.mro(m, cname)]
        if "Node" in names[1:]:
            out.append((m, cname, cnode))
    return out


def self_fields(node, attr_calls):
    """names X such that `self.X` (possibly through iteration / attribute chains) is the
    receiver root of a call to one of `attr_calls` inside `node`"""
    fields = set()
    # local aliases: `for arg in self.args`, `x = self.y`, comprehension targets
    alias = {}
    for n in ast.walk(node):
        if isinstance(n, (ast.For, ast.AsyncFor, ast.comprehension)):
            src = n.iter
            root = src
            while isinstance(root, (ast.Attribute, ast.Subscript, ast.Call)):
                root = root.func if isinstance(root, ast.Call) else root.value
            fld = None
            cur = src
            while isinstance(cur, (ast.Attribute, ast.Subscript, ast.Call)):
                if isinstance(cur, ast.Attribute) and isinstance(cur.value, ast.Name) and cur.value.id == "self":
                    fld = cur.attr
                cur = cur.func if isinstance(cur, ast.Call) else cur.value
            if fld:
                for t in ast.walk(n.target):
                    if isinstance(t, ast.Name):
                        alias[t.id] = fld
        if isinstance(n, ast.Assign) and len(n.targets) == 1 and isinstance(n.targets[0], ast.Name):
            cur = n.value
            while isinstance(cur, (ast.Attribute, ast.Subscript)):
                if isinstance(cur, ast.Attribute) and isinstance(cur.value, ast.Name) and cur.value.id == "self":
                    alias[n.targets[0].id] = cur.attr
                cur = cur.value
    for n in ast.walk(node):
        if isinstance(n, ast.Call) and isinstance(n.func, ast.Attribute) and n.func.attr in attr_calls:
            cur = n.func.value
            while isinstance(cur, (ast.Attribute, ast.Subscript)):
                if isinstance(cur, ast.Attribute) and isinstance(cur.value, ast.Name) and cur.value.id == "self":
                    fields.add(cur.attr)
                    break
                cur = cur.value
            else:
                if isinstance(cur, ast.Name) and cur.id in alias:
                    fields.add(alias[cur.id])
    return fields


def yielded_fields(fn):
    """fields of self mentioned in what the meta method yields/returns"""
    out = set()
    for n in ast.walk(fn):
        if isinstance(n, (ast.Yield, ast.YieldFrom, ast.Return)) and n.value is not None:
            for a in ast.walk(n.value):
                if isinstance(a, ast.Attribute) and isinstance(a.value, ast.Name) and a.value.id == "self":
                    out.add(a.attr)
        if isinstance(n, ast.Call) and isinstance(n.func, ast.Attribute) and n.func.attr in ("append", "extend"):
            for a in ast.walk(n):
                if isinstance(a, ast.Attribute) and isinstance(a.value, ast.Name) and a.value.id == "self":
                    out.add(a.attr)
    # aliases through loops inside the meta method
    for n in ast.walk(fn):
        if isinstance(n, (ast.For, ast.comprehension)):
            for a in ast.walk(n.iter):
                if isinstance(a, ast.Attribute) and isinstance(a.value, ast.Name) and a.value.id == "self":
                    out.add(a.attr)
    return out


@structural("C19", "local-completeness")
def local_completeness():
    obs = []
    n = 0
    for m, cname, cnode in node_classes():
        renders = [s for s in cnode.body if isinstance(s, (ast.FunctionDef, ast.AsyncFunctionDef)) and s.name in ("render_to_output", "render_to_output_async")]
        if not renders:
            continue
        n += 1
        evaluated = set()
        rendered = set()
        for fn in renders:
            evaluated |= self_fields(fn, ("evaluate", "evaluate_async"))
            rendered |= self_fields(fn, ("render", "render_async"))
        # helper methods of the same class called from render (e.g. macro_args) that read fields
        ex = load.find_method(m, cname, "expressions")
        ch = load.find_method(m, cname, "children")
        ex_fields = yielded_fields(ex[2]) if ex else set()
        ch_fields = yielded_fields(ch[2]) if ch else set()
        # expressions reachable through other expressions count (e.g. self.expression covers its parts)
        # a field that is itself a child node (e.g. IfNode.alternatives) reports its own expressions
        miss_e = sorted(f for f in evaluated if f not in ex_fields and f not in ch_fields)
        miss_c = sorted(f for f in rendered if f not in ch_fields)
        obs.append(flow.ob(f"{cname}:every-evaluated-expression-field-is-reported-by-expressions()", not miss_e, f"{m}: evaluated {sorted(evaluated)}, expressions() mentions {sorted(ex_fields)}; missing {miss_e}", replay_schema="code", replay_extra={"code": REPLAY}))
        obs.append(flow.ob(f"{cname}:every-rendered-node-field-is-reported-by-children()", not miss_c, f"{m}: rendered {sorted(rendered)}, children() mentions {sorted(ch_fields)}; missing {miss_c}", replay_schema="code", replay_extra={"code": REPLAY}))
    obs.append(flow.ob("node-classes-with-render-methods", n >= 4, f"{n} classes"))
    return obs


GUARD_OK = ("self.", "include_partials", "template", "isinstance(self.")


def _presence_test(test):
    """`self.X`, `self.X is not None`, `isinstance(self.X, T)`, `include_partials`, a local"""
    if isinstance(test, ast.Attribute) and isinstance(test.value, ast.Name):
        return True   # self.X, or item.value for the item of a comprehension over a field
    if isinstance(test, ast.Name):
        return True
    if isinstance(test, ast.Compare) and len(test.ops) == 1 and isinstance(test.ops[0], ast.IsNot) and isinstance(test.comparators[0], ast.Constant) and test.comparators[0].value is None:
        return _presence_test(test.left)
    if isinstance(test, ast.Call) and flow.dotted(test.func) == "isinstance" and _presence_test(test.args[0]):
        return True
    return False


@structural("C19", "meta-guards")
def meta_guards():
    """children()/expressions() report a field under no condition other than that the field is
    present (the render methods use it whenever it is present); the partial's bound-variable
    name is in scope exactly when render binds it (a with/for variable was given)"""
    obs = []
    n = 0
    for m in load.all_modules():
        mod = load.get_module(m)
        for cname, cnode in mod.classes.items():
            for fn in [x for x in cnode.body if isinstance(x, (ast.FunctionDef, ast.AsyncFunctionDef)) and x.name in ("children", "expressions")]:
                tests = [t.test for t in ast.walk(fn) if isinstance(t, (ast.If, ast.IfExp))] + [i for c in ast.walk(fn) if isinstance(c, ast.comprehension) for i in c.ifs]
                bad = [flow.dotted(t)[:60] for t in tests if not _presence_test(t)]
                if tests:
                    n += 1
                    obs.append(flow.ob(f"{cname}.{fn.name}:reports-a-field-whenever-it-is-present", not bad, str(bad), replay_schema="code", replay_extra={"code": REPLAY_GUARD}))
    obs.append(flow.ob("guarded-meta-methods-found", n >= 4, f"{n}"))
    for m, cname in (("liquid.builtin.tags.render_tag", "RenderNode"), ("liquid.builtin.tags.include_tag", "IncludeNode")):
        ps = load.find_method(m, cname, "partial_scope")[2]
        pm = flow.parents(ps)
        apps = [c for c in flow.calls(ps) if flow.dotted(c.func) == "scope.append"]
        ok = bool(apps)
        for a in apps:
            guards = [flow.dotted(i.test) for i in flow.enclosing(pm, a, (ast.If,))]
            ok = ok and any(g in ("self.var", "self.var is not None") for g in guards)
        rt = load.find_method(m, cname, "render_to_output")[2]
        binds = [flow.dotted(i.test) for i in ast.walk(rt) if isinstance(i, ast.If) and "self.var" in flow.dotted(i.test)]
        obs.append(flow.ob(f"{cname}.partial_scope:the-bound-variable-name-is-in-scope-only-when-a-variable-is-bound", ok and bool(binds), f"appends guarded by self.var: {ok}; render binds under {binds[:2]}", replay_schema="code", replay_extra={"code": REPLAY_GUARD}))
    return obs


@structural("C19", "traversal-shape")
def traversal_shape():
    """both _visit variants record tags, variables, filters and template-scope names before any
    early return, and the only early return is the 'same partial, same key' one"""
    obs = []
    mod = load.get_module("liquid.static_analysis")
    for outer in ("analyze", "analyze_async"):
        fn = mod.funcs[outer]
        visit = [n for n in ast.walk(fn) if isinstance(n, (ast.FunctionDef, ast.AsyncFunctionDef)) and n.name == "_visit"][0]
        rets = [r for r in ast.walk(visit) if isinstance(r, ast.Return)]
        pm = flow.parents(visit)
        shapes = []
        for r in rets:
            iff = flow.enclosing(pm, r, (ast.If,))
            shapes.append(flow.dotted(iff[0].test) if iff else "?")
        # a partial may only be skipped when its scope cannot differ from the first visit
        # (isolated scope, same argument names) or when it is being visited right now
        ok = len(shapes) == 1 and shapes[0].startswith("partial.key in seen[partial_name] and (") and "PartialScope.ISOLATED" in shapes[0] and "in active" in shapes[0]
        obs.append(flow.ob(f"{outer}._visit:only-early-return-is-same-partial-same-key", ok, str(shapes), replay_schema="code", replay_extra={"code": REPLAY}))
        src = ast.unparse(visit)
        order_ok = src.index("node.expressions()") < src.index("node.template_scope()") < src.index("node.partial_scope()") < src.index("return")
        obs.append(flow.ob(f"{outer}._visit:records-expressions-and-locals-before-descending", order_ok, ""))
    return obs


# ---- _analyze_variables: every Path reference is recorded as a variable, and as a global exactly
# ---- when its root name is not in scope; every child expression is analysed, inside the scope
# ---- the expression opens (lambda parameters) and not beyond it

import z3  # noqa: E402

from contracts.common import *  # noqa: F403,E402
from pyvc.contract import contract  # noqa: E402
from pyvc.state import *  # noqa: F403,E402
from pyvc.u import *  # noqa: F403,E402

SA = "liquid.static_analysis"


@contract(f"{SA}:_analyze_variables", prop="C19", name="_analyze_variables[Path reference]")
def analyze_path(c):
    in_scope = c.bool("root_in_scope")
    root = c.str("root_name")
    tok = c.obj("liquid.token:Token", "token", start_index=c.int("start_index"), kind=const("word"), value=root, source=c.str("source"))
    expr = c.obj("liquid.builtin.expressions.path:Path", "path", token=tok, path=c.st.alloc(HList(items=[root, c.str("segment1")])))
    scope = c.obj(f"{SA}:_StaticScope", "scope")
    globs = c.obj(f"{SA}:_VariableMap", "globals")
    variables = c.obj(f"{SA}:_VariableMap", "variables")

    def add(eng, st, a, k):
        st.log.append(("add", a[0], a[1]))
        # whatever add() returns (None today) must not decide whether the global is recorded
        return [(st.fork(), NONE), (st.fork(), VBool(z3.BoolVal(True))), (st.fork(), VBool(z3.BoolVal(False)))]

    def contains(eng, st, a, k):
        st.log.append(("scope-test", box(a[1])))
        return [(st, VBool(in_scope.t))]
    c.summary(f"{SA}:_VariableMap.add", add)
    c.summary(f"{SA}:_StaticScope.__contains__", contains)
    c.summary("liquid.builtin.expressions.path:Path.children", lambda eng, st, a, k: [(st, st.alloc(HList(items=[])))])
    c.summary("liquid.builtin.expressions.path:Path.scope", lambda eng, st, a, k: [(st, st.alloc(HList(items=[])))])
    c.summary("liquid.expression:Expression.scope", lambda eng, st, a, k: [(st, st.alloc(HList(items=[])))])
    c.call(expr, c.str("template_name"), scope, globs, variables)

    def post(r):
        adds = [e for e in r.st.log if e[0] == "add"]
        to_vars = [e for e in adds if e[1] == variables]
        to_globs = [e for e in adds if e[1] == globs]
        tests = [e for e in r.st.log if e[0] == "scope-test"]
        ok_shape = len(to_vars) == 1 and len(to_globs) <= 1 and len(tests) == 1 and (not to_globs or to_globs[0][2] == to_vars[0][2])
        if not ok_shape:
            return z3.BoolVal(False)
        return z3.And(tests[0][1] == U.str(root.t), z3.BoolVal(bool(to_globs)) == z3.Not(in_scope.t))
    c.ensures("a-path-is-recorded-as-a-variable-and-as-a-global-exactly-when-its-root-is-out-of-scope", post)
    c.raises()
    c.replay("code", code=REPLAY)


def _analyze_children(opens_scope):
    @contract(f"{SA}:_analyze_variables", prop="C19", name=f"_analyze_variables[children, expression {'opens a scope' if opens_scope else 'opens no scope'}]")
    def ac(c):
        kids = [c.obj("liquid.expression:Expression", f"child{i}") for i in range(2)]
        expr = c.obj("liquid.expression:Expression", "expr")
        scope = c.obj(f"{SA}:_StaticScope", "scope", stack=c.st.alloc(HList(items=[c.st.alloc(HList(items=[]))])))
        globs = c.obj(f"{SA}:_VariableMap", "globals")
        variables = c.obj(f"{SA}:_VariableMap", "variables")
        names = c.st.alloc(HList(items=[c.str("param")])) if opens_scope else c.st.alloc(HList(items=[]))
        c.summary("liquid.expression:Expression.children", lambda eng, st, a, k: [(st, st.alloc(HList(items=list(kids))))])
        c.summary("liquid.expression:Expression.scope", lambda eng, st, a, k: [(st, names)])

        top = []

        def rec(eng, st, a, k):
            if a[0] == expr and not top:
                top.append(1)
                return None   # the call under contract itself
            depth = len(st.deref(st.deref(scope).fields["stack"]).items)
            st.log.append(("analysed", a[0], depth, a[2], a[3], a[4]))
            return [(st, NONE)]
        c.summary(f"{SA}:_analyze_variables", rec)
        c.summary("builtin:set", lambda eng, st, a, k: [(st, a[0])])
        c.call(expr, c.str("template_name"), scope, globs, variables)
        want_depth = 2 if opens_scope else 1

        def post(r):
            seen = [e for e in r.st.log if e[0] == "analysed"]
            ok = [e[1] for e in seen] == kids and all(e[2] == want_depth and e[3] == scope and e[4] == globs and e[5] == variables for e in seen)
            return z3.BoolVal(ok and len(r.st.deref(r.st.deref(scope).fields["stack"]).items) == 1)
        c.ensures("every-child-is-analysed-inside-the-scope-the-expression-opens-and-the-scope-is-closed-again", post)
        c.raises()
        c.replay("code", code=REPLAY)


for _os in (True, False):
    _analyze_children(_os)


# ---- the analysis has a synchronous and an asynchronous entry point; the obligations of this file
# ---- are read off the synchronous code, so the asynchronous traversal must be congruent to it
from contracts.twins import pair_obligations  # noqa: E402


@structural("C19", "async-analysis-is-the-sync-analysis")
def async_twin():
    return pair_obligations(lambda m: m == "liquid.static_analysis", min_pairs=1, replay=REPLAY)


not_covered("C19", "dynamic partial names (the analysis evaluates them statically by design)", "names bound into namespaces vs block_scope()/template_scope() (bounded check)",
            "the ghost-scope obligation on the partial de-duplication (first visit's scope must be contained in later visits' scope) is decided by the bounded dynamic-reads check")

bounded("C19", "bounded/C19.py")

REPLAY_GUARD = r'''
def run(m):
    from liquid import DictLoader, Environment
    env = Environment(loader=DictLoader({"product": "{{ product }}"}))
    a = env.from_string("{% render 'product' %}{% for x in y %}{% else %}{% assign z = fallback | upcase %}{% endfor %}").analyze()
    g = sorted(a.globals)
    return {"violated": g != ["fallback", "product", "y"], "observed": g}
'''


REPLAY = r'''
def run(m):
    from bounded.C19 import run as brun
    r = brun("quick", 0)
    v = r["violations"]
    return {"failing": bool(v), "witness": v[0]["witness"] if v else "analysis", "call": v[0]["source"] if v else "template sweep", "result": v[0]["got"] if v else "ok"}
'''
