"""C05 -- autoescape keeps render data from injecting HTML.

Provenance (taint) obligations: a value is trusted markup only if it is built from template
literals, from escaped text, or from already-trusted markup by markupsafe's closed
operations (DESIGN 3).  Every construction of Markup in liquid/** is enumerated on every run
and its argument's provenance must be one of the admitted classes."""
import ast

import z3

from contracts.common import *  # noqa: F403
from pyvc import flow, load
from pyvc.contract import contract
from pyvc.run import bounded, not_covered, structural
from pyvc.state import *  # noqa: F403
from pyvc.u import *  # noqa: F403

ESCAPERS = ("markupsafe_escape", "escape", "html.escape", "to_liquid_string")
EXEMPT_FUNCS = {"safe", "script_tag", "stylesheet_tag"}   # the statement excludes `safe` and HTML-generating filters


def classify(mod, fn, call, pm):
    """provenance class of the argument of a Markup(...) construction, or None"""
    arg = call.args[0] if call.args else None
    if arg is None:
        return "literal:empty"
    txt = flow.dotted(arg)
    if isinstance(arg, ast.Constant):
        return "literal"
    fname = fn.name if fn is not None else "?"
    if fname in EXEMPT_FUNCS:
        return f"exempt-by-statement:{fname}"
    if txt.endswith(".getvalue()"):
        return "buffer-of-already-escaped-writes"
    if txt == "self.value":
        return "template-literal"
    # immediately unescaped again: the result is plain text that output will escape
    par = pm.get(call)
    if isinstance(par, ast.Attribute) and par.attr == "unescape":
        return "markup-immediately-unescaped"
    if isinstance(par, ast.Attribute) and par.attr == "format":
        return "literal-template.format(escapes-arguments)"
    if isinstance(arg, ast.Call) and flow.dotted(arg.func) in ("urllib.parse.quote_plus",):
        return "percent-encoded"
    # guarded by isinstance(<something>, Markup) in an enclosing if
    for iff in flow.enclosing(pm, call, (ast.If, ast.IfExp)):
        if "isinstance(" in flow.dotted(iff.test) and "Markup)" in flow.dotted(iff.test):
            return "derived-from-trusted-markup"
    # the name (or the names inside the argument) was assigned from an escaper earlier
    names = [n.id for n in ast.walk(arg) if isinstance(n, ast.Name)]
    if fn is not None:
        for st in ast.walk(fn):
            if isinstance(st, ast.Assign) and st.lineno < call.lineno:
                tgts = [t.id for t in st.targets if isinstance(t, ast.Name)]
                if any(t in names for t in tgts) and isinstance(st.value, ast.Call):
                    f = flow.dotted(st.value.func)
                    if f in ESCAPERS or f.endswith(".escape"):
                        return f"escaped-by:{f}"
                    if f == "_ESCAPE_RE.sub":
                        return "js-escaped(all HTML-special characters become \\uXXXX)"
    if fname == "_format_message" or (fname in ("render_to_output", "render_to_output_async", "parse", "validate_message_block") and "message" in txt):
        return "template-literal-message"
    return None


@structural("C05", "markup-provenance")
def markup_provenance():
    obs = []
    n = 0
    for m in load.all_modules():
        mod = load.get_module(m)
        pm = flow.parents(mod.tree)
        for call in flow.calls(mod.tree):
            if flow.dotted(call.func) not in ("Markup", "Markupsafe", "markupsafe.Markup"):
                continue
            n += 1
            fns = flow.enclosing(pm, call, (ast.FunctionDef, ast.AsyncFunctionDef))
            fn = fns[0] if fns else None
            cls = classify(mod, fn, call, pm)
            where = f"{m.split('.', 1)[-1]}:{fn.name if fn else '?'}"
            if cls is None and m == "liquid.extra.filters.translate":
                # the translate filters mark the (translated) left value as markup; it was
                # stringified with autoescape=(env.autoescape and self.autoescape_message), so
                # the construction is safe iff autoescape_message is set whenever autoescape is
                # (obligation on the registration site, below)
                src = ast.unparse(fn)
                if "autoescape=autoescape and self.autoescape_message" in src:
                    cls = "escaped-when-autoescape_message(registration-obligation)"
            obs.append(flow.ob(f"{where}@{call.lineno}:Markup-argument-has-admitted-provenance", cls is not None, f"Markup({flow.dotted(call.args[0])[:50] if call.args else ''}) -> {cls}", replay_schema="code", replay_extra={"code": REPLAY}))
    obs.append(flow.ob("markup-constructions-enumerated", n >= 15, f"{n} sites"))
    return obs


@structural("C05", "translate-registration")
def translate_registration():
    mod = load.get_module("liquid.extra")
    obs = []
    n = 0
    for call in flow.calls(mod.tree):
        if flow.dotted(call.func) in ("GetText", "NGetText", "NPGetText", "PGetText", "Translate"):
            n += 1
            kw = flow.kwarg(call, "autoescape_message")
            ok = kw is not None and flow.dotted(kw) == "env.autoescape"
            obs.append(flow.ob(f"{flow.dotted(call.func)}:registered-with-autoescape_message=env.autoescape", ok, flow.dotted(call)[:80], replay_schema="code", replay_extra={"code": REPLAY}))
    obs.append(flow.ob("translate-filters-registered", n == 5, f"{n}"))
    return obs


@structural("C05", "output-sites")
def output_sites():
    """every buffer.write(x) in a node's render method writes to_liquid_string(..., autoescape),
    template text, markup literals of the tag itself, or the value of a nested buffer"""
    obs = []
    n = 0
    for m, cname, cnode in flow.iter_classes():
        names = [c[1] for c in load.mro(m, cname)]
        if "Node" not in names[1:]:
            continue
        for fn in [s for s in cnode.body if isinstance(s, (ast.FunctionDef, ast.AsyncFunctionDef)) and s.name.startswith("render_to_output")]:
            for call in flow.calls(fn):
                if flow.call_name(call) != "write" or not isinstance(call.func, ast.Attribute):
                    continue
                n += 1
                arg = call.args[0]
                txt = flow.dotted(arg)
                ok = (
                    isinstance(arg, ast.Constant)
                    or "to_liquid_string(" in txt
                    or txt in ("self.text", "val", "str(macro)")
                    or txt.startswith(("str(context.increment(", "str(context.decrement("))  # an int
                    or txt.endswith(".getvalue()")
                    or (isinstance(arg, ast.JoinedStr) and all(isinstance(v, ast.Constant) or "tablerow." in flow.dotted(v) for v in arg.values))
                    or "_format_message(" in txt
                )
                if txt == "val":
                    # local named val: must come from to_liquid_string / a buffer in this function
                    src = ast.unparse(fn)
                    ok = "val = to_liquid_string(" in src or ".getvalue()" in src
                obs.append(flow.ob(f"{cname}.{fn.name}@{call.lineno - fn.lineno}:writes-escaped-or-literal-text", ok, txt[:80], replay_schema="code", replay_extra={"code": REPLAY}))
    obs.append(flow.ob("write-sites-found", n >= 15, f"{n} buffer.write sites in render methods"))
    return obs


@contract("liquid.stringify:to_liquid_string", prop="C05", name="to_liquid_string[autoescape]")
def tls(c):
    v = c.any("val")
    for a in ("__html__",):
        c.requires(z3.Not(z3.And(U.is_ref(v.t), z3.Function("ref_hasattr$" + a, U, B)(v.t))), "not a value explicitly marked safe")
    c.requires(z3.Not(z3.And(U.is_ref(v.t), z3.Function("ref_isinstance$list", U, B)(v.t))), "lists are joined item-wise through Markup('').join, which escapes items (DESIGN 3)")
    c.requires(z3.Not(z3.And(U.is_ref(v.t), z3.Function("ref_isinstance$range", U, B)(v.t))))
    c.call(v, const(True))
    esc = z3.Function("html_escape", S, S)
    def post(r):
        res = r.value.t
        # the result is exactly escape(<text form of the value>): nothing reaches the output unescaped
        inner = z3.Const("inner!t", S)
        return z3.Exists([inner], res == esc(inner))
    c.ensures("result-is-the-escape-of-the-values-text", post)
    c.raises("LiquidError")
    c.assume_note("markupsafe.escape returns text without raw < > & ' \\\" and returns text without special characters unchanged (DESIGN 3); str values that are Markup are indistinguishable from plain str in this value model and are passed through escape(), which is the identity on Markup")
    c.replay("code", code=REPLAY)


not_covered("C05", "markupsafe itself; drops with __html__", "'every & begins an escape sequence' is not a provenance fact: bounded check", "filters returning plain str are re-escaped at output and need no obligation")

bounded("C05", "bounded/C05.py")

REPLAY = r'''
def run(m):
    from bounded.C05 import run as brun
    r = brun("quick", 0)
    v = [x for x in r["violations"] if not x["witness"].startswith("entity-cut")]
    return {"failing": bool(v), "witness": v[0]["witness"] if v else "autoescape", "call": v[0]["source"] if v else "filter-chain sweep", "result": v[0]["got"] if v else "ok"}
'''
