"""C05 -- autoescape keeps render data from injecting HTML.

Provenance (taint) obligations: a value is trusted markup only if it is built from template
literals, from escaped text, or from already-trusted markup by markupsafe's closed
operations (DESIGN 3).  Every construction of Markup in liquid/** is enumerated on every run
and its argument's provenance must be one of the admitted classes."""
import ast

import z3

from contracts.common import *  # noqa: F403
from pyvc import flow, load
from pyvc.contract import contract
from pyvc.run import bounded, not_covered, structural
from pyvc.state import *  # noqa: F403
from pyvc.u import *  # noqa: F403

ESCAPERS = ("markupsafe_escape", "escape", "html.escape", "to_liquid_string")
EXEMPT_FUNCS = {"safe", "script_tag", "stylesheet_tag"}   # the statement excludes `safe` and HTML-generating filters


def classify(mod, fn, call, pm):
    """provenance class of the argument of a Markup(...) construction, or None"""
    arg = call.args[0] if call.args else None
    if arg is None:
        return "literal:empty"
    txt = flow.dotted(arg)
    if isinstance(arg, ast.Constant):
        return "literal"
    fname = fn.name if fn is not None else "?"
    if fname in EXEMPT_FUNCS:
        return f"exempt-by-statement:{fname}"
    if txt.endswith(".getvalue()"):
        return "buffer-of-already-escaped-writes"
    if txt == "self.value":
        return "template-literal"
    # immediately unescaped again: the result is plain text that output will escape
    par = pm.get(call)
    if isinstance(par, ast.Attribute) and par.attr == "unescape":
        return "markup-immediately-unescaped"
    if isinstance(par, ast.Attribute) and par.attr == "format":
        return "literal-template.format(escapes-arguments)"
    if isinstance(arg, ast.Call) and flow.dotted(arg.func) in ("urllib.parse.quote_plus",):
        return "percent-encoded"
    # guarded by isinstance(X, Markup) in an enclosing if: admitted only when the argument is a
    # safety-preserving transformation of that X (tags removed with entities kept; a trusted
    # strftime format; escaped values substituted into a trusted message)
    for iff in flow.enclosing(pm, call, (ast.If, ast.IfExp)):
        for t in ast.walk(iff.test):
            if isinstance(t, ast.Call) and flow.dotted(t.func) == "isinstance" and len(t.args) == 2 and flow.dotted(t.args[1]) == "Markup" and isinstance(t.args[0], ast.Name):
                x = t.args[0].id
                src = arg
                if isinstance(arg, ast.Name) and fn is not None:
                    defs = [st.value for st in ast.walk(fn) if isinstance(st, ast.Assign) and st.lineno < call.lineno and any(isinstance(tg, ast.Name) and tg.id == arg.id for tg in st.targets)]
                    src = defs[-1] if defs else arg
                d = flow.dotted(src)
                if d == f"strip_tags({x})":
                    return "trusted-markup-with-tags-removed(entities kept)"
                if isinstance(src, ast.Call) and flow.dotted(src.func).endswith(".strftime") and [flow.dotted(a) for a in src.args] == [x]:
                    return "strftime-of-a-trusted-format"
                if isinstance(src, ast.Call) and flow.dotted(src.func) == "self.re_vars.sub" and len(src.args) == 2 and flow.dotted(src.args[1]) == x and "_vars[" in flow.dotted(src.args[0]):
                    return "escaped-values-substituted-into-a-trusted-message"
                return None
    # the name (or the names inside the argument) was assigned from an escaper earlier
    names = [n.id for n in ast.walk(arg) if isinstance(n, ast.Name)]
    if fn is not None:
        for st in ast.walk(fn):
            if isinstance(st, ast.Assign) and st.lineno < call.lineno:
                tgts = [t.id for t in st.targets if isinstance(t, ast.Name)]
                if any(t in names for t in tgts) and isinstance(st.value, ast.Call):
                    f = flow.dotted(st.value.func)
                    if f in ESCAPERS or f.endswith(".escape"):
                        return f"escaped-by:{f}"
                    if f == "_ESCAPE_RE.sub":
                        return "js-escaped(all HTML-special characters become \\uXXXX)"
    if fname == "_format_message" or (fname in ("render_to_output", "render_to_output_async", "parse", "validate_message_block") and "message" in txt):
        return "template-literal-message"
    return None


@structural("C05", "markup-provenance")
def markup_provenance():
    obs = []
    n = 0
    for m in load.all_modules():
        mod = load.get_module(m)
        pm = flow.parents(mod.tree)
        for call in flow.calls(mod.tree):
            if flow.dotted(call.func) not in ("Markup", "Markupsafe", "markupsafe.Markup"):
                continue
            n += 1
            fns = flow.enclosing(pm, call, (ast.FunctionDef, ast.AsyncFunctionDef))
            fn = fns[0] if fns else None
            cls = classify(mod, fn, call, pm)
            where = f"{m.split('.', 1)[-1]}:{fn.name if fn else '?'}"
            if cls is None and m == "liquid.extra.filters.translate":
                # the translate filters mark the (translated) left value as markup; it was
                # stringified with autoescape=(env.autoescape and self.autoescape_message), so
                # the construction is safe iff autoescape_message is set whenever autoescape is
                # (obligation on the registration site, below)
                src = ast.unparse(fn)
                if "autoescape=autoescape and self.autoescape_message" in src:
                    cls = "escaped-when-autoescape_message(registration-obligation)"
            obs.append(flow.ob(f"{where}@{call.lineno}:Markup-argument-has-admitted-provenance", cls is not None, f"Markup({flow.dotted(call.args[0])[:50] if call.args else ''}) -> {cls}", replay_schema="code", replay_extra={"code": REPLAY}))
    obs.append(flow.ob("markup-constructions-enumerated", n >= 5, f"{n} sites"))
    return obs


FLAGS = ("context.autoescape", "context.env.autoescape", "environment.autoescape", "env.autoescape", "self.env.autoescape")


def _flag_through_constructor(pm, call, txt):
    """`self.<attr>` counts as the environment's flag when the enclosing class stores a constructor
    parameter in it and EVERY construction site of the class passes the flag itself for that
    parameter (one hop through a small helper object, e.g. the translate tag's message variables)"""
    if not txt.startswith("self.") or txt.count(".") != 1:
        return False
    attr = txt.split(".")[1]
    classes = flow.enclosing(pm, call, (ast.ClassDef,))
    if not classes:
        return False
    cls = classes[0]
    init = load._last_def(cls.body, "__init__")
    if init is None:
        return False
    stores = [st for st in ast.walk(init) if isinstance(st, ast.Assign) and any(flow.dotted(t) == f"self.{attr}" for t in st.targets)]
    params = [a.arg for a in init.args.posonlyargs + init.args.args + init.args.kwonlyargs]
    if len(stores) != 1 or not isinstance(stores[0].value, ast.Name) or stores[0].value.id not in params:
        return False
    if any(isinstance(st, (ast.Assign, ast.AugAssign)) and any(flow.dotted(t) == f"self.{attr}" for t in (st.targets if isinstance(st, ast.Assign) else [st.target])) for f_ in cls.body if isinstance(f_, (ast.FunctionDef, ast.AsyncFunctionDef)) and f_.name != "__init__" for st in ast.walk(f_)):
        return False
    param = stores[0].value.id
    pos = (init.args.posonlyargs + init.args.args)
    index = [a.arg for a in pos].index(param) - 1 if param in [a.arg for a in pos] else None
    sites = 0
    for m2 in load.all_modules():
        mod2 = load.get_module(m2)
        pm2 = None
        for c2 in flow.calls(mod2.tree):
            if flow.dotted(c2.func) != cls.name:
                continue
            sites += 1
            arg = flow.kwarg(c2, param)
            if arg is None and index is not None and len(c2.args) > index:
                arg = c2.args[index]
            if arg is None:
                return False
            pm2 = pm2 or flow.parents(mod2.tree)
            fns2 = flow.enclosing(pm2, c2, (ast.FunctionDef, ast.AsyncFunctionDef))
            local2 = {t.id for st in ast.walk(fns2[0]) if isinstance(st, ast.Assign) and flow.dotted(st.value) in FLAGS for t in st.targets if isinstance(t, ast.Name)} if fns2 else set()
            if flow.dotted(arg) not in FLAGS and flow.dotted(arg) not in local2:
                return False
    return sites >= 1


@structural("C05", "autoescape-flag-propagation")
def flag_propagation():
    """every stringification for output receives the environment's autoescape flag itself;
    only the translate filters' MESSAGE arguments (developer text) may AND it with
    autoescape_message; to_liquid_string has no default for the flag"""
    obs = []
    tls = load.get_module("liquid.stringify").funcs["to_liquid_string"]
    obs.append(flow.ob("to_liquid_string:autoescape-has-no-default", not tls.args.defaults and not any(d is not None for d in tls.args.kw_defaults), ast.unparse(tls.args), replay_schema="code", replay_extra={"code": REPLAY_FLAG}))
    n = 0
    for m in load.all_modules():
        mod = load.get_module(m)
        pm = flow.parents(mod.tree)
        for call in flow.calls(mod.tree):
            if flow.dotted(call.func) != "to_liquid_string":
                continue
            n += 1
            fns = flow.enclosing(pm, call, (ast.FunctionDef, ast.AsyncFunctionDef))
            fn = fns[0] if fns else None
            flag = call.args[1] if len(call.args) > 1 else flow.kwarg(call, "autoescape")
            txt = flow.dotted(flag) if flag is not None else "<missing>"
            local = set()
            if fn is not None:
                local = {t.id for st in ast.walk(fn) if isinstance(st, ast.Assign) and flow.dotted(st.value) in FLAGS for t in st.targets if isinstance(t, ast.Name)}
            plain = txt in FLAGS or txt in local or _flag_through_constructor(pm, call, txt)
            message_arg = m == "liquid.extra.filters.translate" and fn is not None and fn.name == "__call__" and any(txt == f"{l} and self.autoescape_message" for l in local | set(FLAGS))
            obs.append(flow.ob(f"{m.split('.', 1)[-1]}:{fn.name if fn else '?'}@{call.lineno}:stringified-with-the-environments-autoescape-flag", plain or message_arg, f"autoescape={txt}", replay_schema="code", replay_extra={"code": REPLAY_FLAG}))
    obs.append(flow.ob("stringification-sites-found", n >= 5, f"{n} to_liquid_string call sites"))
    return obs


@structural("C05", "translate-registration")
def translate_registration():
    mod = load.get_module("liquid.extra")
    obs = []
    n = 0
    for call in flow.calls(mod.tree):
        if flow.dotted(call.func) in ("GetText", "NGetText", "NPGetText", "PGetText", "Translate"):
            n += 1
            kw = flow.kwarg(call, "autoescape_message")
            ok = kw is not None and flow.dotted(kw) == "env.autoescape"
            obs.append(flow.ob(f"{flow.dotted(call.func)}:registered-with-autoescape_message=env.autoescape", ok, flow.dotted(call)[:80], replay_schema="code", replay_extra={"code": REPLAY}))
    obs.append(flow.ob("translate-filters-registered", n == 5, f"{n}"))
    return obs


@structural("C05", "output-sites")
def output_sites():
    """every buffer.write(x) in a node's render method writes to_liquid_string(..., autoescape),
    template text, markup literals of the tag itself, or the value of a nested buffer"""
    obs = []
    n = 0
    for m, cname, cnode in flow.iter_classes():
        names = [c[1] for c in load.mro(m, cname)]
        if "Node" not in names[1:]:
            continue
        for fn in [s for s in cnode.body if isinstance(s, (ast.FunctionDef, ast.AsyncFunctionDef)) and s.name.startswith("render_to_output")]:
            for call in flow.calls(fn):
                if flow.call_name(call) != "write" or not isinstance(call.func, ast.Attribute):
                    continue
                n += 1
                arg = call.args[0]
                txt = flow.dotted(arg)
                ok = (
                    isinstance(arg, ast.Constant)
                    or "to_liquid_string(" in txt
                    or txt in ("self.text", "val", "str(macro)")
                    or txt.startswith(("str(context.increment(", "str(context.decrement("))  # an int
                    or txt.endswith(".getvalue()")
                    or (isinstance(arg, ast.JoinedStr) and all(isinstance(v, ast.Constant) or "tablerow." in flow.dotted(v) for v in arg.values))
                    or "_format_message(" in txt
                )
                if txt == "val":
                    # local named val: must come from to_liquid_string / a buffer in this function
                    src = ast.unparse(fn)
                    ok = "val = to_liquid_string(" in src or ".getvalue()" in src
                obs.append(flow.ob(f"{cname}.{fn.name}@{call.lineno - fn.lineno}:writes-escaped-or-literal-text", ok, txt[:80], replay_schema="code", replay_extra={"code": REPLAY}))
    obs.append(flow.ob("write-sites-found", n >= 5, f"{n} buffer.write sites in render methods"))
    return obs


@contract("liquid.stringify:to_liquid_string", prop="C05", name="to_liquid_string[autoescape]")
def tls(c):
    v = c.any("val")
    for a in ("__html__",):
        c.requires(z3.Not(z3.And(U.is_ref(v.t), z3.Function("ref_hasattr$" + a, U, B)(v.t))), "not a value explicitly marked safe")
    c.requires(z3.Not(z3.And(U.is_ref(v.t), z3.Function("ref_isinstance$list", U, B)(v.t))), "lists are joined item-wise through Markup('').join, which escapes items (DESIGN 3)")
    c.requires(z3.Not(z3.And(U.is_ref(v.t), z3.Function("ref_isinstance$range", U, B)(v.t))))
    c.call(v, const(True))
    esc = z3.Function("html_escape", S, S)
    def post(r):
        res = r.value.t
        # the result is exactly escape(<text form of the value>): nothing reaches the output unescaped
        inner = z3.Const("inner!t", S)
        return z3.Exists([inner], res == esc(inner))
    c.ensures("result-is-the-escape-of-the-values-text", post)
    c.raises("LiquidError")
    c.assume_note("markupsafe.escape returns text without raw < > & ' \\\" and returns text without special characters unchanged (DESIGN 3); str values that are Markup are indistinguishable from plain str in this value model and are passed through escape(), which is the identity on Markup")
    c.replay("code", code=REPLAY)


REPLAY_FLAG = r'''
def run(m):
    import asyncio
    from liquid import Environment
    from liquid.extra.filters.translate import Translate
    env = Environment(autoescape=True)
    env.add_filter("t", Translate())
    out = [env.from_string("{{ 'hi %(u)s' | t: u: u }}").render(u="<b>"),
           asyncio.run(env.from_string("{% cycle u, u %}").render_async(u="<b>"))]
    return {"violated": any("<b>" in o for o in out), "observed": out}
'''

# ---- capture keeps what it captured safe: under autoescape the captured text (already escaped
# ---- writes and safe values written unchanged) is assigned as Markup, so that "values marked
# ---- safe are output unchanged" survives {% capture %}; without autoescape it is a plain string

for _sfx in ("", "_async"):
    for _ae in (True, False):
        def _mkcap(sfx, ae):
            @contract("liquid.builtin.tags.capture_tag:CaptureNode.render_to_output" + sfx, prop="C05", name=f"CaptureNode.render_to_output{sfx}[autoescape={ae}]")
            def cap(c):
                env = mk_env(c)
                ctx = mk_ctx(c, env, autoescape=VBool(z3.BoolVal(ae)))
                block = c.obj("liquid.ast:BlockNode", "block")
                name = c.obj("liquid.builtin.expressions.primitive:Identifier", "name")
                self = c.obj("liquid.builtin.tags.capture_tag:CaptureNode", "capture", name=name, block=block, token=NONE)
                captured = c.str("captured_text")
                inner = c.obj("io:StringIO", "capture_buffer", __text__=VStr(z3.StringVal("")))

                def get_buffer(eng, st, a, k):
                    return [(st, inner)]

                def render(eng, st, a, k):
                    # the block writes some text into the buffer it is given
                    st.log.append(("block-rendered-into", a[2]))
                    st.deref(a[2]).fields["__text__"] = captured
                    return [(st, VInt(z3.Int("n_chars")))]

                def markup(eng, st, a, k):
                    st.log.append(("Markup", box(a[0])))
                    return [(st, a[0])]

                def assign(eng, st, a, k):
                    st.log.append(("assign", a[1], box(a[2])))
                    return [(st, NONE)]
                c.summary(CTX + ".get_buffer", get_buffer)
                c.summary("liquid.ast:BlockNode.render" + sfx, render)
                c.summary("liquid.ast:Node.render" + sfx, render)
                c.summary("builtin:markupsafe.Markup", markup)
                c.summary(CTX + ".assign", assign)
                c.call(ctx, c.obj("io:StringIO", "buffer", __text__=c.str("out")), self_val=self)

                def post(r):
                    assigns = [e for e in r.st.log if e[0] == "assign"]
                    marks = [e for e in r.st.log if e[0] == "Markup"]
                    into = [e for e in r.st.log if e[0] == "block-rendered-into"]
                    if len(assigns) != 1 or into != [("block-rendered-into", inner)] or assigns[0][1] != name:
                        return z3.BoolVal(False)
                    val = assigns[0][2]
                    if ae:
                        return z3.And(z3.BoolVal(len(marks) == 1), val == U.str(captured.t), *([marks[0][1] == U.str(captured.t)] if marks else []))
                    return z3.And(z3.BoolVal(not marks), val == U.str(captured.t))
                c.ensures("captured-text-is-assigned-as-Markup-exactly-under-autoescape", post)
                c.raises()
                c.replay("code", code=REPLAY_CAPTURE)
        _mkcap(_sfx, _ae)

REPLAY_CAPTURE = r'''
def run(m):
    import asyncio
    from markupsafe import Markup
    from liquid import Environment
    t = Environment(autoescape=True).from_string("{% capture c %}{{ safe }}|{{ unsafe }}{% endcapture %}{{ c }}")
    want = "<b>ok</b>|&lt;i&gt;"
    out = [t.render(safe=Markup("<b>ok</b>"), unsafe="<i>"), asyncio.run(t.render_async(safe=Markup("<b>ok</b>"), unsafe="<i>"))]
    return {"violated": out != [want, want], "observed": out, "witness": "capture-loses-markup"}
'''


not_covered("C05", "markupsafe itself; drops with __html__", "'every & begins an escape sequence' is not a provenance fact: bounded check", "filters returning plain str are re-escaped at output and need no obligation")

bounded("C05", "bounded/C05.py")

REPLAY = r'''
def run(m):
    from bounded.C05 import run as brun
    r = brun("quick", 0)
    v = [x for x in r["violations"] if not x["witness"].startswith("entity-cut")]
    return {"failing": bool(v), "witness": v[0]["witness"] if v else "autoescape", "call": v[0]["source"] if v else "filter-chain sweep", "result": v[0]["got"] if v else "ok"}
'''


@structural("C05", "safe-values-come-from-markupsafe-only")
def no_homemade_html_protocol():
    """`to_liquid_string` trusts any object that has `__html__`: inside liquid/** no class defines
    `__html__` (safe strings are markupsafe.Markup values whose constructions are enumerated by the
    provenance obligation) -- otherwise text assembled from render data would count as safe"""
    import ast
    from pyvc import flow, load
    defs = []
    for m in load.all_modules():
        for cname, cnode in load.get_module(m).classes.items():
            for f in cnode.body:
                if isinstance(f, (ast.FunctionDef, ast.AsyncFunctionDef)) and f.name == "__html__":
                    rets = [ast.unparse(r.value)[:50] for r in ast.walk(f) if isinstance(r, ast.Return) and r.value is not None]
                    ok = bool(rets) and all(r.startswith(("escape(", "Markup.escape(", "markupsafe.escape(")) for r in rets)
                    if not ok:
                        defs.append(f"{m}:{cname}.__html__ returns {rets}")
    return [flow.ob("no-class-of-the-library-declares-itself-safe-html-without-escaping", not defs, str(defs), replay_schema="code", replay_extra={"code": REPLAY_DEBUG_UNDEFINED})]


REPLAY_DEBUG_UNDEFINED = r'''
def run(m):
    from liquid import Environment, DebugUndefined
    env = Environment(autoescape=True, undefined=DebugUndefined)
    out = env.from_string("{{ page[key] }}|{{ nosuch }}").render(page={}, key="<script>x</script>")
    return {"violated": "<script>" in out, "observed": out, "witness": "debug-undefined-message-written-raw"}
'''


def implicit_env_param_obligation(param, replay_code):
    """the memo of get_implicit_environment covers `param` (functools cache over every keyword
    argument, or a hand-written key that names it), `param` is passed on to Environment(...), and
    Template() sets no attribute on the (shared) environment it gets back"""
    import ast
    from pyvc import flow, load
    mod = load.get_module("liquid.environment")
    fn = mod.funcs["get_implicit_environment"]
    params = [a.arg for a in fn.args.args + fn.args.kwonlyargs]
    decos = [ast.unparse(d) for d in fn.decorator_list]
    cached_on_all = any(d.startswith(("lru_cache", "functools.lru_cache", "cache", "functools.cache")) for d in decos)
    calls = [c_ for c_ in flow.calls(fn) if flow.dotted(c_.func) == "Environment"]
    forwarded = bool(calls) and all(flow.kwarg(c_, param) is not None and flow.dotted(flow.kwarg(c_, param)) == param for c_ in calls)
    hand_keys = [ast.unparse(st_.value) for st_ in ast.walk(fn) if isinstance(st_, ast.Assign) and any(flow.dotted(t) == "key" for t in st_.targets)]
    keyed = cached_on_all or any(param in k for k in hand_keys)
    tfn = mod.funcs.get("Template")
    sets = [ast.unparse(st_)[:60] for st_ in ast.walk(tfn) if isinstance(st_, (ast.Assign, ast.AugAssign)) and any(isinstance(t, ast.Attribute) and flow.dotted(t.value) == "env" for t in (st_.targets if isinstance(st_, ast.Assign) else [st_.target]))] if tfn is not None else []
    return [flow.ob(f"get_implicit_environment:{param}-is-a-parameter-part-of-the-memo-key-and-forwarded", param in params and keyed and forwarded and not sets, f"decorators={decos}; hand-written keys={[k[:80] for k in hand_keys]}; forwarded={forwarded}; Template() sets {sets}", replay_schema="code", replay_extra={"code": replay_code})]


@structural("C05", "implicit-environments-are-keyed-on-autoescape")
def implicit_env_keyed_on_autoescape():
    """`Template(source, autoescape=True)` must not be served an environment created for
    autoescape=False"""
    return implicit_env_param_obligation("autoescape", REPLAY_TEMPLATE_AUTOESCAPE)


REPLAY_TEMPLATE_AUTOESCAPE = r'''
def run(m):
    from liquid import Template
    a = Template("{{ x }}", autoescape=False).render(x="<b>")
    b = Template("{{ x }}", autoescape=True).render(x="<b>")
    return {"violated": b != "&lt;b&gt;" or a != "<b>", "observed": [a, b], "witness": "autoescape-template-served-a-non-escaping-environment"}
'''
