"""C02 (continued) -- the escape lemma for the node layer.

For every Node class listed in NODES, `render_to_output` / `render_to_output_async` is executed
symbolically from its real source with every collaborator replaced by its contract: a
sub-expression evaluates to an arbitrary JSON-like value or fails with a Liquid error; a child
block/node renders or fails with a Liquid error or a loop interrupt; loading a template returns a
template or fails with a Liquid error.  RenderContext, the scope chain, the output buffer and the
loop helpers are the REAL code (inlined).  Obligation: whatever the node does in between -- type
tests, conversions, arithmetic, indexing, string formatting, bookkeeping -- no exception outside
the LiquidError family (and the loop interrupts, which the enclosing loop or template consumes)
reaches the caller, for every presence configuration of the node's optional parts."""
import ast
import itertools

import z3

from contracts.common import *  # noqa: F403
from pyvc import flow, load
from pyvc.contract import contract
from pyvc.state import *  # noqa: F403
from pyvc.u import *  # noqa: F403

EXP = "liquid.expression:Expression"
BLOCK = "liquid.ast:BlockNode"
LOOPX = "liquid.builtin.expressions.loop:LoopExpression"
ARGS = "liquid.builtin.expressions.arguments"


def _json_like(c, v):
    t = v.t
    for a in ("__liquid__", "__html__", "force_liquid_default", "__int__", "__index__"):
        c.requires(z3.Not(z3.And(U.is_ref(t), z3.Function("ref_hasattr$" + a, U, B)(t))), "plain data")
    c.requires(z3.Length(str_of_u(t)) > 0, "str() of a JSON-like non-string value is non-empty")
    for cls in ("list", "tuple", "range", "Undefined", "Markup", "Decimal", "IterableDrop", "Mapping", "BoundTemplate"):
        c.requires(z3.Not(z3.And(U.is_ref(t), z3.Function("ref_isinstance$" + cls, U, B)(t))), "a scalar or an opaque record (arrays are given as concrete spines where a node iterates them)")


import os as _os
import sys as _sys

THOROUGH = "thorough" in " ".join(_sys.argv) or _os.environ.get("VERIF_TIER") == "thorough"


class Build:
    """symbolic constructor arguments by annotation; each option is (label, value).  The quick
    tier takes the empty list only where the parameter is not optional-with-None as well (the
    empty and the absent configuration run the same code); the thorough tier takes every option."""

    def __init__(self, c):
        self.c = c
        self.n = 0

    def fresh(self, tag):
        self.n += 1
        return f"{tag}{self.n}"

    def expr(self, tag):
        v = self.c.any(self.fresh("value_of_" + tag + "_"))
        _json_like(self.c, v)
        return self.c.obj(EXP, tag, __value__=v, token=NONE)

    def block(self, tag):
        return self.c.obj(BLOCK, tag, blank=self.c.bool(self.fresh(tag + "_blank")), token=NONE, nodes=self.c.st.alloc(HList(items=[])))

    def array_expr(self, tag):
        items = [self.c.any(self.fresh(tag + "_item")) for _ in range(2)]
        for v in items:
            _json_like(self.c, v)
        return self.c.obj(EXP, tag, __value__=self.c.st.alloc(HList(items=list(items))), token=NONE)

    def token(self):
        return self.c.obj("liquid.token:Token", self.fresh("token"), kind=const("tag"), value=self.c.str(self.fresh("tag_name")), start_index=self.c.int(self.fresh("start_index")), source=self.c.str(self.fresh("source")))

    def loop_expr(self, tag):
        return [("cols=none", self.c.obj(LOOPX, tag, identifier=self.c.str(self.fresh("identifier")), cols=NONE, iterable=self.c.str(self.fresh("iterable_text")), token=NONE)),
                ("cols", self.c.obj(LOOPX, tag, identifier=self.c.str(self.fresh("identifier")), cols=self.expr(tag + "_cols"), iterable=self.c.str(self.fresh("iterable_text")), token=NONE))]

    def kwarg(self, tag):
        return self.c.obj(ARGS + ":KeywordArgument", tag, name=self.c.str(self.fresh(tag + "_name")), value=self.expr(tag + "_value"), token=NONE)

    def posarg(self, tag):
        return self.c.obj(ARGS + ":PositionalArgument", tag, value=self.expr(tag + "_value"), token=NONE)

    def cond_block(self, tag):
        return self.c.obj("liquid.ast:ConditionalBlockNode", tag, expression=self.expr(tag + "_test"), block=self.block(tag + "_body"), token=NONE, blank=self.c.bool(self.fresh(tag + "_blank")))

    def options(self, ann, name):
        a = (ann or "").replace(" ", "")
        c = self.c
        if a == "Token":
            return [("tok", self.token())]
        if a == "Expression":
            return [("x", self.expr(name))]
        if a == "_AnyExpression":
            # evaluates to one boolean per `when` alternative
            return [("x", c.obj(EXP, name, __value__=c.st.alloc(HList(items=[c.bool(self.fresh(name + "_match")), c.bool(self.fresh(name + "_match"))])), token=NONE))]
        if a == "Union[StringLiteral,Identifier]":
            return [("literal", c.obj("liquid.builtin.expressions.primitive:StringLiteral", name, value=c.str(self.fresh(name + "_text")), token=self.token())), ("identifier", c.str(self.fresh(name)))]
        if a == "dict[str,Parameter]":
            par = c.obj(ARGS + ":Parameter", name + "_param", name=c.str(self.fresh(name + "_pname")), value=NONE, token=NONE)
            return [("0", c.st.alloc(HDict(items={}))), ("1", c.st.alloc(HDict(items={"p": par})))]
        if a == "LoopExpression":
            return self.loop_expr(name)
        if a in ("BlockNode", "TemplateBlock"):
            return [("b", self.block(name))]
        if a == "Identifier" or a == "str":
            return [("s", c.str(self.fresh(name)))]
        if a == "bool":
            return [("b", c.bool(self.fresh(name)))]
        if a == "Optional[str]":
            return [("none", NONE), ("s", c.str(self.fresh(name)))]
        if a == "Optional[Identifier]":
            return [("none", NONE), ("s", c.str(self.fresh(name)))]
        if a == "Optional[Expression]":
            if name == "var":   # the bound variable of include/render: a scalar, a record, or an array
                return [("none", NONE), ("x", self.expr(name)), ("array", self.array_expr(name))]
            return [("none", NONE), ("x", self.expr(name))]
        if a == "Optional[BlockNode]":
            return [("none", NONE), ("b", self.block(name))]
        if a == "Optional[Token]":
            return [("none", NONE), ("tok", self.token())]
        if a == "list[Expression]":
            return [("0", c.st.alloc(HList(items=[]))), ("2", c.st.alloc(HList(items=[self.expr(name + "0"), self.expr(name + "1")])))]
        if a == "list[Node]":
            return [("0", c.st.alloc(HList(items=[]))), ("2", c.st.alloc(HList(items=[self.block(name + "0"), self.block(name + "1")])))]
        if a in ("list[KeywordArgument]", "Optional[list[KeywordArgument]]"):
            opts = [("0", c.st.alloc(HList(items=[]))), ("1", c.st.alloc(HList(items=[self.kwarg(name + "0")])))]
            if a.startswith("Optional") and not THOROUGH:
                opts = opts[1:]
            return ([("none", NONE)] if a.startswith("Optional") else []) + opts
        if a == "list[PositionalArgument]":
            return [("0", c.st.alloc(HList(items=[]))), ("1", c.st.alloc(HList(items=[self.posarg(name + "0")])))]
        if a in ("list[ConditionalBlockNode]", "Optional[list[ConditionalBlockNode]]"):
            opts = [("0", c.st.alloc(HList(items=[]))), ("1", c.st.alloc(HList(items=[self.cond_block(name + "0")])))]
            if a.startswith("Optional") and not THOROUGH:
                opts = opts[1:]
            return ([("none", NONE)] if a.startswith("Optional") else []) + opts
        if a == "list[Union[MultiExpressionBlockNode,BlockNode]]":
            when = c.obj("liquid.builtin.tags.case_tag:MultiExpressionBlockNode", name + "_when", block=self.block(name + "_when_body"), expression=self.expr(name + "_when_test"), token=NONE, blank=c.bool(self.fresh(name + "_when_blank")))
            return [("0", c.st.alloc(HList(items=[]))), ("2", c.st.alloc(HList(items=[when, self.block(name + "_else")])))]
        if a == "dict[str,KeywordArgument]":
            # the translate tag's arguments: none, or a count and a message context
            return [("0", c.st.alloc(HDict(items={}))), ("2", c.st.alloc(HDict(items={"count": self.kwarg(name + "_count"), "context": self.kwarg(name + "_context")})))]
        if a == "MessageBlock":
            return [("m", c.obj("liquid.extra.tags.translate_tag:MessageBlock", name, text=c.str(self.fresh(name + "_text")), vars=c.st.alloc(HList(items=[])), token=NONE, block=self.block(name + "_b")))]
        if a == "Optional[MessageBlock]":
            return [("none", NONE)] + self.options("MessageBlock", name)
        return None


LIQUID_OUTCOMES = ("LiquidSyntaxError", "LiquidTypeError", "UndefinedError")
INTERRUPTS = ("BreakLoop", "ContinueLoop")


def node_escape_contract(m, cname, sfx, prop="C02"):
    init = load.find_method(m, cname, "__init__")
    params = [(a.arg, ast.unparse(a.annotation) if a.annotation else None) for a in (init[2].args.args[1:] + init[2].args.kwonlyargs)]

    @contract(f"{m}:{cname}.render_to_output{sfx}", prop=prop, name=f"{cname}.render_to_output{sfx}[only Liquid errors escape]")
    def esc(c):
        std_globals(c)
        c.eager_generators = True
        c.unroll_iterators = 3
        b = Build(c)
        opts = []
        for pn, ann in params:
            o = b.options(ann, pn)
            if o is None:
                raise Unsupported(f"no symbolic value for {cname}.__init__({pn}: {ann})")
            opts.append([(pn, lab, v) for lab, v in o])
        env = mk_env(c, undefined=VClass("liquid.undefined", "Undefined"), mode=VConst(("enum", "Mode", "STRICT")))
        c.requires(c.st.deref(env).fields["context_depth_limit"].t >= 8, "context depth limit not reached")
        this_template = c.obj(TEMPLATE, "template", env=env, name=c.str("template_name"), path=NONE)
        ctx = mk_ctx(c, env, loops=c.st.alloc(HList(items=[])), template=this_template)
        cnt = c.st.deref(c.st.deref(ctx).fields["counters"])
        kq = z3.Const("k!cnt", U)
        c.requires(z3.ForAll([kq], z3.And(U.is_int(z3.Select(cnt.val, kq)), U.i(z3.Select(cnt.val, kq)) < 2**62, U.i(z3.Select(cnt.val, kq)) > -(2**62))), "RenderContext invariant: increment/decrement counters are ints (moved by one per tag: below 2**62 in magnitude)")
        cyc = c.st.deref(c.st.deref(c.st.deref(ctx).fields["tag_namespace"]).items["cycles"])
        c.requires(z3.ForAll([kq], z3.And(U.is_int(z3.Select(cyc.val, kq)), U.i(z3.Select(cyc.val, kq)) >= 0)), "RenderContext invariant: cycle positions are non-negative ints (only context.cycle writes them)")
        tmpl = c.obj(TEMPLATE, "loaded_template", name=c.str("loaded_name"), env=env, path=NONE)

        def outcomes(st, normal, classes):
            outs = [(st.fork(), normal(st))]
            for cls in classes:
                outs.append((st.fork(), Raised(VExc(cls, (const(cls),)))))
            return outs

        def ev(eng, st, a, k):
            return outcomes(st, lambda s: s.deref(a[0]).fields.get("__value__", VU(z3.Const(f"value_{len(st.log)}", U))), LIQUID_OUTCOMES)

        def loop_ev(eng, st, a, k):
            # the visited items: a spine of 0 or 2 arbitrary items (the loop helpers are the real code)
            st.log.append(("loop-eval",))
            outs = []
            for n_items in (0, 2):
                s = st.fork()
                items = [VU(z3.Const(f"loop_item_{len(st.log)}_{j}", U)) for j in range(n_items)]
                outs.append((s, VTuple((s.alloc(HCIter(items)), const(n_items)))))
            for cls in LIQUID_OUTCOMES:
                outs.append((st.fork(), Raised(VExc(cls, (const(cls),)))))
            return outs

        def render(eng, st, a, k):
            st.log.append(("render",))
            return outcomes(st, lambda s: VInt(z3.Int(f"chars_{len(st.log)}")), LIQUID_OUTCOMES + INTERRUPTS)

        def get_template(eng, st, a, k):
            return outcomes(st, lambda s: tmpl, ("TemplateNotFoundError", "LiquidSyntaxError"))
        for n_ in ("evaluate", "evaluate_async"):
            c.summary(f"{EXP}.{n_}", ev)
            c.summary(f"{LOOPX}.{n_}", loop_ev)
        for n_ in ("render", "render_async"):
            c.summary(f"{BLOCK}.{n_}", render)
            c.summary(f"liquid.ast:Node.{n_}", render)
            c.summary(f"liquid.ast:ConditionalBlockNode.{n_}", render)
            c.summary(f"liquid.builtin.tags.case_tag:MultiExpressionBlockNode.{n_}", render)
        for n_ in ("render_with_context", "render_with_context_async"):
            c.summary(f"{TEMPLATE}.{n_}", render)
        for n_ in ("get_template", "get_template_async"):
            c.summary(f"{ENV}.{n_}", get_template)
        c.summary(CTX + ".copy", lambda eng, st, a, k: outcomes(st, lambda s: ctx, ("ContextDepthError",)))
        # conversions that have their own raises contract in C02.py are summarised by it
        c.summary("liquid.builtin.tags.tablerow_tag:TablerowNode._int_or_zero", lambda eng, st, a, k: [(st, VInt(z3.Int(f"cols_{len(st.log)}")))])
        if cname == "TranslateNode":
            # the translations object (render data or the class default) is an arbitrary catalogue:
            # its gettext methods return some wellformed printf format (assumption, stated)
            tmod = load.get_module(m)
            stubs = {}
            for gname in ("gettext", "pgettext", "ngettext", "npgettext"):
                stubs[gname] = VFunc(ast.parse(f"def catalogue_{gname}(*a): pass").body[0], tmod, None, f"catalogue_{gname}", None)

                def message(eng, st, a, k, gname=gname):
                    t = z3.String(f"message_{gname}_{len(st.log)}")
                    st.assume(z3.Function("printf_wellformed", S, B)(t))
                    st.log.append(("catalogue", gname))
                    return [(st, VStr(t))]
                c.summary(f"{m}:catalogue_{gname}", message)
            catalogue = c.obj("gettext:NullTranslations", "translations", **stubs)
            c.summary(f"{m}:TranslateNode.resolve_translations", lambda eng, st, a, k: outcomes(st, lambda s: catalogue, ("LiquidTypeError",)))
            # message variables are arbitrary values of the scope: to_liquid_string by its own contract
            c.summary("liquid.stringify:to_liquid_string", lambda eng, st, a, k: outcomes(st, lambda s: VStr(z3.String(f"liquid_string_{len(st.log)}")), ("LiquidValueError",)))
            c.assume_note("the message catalogue returns wellformed printf formats (literal text, %%, %(name)s); resolve_translations returns a catalogue or raises LiquidTypeError (bounded check: translations=5)")
        buf = c.obj("io:StringIO", "buffer", __text__=c.str("out"))

        def entry(eng, cc, func):
            outs = []
            for combo in itertools.product(*opts):
                base = cc.st.fork()
                args, kwargs = [], {}
                a_ = init[2].args
                pos_names = [x.arg for x in a_.args[1:]]
                for pn, _lab, v in combo:
                    if pn in pos_names:
                        args.append(v)
                    else:
                        kwargs[pn] = v
                for s0, node in eng.instantiate(base, VClass(m, cname), args, kwargs):
                    if isinstance(node, Raised):
                        raise Unsupported(f"{cname} could not be constructed from the symbolic arguments: {node.exc.cls}")
                    s0.deref(node).name = cname + ":" + ",".join(f"{pn}={lab}" for pn, lab, _v in combo)
                    outs.extend(eng.call_function(s0, func, [ctx, buf], {}, self_val=node))
            return outs
        c.entry = entry
        c.raises("LiquidError", "LiquidInterrupt")
        c.ensures("completes", lambda r: z3.BoolVal(True))
        c.assume_note("sub-expressions evaluate to arbitrary JSON-like values or raise a Liquid error; child blocks render or raise a Liquid error or a loop interrupt; templates load or raise a Liquid error; context.copy returns a context or raises ContextDepthError (its own contracts: C15/C06/C09)")
        c.crosscheck(off=True)
        c.replay("code", code=REPLAY_NODES)
    return esc


REPLAY_NODES = r'''
def run(m):
    from bounded.C02 import run_templates, POOL
    bad = run_templates(dict(POOL), limit=1)
    return {"failing": bool(bad), "witness": bad[0]["witness"] if bad else "only-liquid-errors", "call": bad[0]["source"] if bad else "tag x hostile value sweep", "result": bad[0]["got"] if bad else "ok"}
'''


def all_node_classes():
    out = []
    for m, cname, cnode in flow.iter_classes():
        names = [c_[1] for c_ in load.mro(m, cname)]
        if "Node" in names[1:] and load._last_def(cnode.body, "render_to_output") is not None and load.find_method(m, cname, "__init__") is not None:
            out.append((m, cname))
    return out


# node classes whose render method is outside the executor's reach, with the reason; they stay
# covered by the bounded fuzz (and by their own contracts under other properties)
NOT_REACHED = {
    ("liquid.extra.tags.extends_tag", "BlockNode"): "block stacks in tag_namespace['extends'] (C18 has its contracts)",
    ("liquid.extra.tags.extends_tag", "ExtendsNode"): "builds the block stacks of the whole inheritance chain (set(), nested closures): has its own escape contract in C02.py (C18's harness, failing callees)",
    ("liquid.extra.tags.macro_tag", "CallNode"): "binds arguments through macro_args (C27/C15 have its contracts)",
}


def register(prop="C02"):
    n = 0
    for m, cname in all_node_classes():
        if (m, cname) in NOT_REACHED:
            continue
        for sfx in ("", "_async"):
            if load._last_def(load.get_module(m).classes[cname].body, "render_to_output" + sfx) is not None:
                node_escape_contract(m, cname, sfx, prop=prop)
                n += 1
    return n
