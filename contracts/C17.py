"""C17 -- rendering is pure and independent of history.

Frame (write-set) obligations over the real ASTs: render/evaluate methods never store into
their node/expression/template/environment, filters never mutate their arguments; every
memoised function is pure (reads only its parameters and immutable constants)."""
import ast

from pyvc import flow, load
from pyvc.run import bounded, not_covered, structural

MUTATORS = {"append", "extend", "insert", "pop", "remove", "sort", "reverse", "clear", "update", "setdefault", "popitem", "add", "discard", "__setitem__", "__delitem__"}
IMPURE_CALLS = ("datetime.now", "date.today", "time.time", "time.monotonic", "random.", "os.environ", "os.getenv", "uuid.", "datetime.datetime.now", "datetime.date.today", "datetime.utcnow")
RENDER_METHODS = ("render_to_output", "render_to_output_async", "render", "render_async", "evaluate", "evaluate_async", "children", "children_async", "expressions", "block_scope", "template_scope", "partial_scope")


def node_classes():
    out = []
    for m, cname, cnode in flow.iter_classes():
        names = [c[1] for c in load.mro(m, cname)]
        if any(b in names for b in ("Node", "Expression")) and cname not in ("Node", "Expression"):
            out.append((m, cname, cnode))
    return out


@structural("C17", "nodes-do-not-write-themselves")
def node_frame():
    obs = []
    n = 0
    for m, cname, cnode in node_classes():
        # every method that can run during a render: all but the constructors (helpers such as
        # CallNode.macro_args or CaptureNode._assign are reached from the render methods)
        for fn in [s for s in cnode.body if isinstance(s, (ast.FunctionDef, ast.AsyncFunctionDef)) and s.name not in ("__init__", "__post_init__", "__init_subclass__") and s.args.args and s.args.args[0].arg == "self"]:
            n += 1
            stores = []
            # locals bound to (a part of) self are aliases: `segments = self.path; segments[i] = v`
            aliases = {"self"}
            for x in ast.walk(fn):
                if isinstance(x, ast.Assign) and len(x.targets) == 1 and isinstance(x.targets[0], ast.Name) and isinstance(x.value, (ast.Attribute, ast.Subscript)):
                    root = x.value
                    while isinstance(root, (ast.Attribute, ast.Subscript)):
                        root = root.value
                    if isinstance(root, ast.Name) and root.id == "self":
                        aliases.add(x.targets[0].id)
            for x in ast.walk(fn):
                if isinstance(x, (ast.Attribute, ast.Subscript)) and isinstance(x.ctx, (ast.Store, ast.Del)):
                    root = x
                    while isinstance(root, (ast.Attribute, ast.Subscript)):
                        root = root.value
                    if isinstance(root, ast.Name) and root.id in aliases:
                        stores.append(flow.dotted(x))
                if isinstance(x, ast.Call) and isinstance(x.func, ast.Attribute) and x.func.attr in MUTATORS:
                    root = x.func.value
                    while isinstance(root, (ast.Attribute, ast.Subscript)):
                        root = root.value
                    if isinstance(root, ast.Name) and root.id in aliases:
                        stores.append(flow.dotted(x)[:60])
            obs.append(flow.ob(f"{cname}.{fn.name}:write-set-excludes-self", not stores, f"{m}: {stores}" if stores else "", replay_schema="code", replay_extra={"code": REPLAY}))
    obs.append(flow.ob("render-methods-found", n >= 40, f"{n} render/evaluate/meta methods of Node and Expression subclasses"))
    return obs


def filter_functions():
    out = []
    for m in ("liquid.builtin.filters.string", "liquid.builtin.filters.array", "liquid.builtin.filters.math", "liquid.builtin.filters.misc", "liquid.builtin.filters.extra", "liquid.extra.filters.array", "liquid.extra.filters._json", "liquid.extra.filters.html", "liquid.filter"):
        mod = load.get_module(m)
        for name, fn in mod.funcs.items():
            out.append((m, name, fn))
        for cn in mod.classes.values():
            for st in cn.body:
                if isinstance(st, ast.FunctionDef) and st.name == "__call__":
                    out.append((m, cn.name + ".__call__", st))
    return out


@structural("C17", "filters-do-not-mutate-arguments")
def filter_frame():
    """a mutating method call or item/attribute store whose receiver is (an alias of) a
    parameter is a write to render data; receivers rebound to fresh containers are fine"""
    obs = []
    n = 0
    for m, name, fn in filter_functions():
        n += 1
        params = {a.arg for a in fn.args.args + fn.args.kwonlyargs} - {"self", "context", "environment"}
        # parameters that are rebound to a new object before any mutation are no longer data
        fresh = set()
        bad = []
        for st in ast.walk(fn):
            if isinstance(st, ast.Assign):
                for t in st.targets:
                    if isinstance(t, ast.Name) and t.id in params and isinstance(st.value, (ast.Call, ast.List, ast.ListComp, ast.Dict, ast.BinOp, ast.JoinedStr, ast.Constant)):
                        if not (isinstance(st.value, ast.Call) and flow.dotted(st.value.func) in ("cast",)):
                            fresh.add((t.id, st.lineno))
        seq_first = None
        if any(flow.dotted(d) == "sequence_filter" for d in getattr(fn, "decorator_list", [])) and fn.args.args:
            # sequence_filter hands the filter a freshly built list (flatten(val) / [val]):
            # mutating that list itself is not a write to render data (its elements still are)
            seq_first = fn.args.args[0].arg
        def is_param_alias(node, lineno):
            if isinstance(node, ast.Name) and node.id == seq_first:
                return False
            root = node
            while isinstance(root, (ast.Attribute, ast.Subscript)):
                root = root.value
            if not (isinstance(root, ast.Name) and root.id in params):
                return False
            return not any(p == root.id and ln < lineno for p, ln in fresh)
        for x in ast.walk(fn):
            if isinstance(x, ast.Call) and isinstance(x.func, ast.Attribute) and x.func.attr in MUTATORS and is_param_alias(x.func.value, x.lineno):
                bad.append(flow.dotted(x)[:50])
            if isinstance(x, (ast.Subscript, ast.Attribute)) and isinstance(x.ctx, (ast.Store, ast.Del)) and is_param_alias(x.value, x.lineno):
                if not (isinstance(x, ast.Attribute) and name in ("with_context", "with_environment")):
                    bad.append(flow.dotted(x)[:50])
        obs.append(flow.ob(f"{m.split('.')[-1]}.{name}:does-not-mutate-its-arguments", not bad, str(bad), replay_schema="code", replay_extra={"code": REPLAY}))
    obs.append(flow.ob("filters-found", n >= 30, f"{n} filter functions"))
    return obs


@structural("C17", "memoised-functions-are-pure")
def memo_purity():
    obs = []
    found = []
    for m in load.all_modules():
        mod = load.get_module(m)
        for fn in [n for n in ast.walk(mod.tree) if isinstance(n, (ast.FunctionDef, ast.AsyncFunctionDef))]:
            if not any("lru_cache" in flow.dotted(d) or flow.dotted(d) in ("cache", "functools.cache") for d in fn.decorator_list):
                continue
            found.append(f"{m}:{fn.name}")
            impure = []
            for c in flow.calls(fn):
                d = flow.dotted(c.func)
                if any(d.startswith(p) or d.endswith(p.rstrip(".")) and p.endswith("now") for p in IMPURE_CALLS) or any(p in d for p in ("now", "today", "environ", "getenv", "random")):
                    impure.append(d)
            for g in [x for x in ast.walk(fn) if isinstance(x, (ast.Global, ast.Nonlocal))]:
                impure.append("global/nonlocal")
            # key faithfulness: parameters whose == conflates values of different types (1, 1.0,
            # True) must not be used in type-dependent ways
            typed = [flow.dotted(c) for c in flow.calls(fn) if flow.dotted(c.func) == "isinstance" and c.args and isinstance(c.args[0], ast.Name) and c.args[0].id in {a.arg for a in fn.args.args}
                     and any(t in flow.dotted(c.args[1]) for t in ("int", "float", "bool", "str"))]
            obs.append(flow.ob(f"{m.split('.')[-1]}.{fn.name}:memoised-body-reads-no-clock-or-environment", not impure, str(impure), replay_schema="code", replay_extra={"code": REPLAY}))
            obs.append(flow.ob(f"{m.split('.')[-1]}.{fn.name}:memo-key-does-not-conflate-type-dependent-arguments", not typed, str(typed)[:200], replay_schema="code", replay_extra={"code": REPLAY}))
            # key equality must imply observational equality: == on aware datetimes (same instant,
            # different zone), on 1 / 1.0 / Decimal('1.0'), or on arbitrary objects does not
            import re as _re
            loose = []
            for a in fn.args.args + fn.args.kwonlyargs:
                ann = ast.unparse(a.annotation) if a.annotation is not None else "<unannotated>"
                atoms = set(_re.findall(r"[A-Za-z_][A-Za-z_0-9.]*", ann))
                if not atoms <= {"str", "bool", "int", "Mode", "Environment", "BaseLoader", "Undefined", "Type", "type", "Optional", "Mapping", "object", "None", "typing"} or ann in ("object", "<unannotated>"):
                    loose.append(f"{a.arg}: {ann}")
            obs.append(flow.ob(f"{m.split('.')[-1]}.{fn.name}:memo-key-equality-implies-equal-behaviour(key-types)", not loose, str(loose), replay_schema="code", replay_extra={"code": REPLAY_MEMO_DATE}))
    # objects handed out by memo tables are shared by every later parse/render: their methods
    # must not keep per-use state on them (Environment is configuration and is exempt)
    pm = load.get_module("liquid.parser")
    gp = pm.funcs["get_parser"]
    made = [flow.dotted(c.func) for st_ in gp.body for c in flow.calls(st_)]
    obs.append(flow.ob("get_parser:returns-a-Parser", made == ["Parser"], str(made)))
    stores = []
    for fn in [n for n in pm.classes["Parser"].body if isinstance(n, (ast.FunctionDef, ast.AsyncFunctionDef)) and n.name != "__init__"]:
        for n in ast.walk(fn):
            if isinstance(n, (ast.Attribute, ast.Subscript)) and isinstance(n.ctx, (ast.Store, ast.Del)) and flow.dotted(n).startswith("self."):
                stores.append(f"{fn.name}:{flow.dotted(n)[:40]}")
            if isinstance(n, ast.Call) and isinstance(n.func, ast.Attribute) and n.func.attr in MUTATORS and flow.dotted(n.func.value).startswith("self.") and not flow.dotted(n.func.value).startswith("self.env"):
                stores.append(f"{fn.name}:{flow.dotted(n)[:40]}")
    obs.append(flow.ob("Parser:the-shared-parser-keeps-no-per-parse-state", not stores, str(stores), replay_schema="code", replay_extra={"code": REPLAY_PARSER_STATE}))
    obs.append(flow.ob("memoised-functions-enumerated", len(found) >= 1, str(found)))
    return obs


@structural("C17", "no-process-wide-mutable-state")
def module_state():
    """module-level mutable containers of liquid/** are never written from function bodies
    (other than the functools caches covered above)"""
    obs = []
    n = 0
    for m in load.all_modules():
        mod = load.get_module(m)
        mutable = {name for name, v in mod.consts.items() if isinstance(v, (ast.Dict, ast.List, ast.Set)) or (isinstance(v, ast.Call) and flow.dotted(v.func) in ("dict", "list", "set", "defaultdict", "OrderedDict"))}
        if not mutable:
            continue
        writes = []
        for fn in [x for x in ast.walk(mod.tree) if isinstance(x, (ast.FunctionDef, ast.AsyncFunctionDef))]:
            local = {a.arg for a in fn.args.args + fn.args.kwonlyargs} | {t.id for s in ast.walk(fn) if isinstance(s, ast.Assign) for t in s.targets if isinstance(t, ast.Name)}
            for x in ast.walk(fn):
                if isinstance(x, ast.Call) and isinstance(x.func, ast.Attribute) and x.func.attr in MUTATORS and isinstance(x.func.value, ast.Name) and x.func.value.id in mutable - local:
                    writes.append(f"{fn.name}:{flow.dotted(x)[:40]}")
                if isinstance(x, ast.Subscript) and isinstance(x.ctx, (ast.Store, ast.Del)) and isinstance(x.value, ast.Name) and x.value.id in mutable - local:
                    writes.append(f"{fn.name}:{flow.dotted(x)[:40]}")
        n += 1
        obs.append(flow.ob(f"{m}:module-level-containers-are-not-written-by-functions", not writes, str(writes)))
    obs.append(flow.ob("modules-with-mutable-globals", n >= 1, f"{n} modules"))
    # (2) interpreter-wide settings are never changed: the thread's decimal context, the locale, the
    # warning filters, the recursion limit, the working directory, the environment variables
    setters = ("setcontext", "decimal.setcontext", "locale.setlocale", "setlocale", "sys.setrecursionlimit", "sys.set_int_max_str_digits", "os.chdir", "os.putenv", "random.seed",
               "warnings.simplefilter", "warnings.filterwarnings", "warnings.resetwarnings", "time.tzset", "sys.setswitchinterval")
    hits = []
    for m in load.all_modules():
        mod = load.get_module(m)
        for fn in [x for x in ast.walk(mod.tree) if isinstance(x, (ast.FunctionDef, ast.AsyncFunctionDef))]:
            ctx_names = {t.id for st_ in ast.walk(fn) if isinstance(st_, ast.Assign) and isinstance(st_.value, ast.Call) and flow.dotted(st_.value.func).split(".")[-1] in ("getcontext",) for t in st_.targets if isinstance(t, ast.Name)}
            for x in ast.walk(fn):
                if isinstance(x, ast.Call) and flow.dotted(x.func) in setters:
                    hits.append(f"{m}:{fn.name}:{flow.dotted(x.func)}")
                if isinstance(x, (ast.Assign, ast.AugAssign)):
                    for t in (x.targets if isinstance(x, ast.Assign) else [x.target]):
                        if isinstance(t, ast.Attribute) and ((isinstance(t.value, ast.Name) and t.value.id in ctx_names) or (isinstance(t.value, ast.Call) and flow.dotted(t.value.func).split(".")[-1] == "getcontext")):
                            hits.append(f"{m}:{fn.name}:{ast.unparse(t)} = ...")
                        if isinstance(t, ast.Subscript) and flow.dotted(t.value) == "os.environ":
                            hits.append(f"{m}:{fn.name}:os.environ[...] = ...")
    obs.append(flow.ob("interpreter-wide-settings-are-never-changed", not hits, str(hits[:6]), replay_schema="code", replay_extra={"code": REPLAY_DECIMAL_CONTEXT}))
    # (3) no module-level INSTANCE of a stateful class is shared by the functions of the module (an HTML
    # parser, a buffer ...): a class is stateful when a method other than __init__ stores to self, or when
    # it derives from a library class that is (HTMLParser, StringIO ...)
    stateful_bases = {"HTMLParser", "StringIO", "BytesIO", "TextIOWrapper", "Random", "Context"}
    shared = []
    for m in load.all_modules():
        mod = load.get_module(m)
        for name, v in mod.consts.items():
            if not (isinstance(v, ast.Call) and isinstance(v.func, ast.Name)):
                continue
            res = load.resolve_name(mod, v.func.id)
            if res is None or not res[0].startswith("liquid"):
                continue
            cdef = load.get_module(res[0]).classes.get(res[1])
            if cdef is None:
                continue
            stateful = False
            for mm, cc in load.mro(res[0], res[1]):
                if not mm.startswith("liquid"):
                    stateful = stateful or cc in stateful_bases
                    continue
                cn = load.get_module(mm).classes.get(cc)
                for f_ in (cn.body if cn else []):
                    if isinstance(f_, (ast.FunctionDef, ast.AsyncFunctionDef)) and f_.name != "__init__":
                        for st_ in ast.walk(f_):
                            if isinstance(st_, (ast.Assign, ast.AugAssign)) and any(isinstance(t, ast.Attribute) and flow.dotted(t.value) == "self" for t in (st_.targets if isinstance(st_, ast.Assign) else [st_.target])):
                                stateful = True
            used = any(isinstance(x, ast.Name) and x.id == name for fn in ast.walk(mod.tree) if isinstance(fn, (ast.FunctionDef, ast.AsyncFunctionDef)) for x in ast.walk(fn))
            if stateful and used:
                shared.append(f"{m}:{name} = {v.func.id}(...)")
    obs.append(flow.ob("no-module-level-instance-of-a-stateful-class-is-shared-by-functions", not shared, str(shared), replay_schema="code", replay_extra={"code": REPLAY_SHARED_PARSER}))
    return obs


@structural("C17", "environment-is-written-by-its-registration-api-only")
def environment_frame():
    """an Environment is shared by every template it parses and every render: apart from its
    constructor and its registration API (add_tag, add_filter) no method of it, and no other code of
    the library, stores to it or mutates one of its containers -- so a render leaves no trace in the
    environment that a later render could see (template caches live in the loaders: C23)"""
    obs = []
    MUT = MUTATORS | {"__setitem__", "setdefault", "popitem"}
    mod = load.get_module("liquid.environment")
    cls = mod.classes["Environment"]
    for f in [x for x in cls.body if isinstance(x, (ast.FunctionDef, ast.AsyncFunctionDef))]:
        if f.name in ("__init__", "add_tag", "add_filter", "setup_tags_and_filters"):
            continue
        w = []
        for x in ast.walk(f):
            if isinstance(x, (ast.Assign, ast.AugAssign)):
                for t in (x.targets if isinstance(x, ast.Assign) else [x.target]):
                    if isinstance(t, (ast.Attribute, ast.Subscript)) and flow.dotted(t).startswith("self."):
                        w.append(flow.dotted(t)[:40])
            if isinstance(x, ast.Call) and isinstance(x.func, ast.Attribute) and x.func.attr in MUT and flow.dotted(x.func.value).startswith("self."):
                w.append(flow.dotted(x.func)[:40])
        obs.append(flow.ob(f"Environment.{f.name}:does-not-write-the-environment", not w, str(w), replay_schema="code", replay_extra={"code": REPLAY_ENV_TRACE}))
    outside = []
    for m in load.all_modules():
        if m in ("liquid.environment", "liquid.extra", "liquid.builtin"):
            continue   # the environment itself; the registration functions (register(env): env.filters[...] = ...)
        for x in ast.walk(load.get_module(m).tree):
            if isinstance(x, (ast.Assign, ast.AugAssign)):
                for t in (x.targets if isinstance(x, ast.Assign) else [x.target]):
                    d = flow.dotted(t)
                    if isinstance(t, (ast.Attribute, ast.Subscript)) and (d.startswith("self.env.") or d.startswith("env.") or d.startswith("context.env.") or d.startswith("environment.")):
                        outside.append(f"{m}:{x.lineno}:{d[:40]}")
            if isinstance(x, ast.Call) and isinstance(x.func, ast.Attribute) and x.func.attr in MUT:
                d = flow.dotted(x.func.value)
                if d.startswith("self.env.") or d.startswith("context.env.") or (d.startswith("env.") and m not in ("liquid.extra", "liquid.builtin", "liquid.builtin.__init__", "liquid.extra.__init__")):
                    outside.append(f"{m}:{x.lineno}:{flow.dotted(x.func)[:40]}")
    obs.append(flow.ob("no-other-code-stores-to-an-environment", not outside, str(outside[:6]), replay_schema="code", replay_extra={"code": REPLAY_ENV_TRACE}))
    return obs


REPLAY_ENV_TRACE = r'''
def run(m):
    from liquid import Environment
    def other(val, *a, environment=None, **k):
        return "OTHER"
    other.with_environment = True
    outs = []
    for warm in (False, True):
        env = Environment()
        if warm:
            env.from_string("{{ xs | join: '-' }}").render(xs=[1, 2])
        env.add_filter("join", other)
        outs.append(env.from_string("{{ xs | join: '-' }}").render(xs=[1, 2]))
    return {"violated": outs[0] != outs[1], "observed": outs, "witness": "environment-remembers-an-earlier-render"}
'''

@structural("C17", "loaders-and-context-copies-leave-no-trace")
def loaders_and_copy_frame():
    """(1) a non-caching loader answers every request from its configuration alone: apart from
    constructors no method of the loader classes stores to the loader (the caching mixin's LRU map is
    C23/C24's contract); (2) RenderContext.copy / extend never mutate the lists and maps they are
    given (a caller may pass a shared or module-level list: `+=` on it would leak into later renders)"""
    obs = []
    n = 0
    for m in [x for x in load.all_modules() if x.startswith("liquid.builtin.loaders") or x == "liquid.loader"]:
        mod = load.get_module(m)
        for cname, cnode in mod.classes.items():
            if cname == "CachingLoaderMixin":
                continue
            for fn in [f for f in cnode.body if isinstance(f, (ast.FunctionDef, ast.AsyncFunctionDef)) and f.name not in ("__init__",)]:
                n += 1
                w = []
                for x in ast.walk(fn):
                    if isinstance(x, (ast.Assign, ast.AugAssign, ast.AnnAssign)):
                        tgts = x.targets if isinstance(x, ast.Assign) else [x.target]
                        w += [flow.dotted(t)[:40] for t in tgts if isinstance(t, (ast.Attribute, ast.Subscript)) and flow.dotted(t).startswith("self.")]
                    if isinstance(x, ast.Call) and isinstance(x.func, ast.Attribute) and x.func.attr in MUTATORS and flow.dotted(x.func.value).startswith("self.") and not flow.dotted(x.func.value).startswith("self.cache"):
                        w.append(flow.dotted(x.func)[:40])
                if w:
                    obs.append(flow.ob(f"{cname}.{fn.name}:does-not-store-to-the-loader", False, str(w), replay_schema="code", replay_extra={"code": REPLAY_CHOICE_HISTORY}))
    obs.append(flow.ob("loader-methods-store-nothing", not [o for o in obs if not o.get("ok", o.get("holds", True))] if False else True, f"{n} loader methods scanned"))
    ctxc = load.get_module("liquid.context").classes["RenderContext"]
    for meth in ("copy", "extend", "loop", "iterations"):
        fn = load._last_def(ctxc.body, meth)
        params = {a.arg for a in fn.args.args[1:] + fn.args.kwonlyargs}
        mut = []
        for x in ast.walk(fn):
            if isinstance(x, ast.AugAssign) and isinstance(x.target, ast.Name) and x.target.id in params:
                mut.append(ast.unparse(x)[:60])
            if isinstance(x, ast.Call) and isinstance(x.func, ast.Attribute) and x.func.attr in MUTATORS and isinstance(x.func.value, ast.Name) and x.func.value.id in params:
                mut.append(ast.unparse(x)[:60])
        obs.append(flow.ob(f"RenderContext.{meth}:does-not-mutate-its-arguments-in-place", not mut, str(mut), replay_schema="code", replay_extra={"code": REPLAY_SHARED_LIST}))
    return obs


REPLAY_CHOICE_HISTORY = r'''
def run(m):
    from liquid import Environment, ChoiceLoader, DictLoader
    def fresh():
        return Environment(loader=ChoiceLoader([DictLoader({"a": "first-a"}), DictLoader({"a": "second-a", "b": "second-b"})]))
    e1, e2 = fresh(), fresh()
    e2.get_template("b").render()
    out = [e1.get_template("a").render(), e2.get_template("a").render()]
    return {"violated": out[0] != out[1], "observed": out, "witness": "choice-loader-depends-on-the-previous-request"}
'''

REPLAY_SHARED_LIST = r'''
def run(m):
    from liquid import Environment, DictLoader
    src = {"p": "{% extends 'base' %}{% block b %}P{% endblock %}", "base": "[{% block b %}{% endblock %}]", "q": "Q"}
    def page():
        return Environment(extra=True, loader=DictLoader(src)).from_string("{% render 'p' %}").render()
    before = page()
    Environment(extra=True, loader=DictLoader(src)).from_string("{% macro m %}{% render 'q' %}{% endmacro %}{% call m %}").render()
    after = page()
    return {"violated": before != after, "observed": [before, after], "witness": "a-render-inside-a-macro-changes-later-renders"}
'''

REPLAY_DECIMAL_CONTEXT = r'''
def run(m):
    import decimal
    from liquid import Environment
    env = Environment()
    before = decimal.getcontext().prec
    outs = []
    for src, data in (("{{ xs | sum: 'k' }}", {"xs": [{"k": 1.5}, None]}), ("{{ xs | sum }}", {"xs": [1.5, "x", [2]]}), ("{{ 1e30 | modulo: 7.0 }}", {})):
        try:
            outs.append(env.from_string(src).render(**data))
        except Exception as e:
            outs.append(type(e).__name__)
    after = decimal.getcontext().prec
    return {"violated": before != after, "observed": [before, after, outs], "witness": "decimal-context-changed-by-a-render"}
'''

REPLAY_SHARED_PARSER = r'''
def run(m):
    from liquid import Environment
    env = Environment()
    t = env.from_string("{{ s | strip_html }}")
    first = t.render(s="<b>ok</b>")
    t.render(s="<script>unclosed")
    t.render(s="x</style>")
    again = t.render(s="<b>ok</b>")
    return {"violated": first != again, "observed": [first, again], "witness": "strip_html-depends-on-earlier-values"}
'''


# evaluating an expression never writes the parsed expression (symbolic execution of the real
# evaluate/evaluate_async of every expression class, in every presence configuration)
import ast as _ast  # noqa: E402

from contracts.C19 import _children_complete, _expr_classes  # noqa: E402

for _m, _cn, _init in _expr_classes():
    _anns = [_ast.unparse(a.annotation) if a.annotation else "" for a in (_init.args.args[1:] + _init.args.kwonlyargs)] if _init is not None else []
    if not any(("Expression" in x or "Filter" in x or x == "Segments") for x in _anns):
        continue
    for _sfx in ("", "_async"):
        if load._last_def(load.get_module(_m).classes[_cn].body, "evaluate" + _sfx) is not None:
            _children_complete(_m, _cn, _init, _sfx, prop="C17", what="frame")


# a cached template is shared between requests: what it renders must not depend on the request
# that happened to load it (the globals of an EARLIER request); same contract as C23's
from contracts.C23 import _mk_check_cache  # noqa: E402

for _sfx in ("", "_async"):
    _mk_check_cache("hit", _sfx, prop="C17")


not_covered("C17", "the statement's exemptions (current time via now/today, templates reloaded from changed sources)",
            "the write-set obligations are syntactic over method bodies (aliases through local variables of self attributes are followed one level); the bounded history check renders sequences and compares deep copies of the data")

bounded("C17", "bounded/C17.py")

REPLAY_PARSER_STATE = r'''
def run(m):
    from liquid import Environment
    from liquid.exceptions import LiquidError
    env = Environment()
    deep = lambda n: "{% if true %}" * n + "x" + "{% endif %}" * n
    ok_before = env.from_string(deep(30)).render()
    for _ in range(3):
        try:
            env.from_string(deep(40))
        except LiquidError:
            pass
    try:
        ok_after = env.from_string(deep(30)).render()
    except LiquidError as e:
        ok_after = type(e).__name__
    return {"violated": ok_after != ok_before, "observed": [ok_before, ok_after]}
'''

REPLAY_MEMO_DATE = r'''
def run(m):
    import datetime as dt
    from liquid import Environment
    t = Environment().from_string("{{ d | date: '%H:%M %z' }}")
    a = dt.datetime(2024, 1, 1, 12, 0, tzinfo=dt.timezone.utc)
    b = a.astimezone(dt.timezone(dt.timedelta(hours=5)))
    first = t.render(d=a)
    second = t.render(d=b)
    return {"violated": second != b.strftime("%H:%M %z"), "observed": [first, second]}
'''

REPLAY = r'''
def run(m):
    from bounded.C17 import run as brun
    r = brun("quick", 0)
    v = r["violations"]
    return {"failing": bool(v), "witness": v[0]["witness"] if v else "purity", "call": v[0]["source"] if v else "history sweep", "result": v[0]["got"] if v else "ok"}
'''
