"""C22 -- template loaders never read outside their search paths.

Over the pathlib model (DESIGN 3): a path has a name, a suffix, is absolute or not, and may
have a '..' part; base.joinpath(q) stays inside base iff q is relative and has no '..'
part; exists/is_file/resolve/read may raise OSError."""
import z3

from contracts.common import *  # noqa: F403
from pyvc.builtins import BuiltinMixin as BM
from pyvc.contract import contract
from pyvc.run import bounded, not_covered, structural
from pyvc.state import *  # noqa: F403
from pyvc.u import *  # noqa: F403

FS = "liquid.builtin.loaders.file_system_loader:FileSystemLoader"
PKG = "liquid.builtin.loaders.package_loader:PackageLoader"


def bases(c, eng_paths, n=2):
    out = []
    for i in range(n):
        t = z3.Const(f"base{i}", U)
        out.append(VOpaque(t, "path"))
    return out


def contained(r):
    """the returned path is join(base_i, q) with q relative and '..'-free"""
    v = r.value
    if not isinstance(v, (VU, VOpaque)) or not z3.is_app(v.t) or v.t.decl().name() != "path_join":
        return z3.BoolVal(False)
    q = v.t.arg(1)
    return z3.And(z3.Not(BM.P_ABS(q)), z3.Not(BM.P_PARDIR(q)))


def _resolve(target, cls, fields, label):
    for reject in ((False, True) if "file_system" in target else (None,)):
        def _mk(reject):
            @contract(target, prop="C22", name=label + (f"[reject_symlinks={reject}]" if reject is not None else ""))
            def res(c):
                name = c.str("template_name")
                bs = bases(c, None)
                f = dict(fields(c))
                if reject is not None:
                    f["reject_symlinks"] = VBool(z3.BoolVal(reject))
                self = c.obj(cls, "loader", **{k: (c.st.alloc(HList(items=list(bs))) if v == "BASES" else v) for k, v in f.items()})
                def entry(eng, cc, func):
                    for b in bs:
                        eng.mk_path(cc.st, b.t)
                    return eng.run(func, cc.st, [name], {}, self_val=self)
                c.entry = entry
                c.ensures("returned-path-is-inside-a-search-path", contained)
                if reject:
                    def post(r):
                        # the path was accepted only after resolve(p) was found relative to resolve(base)
                        return z3.BoolVal(any(e[0] == "call" and e[1] == "Path.resolve" for e in r.st.log))
                    c.ensures("symlink-rejection-resolves-before-accepting", post)

                    def post_rel(r):
                        # accepted => the fully resolved path lies under the fully resolved search
                        # path, as a PATH relation (a string prefix would admit /templates_private)
                        v = r.value
                        if not (isinstance(v, (VU, VOpaque)) and z3.is_app(v.t) and v.t.decl().name() == "path_join"):
                            return z3.BoolVal(False)
                        base = v.t.arg(0)
                        R = z3.Function("opq$Path.resolve", U, I, U)
                        rel = z3.Function("path_is_relative_to", U, U, B)
                        res_p = [R(e[2][0], z3.IntVal(e[3])) for e in r.st.log if e[0] == "call" and e[1] == "Path.resolve" and z3.eq(e[2][0], v.t)]
                        res_b = [R(e[2][0], z3.IntVal(e[3])) for e in r.st.log if e[0] == "call" and e[1] == "Path.resolve" and z3.eq(e[2][0], base)]
                        if not res_p or not res_b:
                            return z3.BoolVal(False)
                        return rel(res_p[-1], res_b[-1])
                    c.ensures("accepted-only-if-the-resolved-path-is-relative-to-the-resolved-search-path", post_rel)
                c.raises("TemplateNotFoundError")
                c.assume_note("BOUNDED in the number of search paths only: 2 arbitrary base paths (the loop over search paths is unrolled)")
                c.replay("code", code=REPLAY)
        _mk(reject)


_resolve(FS + ".resolve_path", FS, lambda c: dict(search_path="BASES", ext=c.str("ext"), encoding=c.str("encoding")), "FileSystemLoader.resolve_path")
_resolve(PKG + "._resolve_path", PKG, lambda c: dict(paths="BASES", ext=c.str("ext"), encoding=c.str("encoding")), "PackageLoader._resolve_path")


def _get_source(target, cls, fields, label):
    @contract(target, prop="C22", name=label)
    def gs(c):
        name = c.str("template_name")
        bs = bases(c, None)
        f = {k: (c.st.alloc(HList(items=list(bs))) if v == "BASES" else v) for k, v in fields(c).items()}
        self = c.obj(cls, "loader", **f)
        def entry(eng, cc, func):
            for b in bs:
                eng.mk_path(cc.st, b.t)
            return eng.run(func, cc.st, [c.any("env"), name], {}, self_val=self)
        c.entry = entry
        def opened_only_resolved(r):
            reads = [e for e in r.st.log if e[0] == "call" and e[1] in ("Path.read_text", "Path.open")]
            return z3.BoolVal(True) if not reads else z3.And(*[z3.And(z3.Not(BM.P_ABS(e[2][0].arg(1))), z3.Not(BM.P_PARDIR(e[2][0].arg(1)))) if (z3.is_app(e[2][0]) and e[2][0].decl().name() == "path_join") else z3.BoolVal(False) for e in reads])
        c.ensures("only-files-inside-a-search-path-are-read", opened_only_resolved)
        c.requires(z3.BoolVal(True), "files inside the search path are readable text in the configured encoding (OSError/UnicodeDecodeError from reading an existing file are properties of the file, not of the name)")
        c.files_readable = True
        c.raises("TemplateNotFoundError")
        c.replay("code", code=REPLAY)


_get_source(PKG + ".get_source", PKG, lambda c: dict(paths="BASES", ext=c.str("ext"), encoding=c.str("encoding")), "PackageLoader.get_source")
_get_source(PKG + ".get_source_async", PKG, lambda c: dict(paths="BASES", ext=c.str("ext"), encoding=c.str("encoding")), "PackageLoader.get_source_async")

# ---- the options the containment contracts above depend on really are the options the
# ---- constructor was given, for the plain and the caching file-system loader

def _ctor(target, label, extra_kw):
    @contract(target, prop="C22", name=label)
    def ct(c):
        enc, ext, rs = c.str("encoding"), c.any("ext"), c.bool("reject_symlinks")
        c.requires(U.is_none(ext.t), "no default extension (with_suffix validation is a pathlib call)")
        self = c.obj(target.rsplit(".", 1)[0], "loader")
        sp = c.str("search_path")
        c.summary("liquid.builtin.loaders.mixins:CachingLoaderMixin.__init__", lambda eng, st, a, k: [(st, NONE)])
        kw = dict(encoding=enc, ext=ext, reject_symlinks=rs)
        kw.update(extra_kw(c))
        if "Caching" in target:
            c.call(sp, enc, ext, self_val=self, **{k: v for k, v in kw.items() if k not in ("encoding", "ext")})
        else:
            c.call(sp, self_val=self, **kw)

        def post(r):
            f = r.st.deref(self).fields
            if not all(k in f for k in ("reject_symlinks", "encoding", "ext", "search_path")):
                return z3.BoolVal(False)
            return z3.And(box(f["reject_symlinks"]) == U.bool(rs.t), box(f["encoding"]) == U.str(enc.t), box(f["ext"]) == ext.t)
        c.ensures("the-loader-holds-exactly-the-options-it-was-given(reject_symlinks,encoding,ext)", post)
        c.raises()
        c.replay("code", code=REPLAY_CTOR)


_ctor(FS + ".__init__", "FileSystemLoader.__init__[options stored]", lambda c: {})
_ctor("liquid.builtin.loaders.caching_file_system_loader:CachingFileSystemLoader.__init__", "CachingFileSystemLoader.__init__[options reach the file-system loader]",
      lambda c: dict(auto_reload=c.bool("auto_reload"), namespace_key=c.str("namespace_key"), capacity=c.int("capacity")))


@structural("C22", "constructor-forwarding")
def ctor_forwarding():
    """loader constructors hand each option to the option of the same name: a keyword `k=<p>`
    in a base-constructor call, where both k and p are parameters of the enclosing __init__,
    has k == p (reject_symlinks must reach reject_symlinks)"""
    import ast
    from pyvc import flow, load
    obs = []
    n = 0
    for m in [x for x in load.all_modules() if x.startswith("liquid.builtin.loaders")]:
        mod = load.get_module(m)
        for cname, cnode in mod.classes.items():
            init = load._last_def(cnode.body, "__init__")
            if init is None:
                continue
            params = {a.arg for a in init.args.args + init.args.kwonlyargs} - {"self"}
            for call in flow.calls(init):
                if not flow.dotted(call.func).endswith("__init__"):
                    continue
                n += 1
                crossed = [f"{k.arg}={k.value.id}" for k in call.keywords if k.arg in params and isinstance(k.value, ast.Name) and k.value.id in params and k.value.id != k.arg]
                obs.append(flow.ob(f"{cname}.__init__@{call.lineno - init.lineno}:options-are-forwarded-to-the-option-of-the-same-name", not crossed, str(crossed), replay_schema="code", replay_extra={"code": REPLAY_CTOR}))
            stores = {}
            for st_ in ast.walk(init):
                if isinstance(st_, ast.Assign) and len(st_.targets) == 1 and isinstance(st_.targets[0], ast.Attribute) and flow.dotted(st_.targets[0].value) == "self" and isinstance(st_.value, ast.Name) and st_.value.id in params:
                    stores[st_.targets[0].attr] = st_.value.id
            crossed = [f"self.{k}={v}" for k, v in stores.items() if k in params and k != v]
            if stores:
                obs.append(flow.ob(f"{cname}.__init__:options-are-stored-under-their-own-name", not crossed, str(crossed), replay_schema="code", replay_extra={"code": REPLAY_CTOR}))
    obs.append(flow.ob("base-constructor-calls-found", n >= 2, f"{n}"))
    return obs


REPLAY_CTOR = r'''
def run(m):
    from liquid import CachingFileSystemLoader
    bad = []
    for rs in (True, False):
        for ar in (True, False):
            l = CachingFileSystemLoader("/tmp", reject_symlinks=rs, auto_reload=ar)
            if l.reject_symlinks is not rs or l.auto_reload is not ar:
                bad.append((rs, ar, l.reject_symlinks, l.auto_reload))
    return {"violated": bool(bad), "observed": bad}
'''


@structural("C22", "only-resolved-paths-are-read")
def only_resolved_paths_are_read():
    """file-system loaders (sync and async): the only path handed to `_read` is the value of
    `resolve_path(<the requested name>)` (the function under contract: containment and symlink
    rejection), directly or through run_in_executor; files are opened nowhere else"""
    import ast
    from pyvc import flow, load
    obs = []
    mod = load.get_module("liquid.builtin.loaders.file_system_loader")
    n = 0
    for cname, cnode in mod.classes.items():
        for fn in [f for f in cnode.body if isinstance(f, (ast.FunctionDef, ast.AsyncFunctionDef))]:
            def unwrap(e):
                return e.value if isinstance(e, ast.Await) else e

            def is_resolve(e):
                e = unwrap(e)
                if not isinstance(e, ast.Call):
                    return False
                if flow.dotted(e.func) == "self.resolve_path" and len(e.args) == 1:
                    return True
                return flow.dotted(e.func).endswith("run_in_executor") and len(e.args) == 3 and flow.dotted(e.args[1]) == "self.resolve_path"
            resolved = {t.id for st_ in ast.walk(fn) if isinstance(st_, ast.Assign) and is_resolve(st_.value) for t in st_.targets if isinstance(t, ast.Name)}
            other = {t.id for st_ in ast.walk(fn) if isinstance(st_, ast.Assign) and not is_resolve(st_.value) for t in st_.targets if isinstance(t, ast.Name)}
            for call in flow.calls(fn):
                d = flow.dotted(call.func)
                arg = None
                if d == "self._read" and call.args:
                    arg = call.args[0]
                elif d.endswith("run_in_executor") and len(call.args) >= 3 and flow.dotted(call.args[1]) == "self._read":
                    arg = call.args[2]
                if arg is not None:
                    n += 1
                    ok = isinstance(arg, ast.Name) and arg.id in resolved and arg.id not in other
                    obs.append(flow.ob(f"{cname}.{fn.name}@{call.lineno - fn.lineno}:reads-only-what-resolve_path-returned", ok, ast.unparse(call)[:80], replay_schema="code", replay_extra={"code": REPLAY}))
                if fn.name != "_read" and (d.endswith(".open") or d.endswith(".read_text") or d.endswith(".read_bytes") or d == "open"):
                    obs.append(flow.ob(f"{cname}.{fn.name}@{call.lineno - fn.lineno}:files-are-opened-in-_read-only", False, ast.unparse(call)[:80], replay_schema="code", replay_extra={"code": REPLAY}))
    obs.append(flow.ob("read-sites-found", n >= 2, f"{n} _read call sites"))
    return obs


not_covered("C22", "the file system itself (symlink resolution is opaque; races between exists() and open())", "more than two search paths (the loop is uniform)",
            "reading an existing but unreadable / mis-encoded file (excluded by precondition)")

bounded("C22", "bounded/C22.py")

REPLAY = r'''
def run(m):
    from bounded.C22 import run as brun
    r = brun("quick", 0)
    v = r["violations"]
    return {"failing": bool(v), "witness": v[0]["witness"] if v else "containment", "call": v[0]["source"] if v else "name sweep", "result": v[0]["got"] if v else "ok"}
'''
